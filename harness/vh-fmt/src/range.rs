//! C07: (tie) the `RangeText` model vs the real text helpers of range formatting on generated
//! fragments; (oracle) `emmylua_formatter::reformat_range` on valid documents × selections × configs.
use crate::gen_lua::Gen;
use crate::tokens;
use emmylua_formatter::verif::range_text as rt;
use emmylua_formatter::{LuaFormatConfig, SourceText, TextRange, reformat_range};
use emmylua_parser::LuaLanguageLevel;
use rowan::TextSize;
use serde_json::json;
use std::collections::HashSet;
use vh_common::{Args, Report, Rng, hex, run_driver};

fn hexb(s: &str) -> String {
    hex(s)
}

/// the same canonical string the driver's `printer.rt` prints, from the real functions
fn impl_rt(text: &str, s: usize, e: usize, prefix: &str, keep: &[usize]) -> Result<String, String> {
    let (t, p, keep) = (text.to_string(), prefix.to_string(), keep.to_vec());
    vh_common::catch(move || {
        let text = t.as_str();
        let len = TextSize::new(text.len() as u32);
        let c = rt::clamp_range(TextRange::new(TextSize::new(s as u32), TextSize::new(e as u32)), len);
        let x = rt::expand_to_full_lines(text, c);
        let ls = rt::line_start_offset(text, s);
        let le = rt::line_end_offset(text, e);
        let indent = rt::line_indent_prefix(text, x.start());
        let strip = rt::strip_base_indent(text, &p, &keep);
        let apply = rt::apply_base_indent(text, &p, &keep);
        format!(
            "ok clamp={}:{} expand={}:{} ls={} le={} indent={} strip={} apply={}",
            u32::from(c.start()), u32::from(c.end()), u32::from(x.start()), u32::from(x.end()), ls, le,
            hexb(&indent), hexb(&strip), hexb(&apply)
        )
    })
}

const PIECES: &[&str] = &["a", "bc", " ", "  ", "\t", "\n", "\n", "\r\n", "\r", "é", "x = 1", "--c", "    ", "\n  ", "\n\t", "end"];
const PREFIXES: &[&str] = &["", " ", "  ", "\t", "    ", " \t", "\t\t"];

fn fragment(rng: &mut Rng, max: usize) -> String {
    let n = rng.below(max + 1);
    (0..n).map(|_| *rng.pick(PIECES)).collect()
}

fn tie(args: &Args, report: &mut Report, rng: &mut Rng) {
    let mut cases: Vec<(String, usize, usize, String, Vec<usize>)> = Vec::new();
    // hand-picked
    for (t, s, e, p) in [
        ("  a\n\n  b", 0, 3, "  "), ("  \n  b", 0, 2, "  "), ("a\n", 0, 1, "  "), (" a\r\n b", 1, 5, " "),
        ("", 0, 0, ""), ("\n", 0, 5, "\t"), ("x", 3, 9, " "), ("\ta\n\t\tb\n", 2, 4, "\t"), ("a\r", 0, 2, ""),
    ] {
        cases.push((t.into(), s, e, p.into(), vec![]));
    }
    cases.push(("x=[[a\n b]]".into(), 0, 3, "\t".into(), vec![6]));
    cases.push(("x=[[a\n b]]".into(), 0, 3, " ".into(), vec![6]));
    if args.thorough() {
        for t in vh_common::gen_text::all_texts(&["a", " ", "\n", "\r"], 6) {
            let n = t.len();
            for s in 0..=n + 1 {
                for e in s..=n + 1 {
                    for p in ["", " ", "  "] {
                        cases.push((t.clone(), s, e, p.into(), vec![]));
                    }
                }
            }
        }
        report.extra.insert("exhaustive_scope".into(), json!("all texts of length <= 6 over {a, space, \\n, \\r} x all 0<=s<=e<=len+1 x prefixes {'', ' ', '  '}"));
    } else {
        for t in vh_common::gen_text::all_texts(&["a", " ", "\n", "\r"], 4) {
            let n = t.len();
            for s in 0..=n + 1 {
                for e in s..=n + 1 {
                    cases.push((t.clone(), s, e, " ".into(), if (s + e) % 3 == 0 { vec![s, e] } else { vec![] }));
                }
            }
        }
    }
    let random = if args.thorough() { 200_000 } else { 6_000 };
    for _ in 0..random {
        let t = fragment(rng, 14);
        let n = t.len();
        let s = rng.below(n + 3);
        let e = s + rng.below(n + 3 - s.min(n + 2));
        // prefix: fixed list, or the real indent of a line of the text
        let p = if rng.chance(1, 2) {
            rng.pick(PREFIXES).to_string()
        } else {
            let ls = rt::line_start_offset(&t, rng.below(n + 1));
            rt::line_indent_prefix(&t, TextSize::new(ls as u32))
        };
        // kept line starts: a random subset of the real line starts (plus sometimes a non-line-start offset)
        let mut keep = Vec::new();
        if rng.chance(1, 2) {
            for (i, b) in t.bytes().enumerate() {
                if b == b'\n' && i + 1 < t.len() && rng.chance(1, 2) { keep.push(i + 1); }
            }
            if rng.chance(1, 3) { keep.push(0); }
            if rng.chance(1, 5) { keep.push(rng.below(n + 2)); }
        }
        cases.push((t, s, e, p, keep));
    }
    let keeps = |k: &Vec<usize>| if k.is_empty() { "-".to_string() } else { k.iter().map(|x| x.to_string()).collect::<Vec<_>>().join(",") };
    let reqs: Vec<String> = cases.iter().map(|(t, s, e, p, k)| format!("printer.rt {} {} {} {} {}", hexb(t), s, e, hexb(p), keeps(k))).collect();
    let model = run_driver(&reqs);
    let mut seen = HashSet::new();
    for ((t, s, e, p, k), m) in cases.iter().zip(model.iter()) {
        report.evaluations += 1;
        if !k.is_empty() { report.count("tie_with_kept_lines"); }
        let i = match impl_rt(t, *s, *e, p, k) {
            Ok(x) => x,
            Err(msg) => format!("err panic ({msg})"),
        };
        let multi = t.matches('\n').count() >= 1;
        if multi && seen.insert((t.clone(), *s, *e, p.clone(), k.clone())) {
            report.distinct_nontrivial += 1;
        }
        if t.contains("\r\n") { report.count("tie_crlf"); }
        if !t.is_ascii() { report.count("tie_non_ascii"); }
        if *e > t.len() { report.count("tie_range_beyond_end"); }
        if !p.is_empty() { report.count("tie_nonempty_prefix"); }
        if &i != m {
            report.mismatch(json!({"input": {"kind": "rt", "text_hex": hexb(t), "text": t, "s": s, "e": e, "prefix": p, "keep": k},
                "model": m, "impl": i, "tie": "correspondence printer.rt (RangeText model vs range_format helpers)"}));
        } else {
            report.traces_validated += 1;
        }
        if report.samples.len() < 2 && multi {
            report.sample(json!({"kind": "tie", "text": t, "s": s, "e": e, "prefix": p, "keep": k, "both": m}));
        }
    }
}

pub fn configs() -> Vec<(&'static str, LuaFormatConfig)> {
    use emmylua_formatter::*;
    let d = LuaFormatConfig::default();
    let mut v = vec![("default", d.clone())];
    let mut c = d.clone();
    c.indent.kind = IndentKind::Tab;
    v.push(("tabs", c));
    let mut c = d.clone();
    c.indent.width = 2;
    c.layout.max_line_width = 40;
    v.push(("w2-narrow40", c));
    let mut c = d.clone();
    c.output.trailing_comma = TrailingComma::Always;
    c.output.quote_style = QuoteStyle::Double;
    c.output.single_arg_call_parens = SingleArgCallParens::Always;
    v.push(("trailing-always-dq-parens", c));
    let mut c = d.clone();
    c.output.trailing_comma = TrailingComma::Multiline;
    c.output.quote_style = QuoteStyle::Single;
    c.output.end_of_line = EndOfLine::CRLF;
    c.output.insert_final_newline = false;
    v.push(("multiline-sq-crlf-nofinalnl", c));
    let mut c = d.clone();
    c.align.continuous_assign_statement = true;
    c.comments.align_in_statements = true;
    c.spacing.space_inside_parens = true;
    c.spacing.space_before_call_paren = true;
    c.emmy_doc.space_between_tag_columns = true;
    c.layout.max_line_width = 80;
    v.push(("align-spacing", c));
    v
}

/// predicate names for known findings, computed from the input text only
pub fn classify(text: &str) -> Option<&'static str> {
    // a doc tag whose type contains a parenthesised type followed by a type operator
    for line in text.lines() {
        let l = line.trim_start();
        if l.starts_with("---") && l.contains('@') {
            let b = l.as_bytes();
            let mut depth_open: Vec<usize> = Vec::new();
            for (i, ch) in b.iter().enumerate() {
                if *ch == b'(' {
                    // a grouping paren: not directly after an identifier char (call/fun parameter list)
                    let prev = l[..i].chars().last().unwrap_or(' ');
                    if !(prev.is_alphanumeric() || prev == '_') {
                        depth_open.push(i);
                    } else {
                        depth_open.push(usize::MAX);
                    }
                } else if *ch == b')' {
                    if let Some(open) = depth_open.pop() {
                        if open != usize::MAX {
                            return Some("doc-type-with-grouping-parentheses");
                        }
                    }
                }
            }
        }
    }
    None
}

fn selections(text: &str, toks: &[tokens::Tok], rng: &mut Rng, budget: usize) -> Vec<(usize, usize)> {
    let n = text.len();
    let bounds: Vec<usize> = (0..=n).filter(|i| text.is_char_boundary(*i)).collect();
    let mut v: Vec<(usize, usize)> = Vec::new();
    if bounds.len() * bounds.len() / 2 <= budget {
        for (i, s) in bounds.iter().enumerate() {
            for e in &bounds[i..] {
                v.push((*s, *e));
            }
        }
        v.push((0, n + 5));
        v.push((n + 2, n + 9));
        return v;
    }
    v.push((0, n));
    v.push((0, n + 7));
    v.push((n, n));
    v.push((n + 3, n + 4));
    // lines
    let mut starts = vec![0usize];
    for (i, b) in text.bytes().enumerate() {
        if b == b'\n' {
            starts.push(i + 1);
        }
    }
    for _ in 0..budget / 4 {
        let a = *rng.pick(&starts);
        let b = *rng.pick(&starts);
        v.push((a.min(b), a.max(b)));
    }
    // token-aligned, partial-token and empty selections
    if !toks.is_empty() {
        for _ in 0..budget / 2 {
            let a = rng.pick(toks).clone();
            let b = rng.pick(toks).clone();
            let (mut s, mut e) = ((a.start as usize).min(b.start as usize), (a.end as usize).max(b.end as usize));
            match rng.below(4) {
                0 => { s = (s + 1).min(e); }
                1 => { e = e.saturating_sub(1).max(s); }
                2 => { e = s; }
                _ => {}
            }
            while !text.is_char_boundary(s) { s -= 1; }
            while !text.is_char_boundary(e) { e += 1; }
            v.push((s, e));
        }
    }
    for _ in 0..budget / 4 {
        let s = *rng.pick(&bounds);
        let e = *rng.pick(&bounds);
        v.push((s.min(e), s.max(e)));
    }
    v
}

/// the property's oracle on one (document, selection, config); returns Err(what) on violation
fn check_selection(text: &str, s: usize, e: usize, cfg: &LuaFormatConfig, orig: Option<&tokens::Parsed>, report: &mut Report) -> Result<(), String> {
    let level = LuaLanguageLevel::Lua55;
    let (t2, c2) = (text.to_string(), cfg.clone());
    let r = vh_common::catch(move || {
        let src = SourceText { text: &t2, level };
        reformat_range(&src, TextRange::new(TextSize::new(s as u32), TextSize::new(e as u32)), &c2)
    });
    let out = match r {
        Err(msg) => return Err(format!("reformat_range panicked: {msg}")),
        Ok(o) => o,
    };
    let Some(orig) = orig else {
        return if out.is_some() { Err("a document with syntax errors was range-formatted".into()) } else { report.count("oracle_erroneous_doc_not_formatted"); Ok(()) };
    };
    let Some(out) = out else {
        report.count("oracle_result_none");
        return Ok(());
    };
    report.count("oracle_result_some");
    let (rs, re) = (usize::from(out.replace_range.start()), usize::from(out.replace_range.end()));
    if rs > re || re > text.len() || !text.is_char_boundary(rs) || !text.is_char_boundary(re) {
        return Err(format!("replace range {rs}..{re} is not a valid range of the document (len {})", text.len()));
    }
    // covers the selected code: every token that overlaps the clamped selection lies inside the replaced region
    let (cs, ce) = (s.min(text.len()), e.min(text.len()));
    for t in &orig.toks {
        let (a, b) = (t.start as usize, t.end as usize);
        // (a `#!` line is not code the formatter ever rewrites)
        if a < ce && cs < b && !(rs <= a && b <= re) && !(a == 0 && t.text.starts_with("#!")) {
            return Err(format!("selected token {:?} at {a}..{b} is outside the replaced region {rs}..{re}", t.text));
        }
    }
    let spliced = format!("{}{}{}", &text[..rs], out.text, &text[re..]);
    let Some(after) = tokens::parse(&spliced, level, cfg) else {
        return Err(format!("the spliced document has syntax errors (replaced {rs}..{re} by {:?})", out.text));
    };
    let (a, b) = (tokens::texts(orig), tokens::texts(&after));
    if a != b {
        return Err(format!("token sequence changed: {}", tokens::first_diff(&a, &b)));
    }
    if orig.comment_shapes != after.comment_shapes {
        return Err("a comment parses to a different structure after the edit".into());
    }
    if out.text != text[rs..re] {
        report.count("oracle_edit_changes_text");
    }
    Ok(())
}

pub fn corpus() -> Vec<String> {
    vec![
        "local a=1\nlocal   b  =  2\n".into(),
        "local t = {\n  a = 1,\n    b = {1,2,\n3},\n}\nprint(t)\n".into(),
        "function f(a,\n   b)\n    if a then\n  return b\n    end\nend\n".into(),
        "local s = [[\n  keep\n    this]]\nlocal x  =  1\n".into(),
        "do\n    --[[ multi\n  line ]]\n    local y=2 -- trailing\nend\n".into(),
        "---@param a string the a\n---@return number\nlocal function g(a) return #a end\n".into(),
        "if x then\n\tfoo( 1,2 )\n\tbar{ a=1 }\nend\n".into(),
        "local é = 'ü'\nprint ( é )\n".into(),
        "return {\n  f = function(a, b)\n      return a+b\n  end,\n}\n".into(),
        // a quoted string continued over lines (backslash-newline, \\z) inside a nested block that gets re-indented
        "do\n  do\n      local s = \"first \\z\n           second\" .. \"x\\\n   y\"\n      print( s )\n  end\nend\n".into(),
        // a statement sharing its line with the head / tail of another multi-line statement
        "local   y=2 foo(\n  a\n)\nlocal z  =  3\n".into(),
        "foo(\n  a\n) local   y=2\nbar( y )\n".into(),
        "x = a - -b\ny = 1 .. x\nf(\"a\", b)\n".into(),
        "x = 1 -- last".into(),
        "do\n  t[ [[a]] .. b ] = 1\n    u = { [ [=[a]=] .. b ] = 1 }\n  foo(a, function() return x, y end)\nend\n".into(),
    ]
}

pub fn erroneous() -> Vec<String> {
    vec!["local = 1\n".into(), "if x then\n".into(), "local t = {1,2\nprint(t)\n".into(), "x = = 2\n".into(), "function f(\n".into(), "return return\n".into()]
}

pub fn run(args: &Args, report: &mut Report) {
    let mut rng = Rng::new(args.seed);
    let level = LuaLanguageLevel::Lua55;
    let cfgs = configs();
    if let Some(p) = &args.replay {
        let v: serde_json::Value = serde_json::from_str(&std::fs::read_to_string(p).expect("replay file")).expect("json");
        let inp = &v["input"];
        if inp["kind"] == "rt" {
            let t = vh_common::unhex(inp["text_hex"].as_str().unwrap_or("-")).unwrap_or_default();
            let (s, e) = (inp["s"].as_u64().unwrap_or(0) as usize, inp["e"].as_u64().unwrap_or(0) as usize);
            let p = inp["prefix"].as_str().unwrap_or("").to_string();
            let k: Vec<usize> = inp["keep"].as_array().map(|a| a.iter().filter_map(|x| x.as_u64().map(|y| y as usize)).collect()).unwrap_or_default();
            let ks = if k.is_empty() { "-".to_string() } else { k.iter().map(|x| x.to_string()).collect::<Vec<_>>().join(",") };
            let m = run_driver(&[format!("printer.rt {} {} {} {} {}", hexb(&t), s, e, hexb(&p), ks)]);
            let i = impl_rt(&t, s, e, &p, &k).unwrap_or_else(|m| format!("err panic ({m})"));
            report.evaluations = 1;
            if i != m[0] {
                report.mismatch(json!({"input": inp, "model": m[0], "impl": i, "tie": "correspondence printer.rt"}));
            }
        } else {
            let text = inp["text"].as_str().unwrap_or("").to_string();
            let (s, e) = (inp["s"].as_u64().unwrap_or(0) as usize, inp["e"].as_u64().unwrap_or(0) as usize);
            let cname = inp["config"].as_str().unwrap_or("default");
            let cfg = cfgs.iter().find(|c| c.0 == cname).map(|c| c.1.clone()).unwrap_or_default();
            let orig = tokens::parse(&text, level, &cfg);
            report.evaluations = 1;
            if let Err(what) = check_selection(&text, s, e, &cfg, orig.as_ref(), report) {
                report.oracle_failure(json!({"input": inp, "what": what, "class": classify(&text)}));
            }
        }
        return;
    }
    tie(args, report, &mut rng);

    // ---- oracle on the real reformat_range
    let mut docs: Vec<String> = corpus();
    let n_docs = if args.thorough() { 900 } else { 120 };
    for i in 0..n_docs {
        let mut g = Gen::new(&mut rng);
        g.docs = i % 3 != 0;
        if i % 3 == 1 {
            docs.push(g.tricky_program(5));
        } else {
            docs.push(g.program(if i % 4 == 0 { 3 } else { 8 }));
        }
    }
    let budget = if args.thorough() { 400 } else { 60 };
    let mut seen = HashSet::new();
    let mut none_count = 0u64;
    for (di, text) in docs.iter().enumerate() {
        let cfg_ix: Vec<usize> = if args.thorough() { (0..cfgs.len()).collect() } else { vec![0, 1 + di % (cfgs.len() - 1)] };
        for ci in cfg_ix {
            let (cname, cfg) = &cfgs[ci];
            let Some(orig) = tokens::parse(text, level, cfg) else {
                report.count("generated_doc_with_syntax_errors");
                if let Ok(d) = std::env::var("VH_DUMP") {
                    let _ = std::fs::write(format!("{d}/rejected-{di}.lua"), text);
                }
                report.notes.push(format!("generator produced a document the parser rejects: {:?}", &text[..text.len().min(120)]));
                break;
            };
            for (s, e) in selections(text, &orig.toks, &mut rng, budget) {
                report.evaluations += 1;
                let before = *report.distribution.get("oracle_result_none").unwrap_or(&0);
                let res = check_selection(text, s, e, cfg, Some(&orig), report);
                if *report.distribution.get("oracle_result_none").unwrap_or(&0) > before {
                    none_count += 1;
                } else if s < e && seen.insert((di, s, e, ci)) {
                    report.distinct_nontrivial += 1;
                }
                if s == e { report.count("sel_empty"); }
                if e > text.len() { report.count("sel_beyond_end"); }
                if text[s.min(text.len())..e.min(text.len())].contains('\n') { report.count("sel_multi_line"); }
                if let Err(what) = res {
                    report.oracle_failure(json!({"input": {"kind": "selection", "text": text, "s": s, "e": e, "config": cname},
                        "what": what, "class": classify(text)}));
                }
            }
        }
        if di < 2 {
            report.sample(json!({"kind": "oracle document", "text": text, "selections": budget}));
        }
    }
    for text in erroneous() {
        for (s, e) in [(0usize, text.len()), (0, 3), (2, 2)] {
            report.evaluations += 1;
            if let Err(what) = check_selection(&text, s, e, &cfgs[0].1, None, report) {
                report.oracle_failure(json!({"input": {"kind": "selection", "text": text, "s": s, "e": e, "config": "default"}, "what": what, "class": null}));
            }
        }
    }
    let _ = none_count;
    report.rule = "tie: fragments over {a, bc, blanks, tabs, \\n, \\r\\n, \\r, é, code-like pieces} x ranges 0<=s<=e<=len+2 x indent prefixes (fixed list or the real indent of a line), exhaustive small texts + seeded random; non-trivial = text with >= 2 lines, distinct by (text, s, e, prefix). oracle: hand-written + grammar-generated valid Lua documents (messy layout, comments, doc tags) x selections (all pairs of char boundaries for small documents; whole file, beyond end, line-aligned, token-aligned, partial-token, empty, random otherwise) x formatter configurations, plus documents with syntax errors; non-trivial = non-empty selection with a Some(..) result, distinct by (document, selection, config)".into();
}
