//! C05 / C06: (tie) the Lean `Printer` model vs the real printer on real IRs (dumped through the H5 hook
//! from formatting the corpus) and on random IRs, byte for byte; (oracle, decides the unmodelled rule
//! set) `reformat_lua_code` on generated valid Lua, the std library annotation files and erroneous
//! inputs × configurations.
use crate::gen_lua::Gen;
use crate::range::{configs, corpus, erroneous};
use crate::tokens;
use emmylua_formatter::ir::{self, AlignEntry, DocIR};
use emmylua_formatter::{LuaFormatConfig, SourceText, reformat_lua_code, verif};
use emmylua_parser::LuaLanguageLevel;
use serde_json::json;
use std::collections::HashSet;
use vh_common::{Args, Report, Rng, hex, run_driver};

/// the syntax level is part of the configuration (as `luafmt` does)
pub fn level_of(cfg: &LuaFormatConfig) -> LuaLanguageLevel {
    cfg.syntax.level.into()
}

/// overlay `patch` on `base` (objects recursively, everything else replaced)
pub fn merge_json(base: &mut serde_json::Value, patch: &serde_json::Value) {
    match (base, patch) {
        (serde_json::Value::Object(b), serde_json::Value::Object(p)) => {
            for (k, v) in p {
                merge_json(b.entry(k.clone()).or_insert(serde_json::Value::Null), v);
            }
        }
        (b, p) => *b = p.clone(),
    }
}

pub fn cfg_str(cfg: &LuaFormatConfig) -> String {
    format!(
        "{}:{}:{}:{}:{}:{}",
        cfg.layout.max_line_width,
        cfg.indent_width(),
        if cfg.indent_str() == "\t" { "t" } else { "s" },
        if cfg.newline_str() == "\r\n" { "crlf" } else { "lf" },
        cfg.comments.line_comment_min_spaces_before,
        cfg.comments.line_comment_min_column
    )
}

// ---------------------------------------------------------------- configuration space (T-src + serde)

pub struct CfgSpace {
    /// (section, key, alternative values) for every option of the configuration
    pub leaves: Vec<(String, String, Vec<serde_json::Value>)>,
    /// one configuration per (option, non-default value)
    pub singles: Vec<(String, LuaFormatConfig)>,
}

const CONFIG_SOURCE: &str = "/repo/crates/emmylua_formatter/src/config/mod.rs";

/// `pub struct`/`pub enum` bodies of the configuration source: struct -> (field -> type), enum -> variants
fn parse_config_source(src: &str) -> (std::collections::BTreeMap<String, Vec<(String, String)>>, std::collections::BTreeMap<String, Vec<String>>) {
    let mut structs = std::collections::BTreeMap::new();
    let mut enums = std::collections::BTreeMap::new();
    let mut cur: Option<(bool, String)> = None;
    for line in src.lines() {
        let l = line.trim();
        if let Some(rest) = l.strip_prefix("pub struct ") {
            if let Some(name) = rest.strip_suffix(" {") {
                cur = Some((true, name.to_string()));
                structs.insert(name.to_string(), Vec::new());
            }
        } else if let Some(rest) = l.strip_prefix("pub enum ") {
            if let Some(name) = rest.strip_suffix(" {") {
                cur = Some((false, name.to_string()));
                enums.insert(name.to_string(), Vec::new());
            }
        } else if l == "}" {
            cur = None;
        } else if let Some((is_struct, name)) = &cur {
            if l.starts_with("//") || l.starts_with("#[") || l.is_empty() {
                continue;
            }
            if *is_struct {
                if let Some(rest) = l.strip_prefix("pub ") {
                    if let Some((f, t)) = rest.trim_end_matches(',').split_once(':') {
                        structs.get_mut(name).unwrap().push((f.trim().to_string(), t.trim().to_string()));
                    }
                }
            } else {
                let v = l.trim_end_matches(',');
                if v.chars().all(|c| c.is_alphanumeric() || c == '_') && !v.is_empty() {
                    enums.get_mut(name).unwrap().push(v.to_string());
                }
            }
        }
    }
    (structs, enums)
}

/// The whole option space: the fields come from serialising the default configuration (so a new option
/// appears by construction), the enum variants from the source text of config/mod.rs; both views are
/// cross-checked (a field in one and not in the other is reported as a broken tie).
pub fn config_space(report: &mut Report) -> CfgSpace {
    let default_json = serde_json::to_value(LuaFormatConfig::default()).expect("config json");
    let src = std::fs::read_to_string(CONFIG_SOURCE).unwrap_or_default();
    let (structs, enums) = parse_config_source(&src);
    let root = structs.get("LuaFormatConfig").cloned().unwrap_or_default();
    let mut leaves = Vec::new();
    let mut problems: Vec<String> = Vec::new();
    let obj = default_json.as_object().cloned().unwrap_or_default();
    for (section, value) in &obj {
        let Some((_, section_ty)) = root.iter().find(|(f, _)| f == section) else {
            problems.push(format!("section {section} not found in the source of LuaFormatConfig"));
            continue;
        };
        let fields = structs.get(section_ty).cloned().unwrap_or_default();
        let sobj = value.as_object().cloned().unwrap_or_default();
        for (f, _) in &fields {
            if !sobj.contains_key(f) {
                problems.push(format!("{section}.{f} is in the source but not in the serialised configuration"));
            }
        }
        for (key, v) in &sobj {
            let Some((_, ty)) = fields.iter().find(|(f, _)| f == key) else {
                problems.push(format!("{section}.{key} is serialised but not found in struct {section_ty}"));
                continue;
            };
            let alts: Vec<serde_json::Value> = match v {
                serde_json::Value::Bool(b) => vec![json!(!b)],
                serde_json::Value::Number(n) => {
                    let d = n.as_u64().unwrap_or(0);
                    match key.as_str() {
                        "max_line_width" => vec![json!(40), json!(80), json!(1000)],
                        "width" => vec![json!(2), json!(8)],
                        "max_blank_lines" => vec![json!(0), json!(2)],
                        "line_comment_min_spaces_before" => vec![json!(2), json!(3)],
                        "line_comment_min_column" => vec![json!(10), json!(30)],
                        _ => vec![json!(0), json!(d + 1)],
                    }
                }
                serde_json::Value::String(cur) => match enums.get(ty) {
                    Some(vars) => vars.iter().filter(|x| *x != cur).map(|x| json!(x)).collect(),
                    None => {
                        problems.push(format!("{section}.{key}: enum {ty} not found in the source"));
                        vec![]
                    }
                },
                _ => {
                    problems.push(format!("{section}.{key}: unsupported value kind {v}"));
                    vec![]
                }
            };
            leaves.push((section.clone(), key.clone(), alts));
        }
    }
    for (f, _) in &root {
        if !obj.contains_key(f) {
            problems.push(format!("section {f} is in the source but not serialised"));
        }
    }
    let mut singles = Vec::new();
    for (section, key, alts) in &leaves {
        for a in alts {
            let mut j = default_json.clone();
            j[section][key] = a.clone();
            match serde_json::from_value::<LuaFormatConfig>(j) {
                Ok(c) => singles.push((format!("{section}.{key}={}", a.to_string().trim_matches('"')), c)),
                Err(e) => problems.push(format!("{section}.{key}={a} is not accepted: {e}")),
            }
        }
    }
    report.extra.insert("config_options".into(), json!(leaves.len()));
    report.extra.insert("config_single_toggles".into(), json!(singles.len()));
    for p in problems {
        report.mismatch(json!({"input": {"kind": "config-space"}, "model": "option list extracted from config/mod.rs", "impl": p,
            "tie": "T-src: configuration options extracted from the source vs the serialised default configuration"}));
    }
    CfgSpace { leaves, singles }
}

/// a random combination of non-default options
pub fn random_config(space: &CfgSpace, rng: &mut Rng) -> (String, LuaFormatConfig) {
    let mut j = serde_json::to_value(LuaFormatConfig::default()).expect("config json");
    let mut name = Vec::new();
    for (section, key, alts) in &space.leaves {
        if !alts.is_empty() && rng.chance(1, 4) && !(section == "syntax") {
            let a = rng.pick(alts).clone();
            name.push(format!("{section}.{key}={}", a.to_string().trim_matches('"')));
            j[section][key] = a;
        }
    }
    match serde_json::from_value::<LuaFormatConfig>(j) {
        Ok(c) => (name.join(","), c),
        Err(_) => ("default".into(), LuaFormatConfig::default()),
    }
}

// ---------------------------------------------------------------- random IRs

const ATOMS: &[&str] = &["a", "bc", "local", "x = 1", "-- c", "é", "", "a\nb", "  ", "end", "{", "}", ",", "long_identifier_name"];

fn rand_docs(rng: &mut Rng, depth: usize, max: usize) -> Vec<DocIR> {
    let n = rng.below(max + 1);
    (0..n).map(|_| rand_doc(rng, depth)).collect()
}

fn rand_doc(rng: &mut Rng, depth: usize) -> DocIR {
    let k = if depth >= 4 { rng.below(6) } else { rng.below(16) };
    match k {
        0 | 1 => ir::text(*rng.pick(ATOMS)),
        2 => ir::space(),
        3 => ir::soft_line(),
        4 => ir::soft_line_or_empty(),
        5 => ir::hard_line(),
        6 => ir::indent(rand_docs(rng, depth + 1, 4)),
        7 => ir::list(rand_docs(rng, depth + 1, 4)),
        8 => {
            let c = rand_docs(rng, depth + 1, 5);
            match rng.below(3) {
                0 => ir::group(c),
                1 => ir::group_break(c),
                _ => ir::group_with_id(c, verif::group_id(rng.below(3) as u32)),
            }
        }
        9 => {
            let (b, f) = (rand_doc(rng, depth + 1), rand_doc(rng, depth + 1));
            if rng.chance(1, 2) { ir::if_break(b, f) } else { ir::if_break_with_group(b, f, verif::group_id(rng.below(3) as u32)) }
        }
        10 => ir::fill(rand_docs(rng, depth + 1, 6)),
        11 => ir::line_suffix(rand_docs(rng, depth + 1, 3)),
        12 | 13 => {
            let n = rng.below(4);
            let entries = (0..n)
                .map(|_| {
                    let trailing = if rng.chance(1, 3) { Some(rand_docs(rng, depth + 2, 2)) } else { None };
                    if rng.chance(2, 3) {
                        AlignEntry::Aligned { before: rand_docs(rng, depth + 2, 2), after: rand_docs(rng, depth + 2, 3), trailing }
                    } else {
                        AlignEntry::Line { content: rand_docs(rng, depth + 2, 3), trailing }
                    }
                })
                .collect();
            ir::align_group(entries)
        }
        _ => ir::text(*rng.pick(ATOMS)),
    }
}

fn count_kinds(docs: &[DocIR], report: &mut Report) {
    for d in docs {
        match d {
            DocIR::Group { contents, .. } => { report.count("ir_group"); count_kinds(contents, report) }
            DocIR::Indent(c) | DocIR::List(c) => count_kinds(c, report),
            DocIR::Fill { parts } => { report.count("ir_fill"); count_kinds(parts, report) }
            DocIR::LineSuffix(c) => { report.count("ir_line_suffix"); count_kinds(c, report) }
            DocIR::IfBreak { break_contents, flat_contents, .. } => {
                report.count("ir_if_break");
                count_kinds(std::slice::from_ref(break_contents.as_ref()), report);
                count_kinds(std::slice::from_ref(flat_contents.as_ref()), report);
            }
            DocIR::AlignGroup(g) => {
                report.count("ir_align_group");
                for e in &g.entries {
                    match e {
                        AlignEntry::Aligned { before, after, trailing } => {
                            count_kinds(before, report);
                            count_kinds(after, report);
                            if let Some(t) = trailing { count_kinds(t, report) }
                        }
                        AlignEntry::Line { content, trailing } => {
                            count_kinds(content, report);
                            if let Some(t) = trailing { count_kinds(t, report) }
                        }
                    }
                }
            }
            _ => {}
        }
    }
}

fn std_files(limit_bytes: usize) -> Vec<(String, String)> {
    let dir = "/repo/crates/emmylua_code_analysis/resources/std";
    let mut v = Vec::new();
    let mut stack = vec![std::path::PathBuf::from(dir)];
    while let Some(d) = stack.pop() {
        let Ok(rd) = std::fs::read_dir(&d) else { continue };
        let mut entries: Vec<_> = rd.flatten().map(|e| e.path()).collect();
        entries.sort();
        for p in entries {
            if p.is_dir() {
                stack.push(p);
            } else if p.extension().map(|e| e == "lua").unwrap_or(false) {
                if let Ok(t) = std::fs::read_to_string(&p) {
                    if t.len() <= limit_bytes {
                        v.push((p.strip_prefix(dir).unwrap().to_string_lossy().to_string(), t));
                    }
                }
            }
        }
    }
    v.sort();
    v
}

/// split a std file into chunks of whole top-level "paragraphs" so that failures are small and several
/// configurations stay affordable
fn paragraphs(text: &str, max: usize) -> Vec<String> {
    let mut out = Vec::new();
    let mut cur = String::new();
    for block in text.split("\n\n") {
        if !cur.is_empty() && cur.len() + block.len() > max {
            out.push(std::mem::take(&mut cur));
        }
        if !cur.is_empty() {
            cur.push_str("\n\n");
        }
        cur.push_str(block);
    }
    if !cur.is_empty() {
        out.push(cur);
    }
    out
}

fn tie(args: &Args, report: &mut Report, rng: &mut Rng, inputs: &[(String, String)]) {
    let cfgs = configs();
    let mut reqs: Vec<String> = Vec::new();
    let mut expect: Vec<(String, serde_json::Value)> = Vec::new();
    // real IRs
    let per_input_cfgs = if args.thorough() { cfgs.len() } else { 2 };
    for (i, (name, text)) in inputs.iter().enumerate() {
        for k in 0..per_input_cfgs {
            let (cname, cfg) = &cfgs[if k == 0 { 0 } else { 1 + (i + k) % (cfgs.len() - 1) }];
            let src = SourceText { text, level: level_of(cfg) };
            let Some(docs) = verif::format_to_ir(&src, cfg) else { continue };
            count_kinds(&docs, report);
            report.count("tie_real_ir");
            let sexpr = verif::ir_to_sexpr(&docs);
            let printed = verif::print_ir(&docs, cfg);
            reqs.push(format!("printer.print {} {}", cfg_str(cfg), sexpr));
            expect.push((format!("ok {}", hex(&printed)), json!({"kind": "real-ir", "source": name, "text": if text.len() < 4000 { text.as_str() } else { "" }, "config": cname})));
        }
    }
    // random IRs
    let n_rand = if args.thorough() { 100_000 } else { 2_500 };
    for i in 0..n_rand {
        let docs = rand_docs(rng, 0, 6);
        let (cname, cfg) = &cfgs[i % cfgs.len()];
        let mut cfg = cfg.clone();
        if i % 3 == 0 {
            cfg.layout.max_line_width = 4 + rng.below(30);
        }
        if i % 7 == 0 {
            cfg.comments.line_comment_min_column = rng.below(12);
            cfg.comments.line_comment_min_spaces_before = rng.below(4);
        }
        count_kinds(&docs, report);
        report.count("tie_random_ir");
        let sexpr = verif::ir_to_sexpr(&docs);
        let d2 = docs.clone();
        let c2 = cfg.clone();
        let printed = match std::panic::catch_unwind(std::panic::AssertUnwindSafe(|| verif::print_ir(&d2, &c2))) {
            Ok(p) => format!("ok {}", hex(&p)),
            Err(_) => "err panic".to_string(),
        };
        reqs.push(format!("printer.print {} {}", cfg_str(&cfg), sexpr));
        expect.push((printed, json!({"kind": "random-ir", "sexpr": sexpr, "config": cname, "cfg": cfg_str(&cfg)})));
    }
    let model = run_driver(&reqs);
    let mut seen = HashSet::new();
    for (((want, input), m), req) in expect.iter().zip(model.iter()).zip(reqs.iter()) {
        report.evaluations += 1;
        if req.contains("(g ") || req.contains("(a ") || req.contains("(f ") {
            if seen.insert(req.clone()) {
                report.distinct_nontrivial += 1;
            }
        }
        if want == m {
            report.traces_validated += 1;
        } else {
            let (a, b) = (want.as_bytes(), m.as_bytes());
            let at = a.iter().zip(b.iter()).position(|(x, y)| x != y).unwrap_or(a.len().min(b.len()));
            report.mismatch(json!({"input": input, "model": &m[..m.len().min(300)], "impl": &want[..want.len().min(300)],
                "first_difference_at_hex_offset": at, "request": if req.len() < 3000 { req.as_str() } else { "" },
                "tie": "correspondence printer.print (Printer model vs Printer::print through the verif hook)"}));
        }
        if report.samples.len() < 2 && input["kind"] == "random-ir" {
            report.sample(json!({"kind": "tie random IR", "sexpr": input["sexpr"], "cfg": input["cfg"], "printed_hex": m}));
        }
    }
}

/// predicate names for the known C05 findings (computed from the input only)
/// a `---|` union continuation and a `---@` tag written on one physical line (only mutation produces it)
fn alias_continuation_shares_line_with_tag(text: &str) -> bool {
    text.lines().any(|l| {
        let t = l.trim_start();
        (t.starts_with("---@") && t.contains("---|")) || (t.starts_with("---|") && t.contains("---@"))
    })
}

pub fn classify5(text: &str, cfg: &LuaFormatConfig) -> Option<&'static str> {
    if alias_continuation_shares_line_with_tag(text) {
        return Some("alias-continuation-and-tag-on-one-line");
    }
    use emmylua_parser::{LuaParseErrorKind, LuaParser, ParserConfig};
    let tree = LuaParser::parse(text, ParserConfig::with_level(level_of(cfg)));
    if !tree.has_syntax_errors() && tree.get_errors().iter().any(|e| e.kind == LuaParseErrorKind::DocError) {
        return Some("input-has-doc-annotation-syntax-error");
    }
    None
}

/// how two texts differ: only in whitespace runs that contain a line break in at least one of them
/// (re-breaking / re-indenting), or in anything else (spacing inside a line, characters)
fn differs_only_in_line_structure(a: &str, b: &str) -> bool {
    fn pieces(s: &str) -> Vec<(char, String)> {
        // every non-blank character with the whitespace that follows it
        let mut out: Vec<(char, String)> = vec![('\0', String::new())];
        for c in s.chars() {
            if c.is_whitespace() {
                out.last_mut().unwrap().1.push(c);
            } else {
                out.push((c, String::new()));
            }
        }
        out
    }
    // a trailing separator before `}` comes and goes with the line breaks (trailing_comma = Multiline/Always)
    fn without_trailing_commas(s: &str) -> String {
        let cs: Vec<char> = s.chars().collect();
        let mut out = String::with_capacity(s.len());
        for (i, c) in cs.iter().enumerate() {
            if *c == ',' && cs[i + 1..].iter().find(|x| !x.is_whitespace()) == Some(&'}') {
                continue;
            }
            out.push(*c);
        }
        out
    }
    let (pa, pb) = (pieces(&without_trailing_commas(a)), pieces(&without_trailing_commas(b)));
    if pa.len() != pb.len() {
        return false;
    }
    pa.iter().zip(pb.iter()).all(|(x, y)| x.0 == y.0 && (x.1 == y.1 || x.1.contains('\n') || y.1.contains('\n')))
}

/// Predicate names for the known C06 findings. They are functions of the input and the configuration only
/// (the formatter itself is used as part of the predicate). Every structural predicate is narrowed by the
/// symptom: it only applies when the two passes differ in line structure alone (line breaks / indentation);
/// a second pass that changes spacing inside a line or any character is never covered by a finding.
pub fn classify6(text: &str, cfg: &LuaFormatConfig) -> Option<&'static str> {
    class6(text, cfg, true)
}

/// `for_failure = false`: the class an input belongs to irrespective of whether it fails (used to measure, per
/// class, how many inputs are members and how many of them fail); the symptom restriction is not applied then.
pub fn class6(text: &str, cfg: &LuaFormatConfig, for_failure: bool) -> Option<&'static str> {
    use emmylua_parser::{LuaKind, LuaParser, LuaSyntaxKind, LuaTokenKind, ParserConfig};
    let tree = LuaParser::parse(text, ParserConfig::with_level(level_of(cfg)));
    if tree.has_syntax_errors() {
        return None;
    }
    let src = SourceText { text, level: level_of(cfg) };
    let first = reformat_lua_code(&src, cfg);
    let second = reformat_lua_code(&SourceText { text: &first, level: level_of(cfg) }, cfg);
    if first == second && for_failure {
        return None;
    }
    if tree.get_errors().iter().any(|e| e.kind == emmylua_parser::LuaParseErrorKind::DocError) {
        return Some("input-has-doc-annotation-syntax-error");
    }
    if alias_continuation_shares_line_with_tag(text) {
        return Some("alias-continuation-and-tag-on-one-line");
    }
    // narrow findings: one or two options interacting with one construct
    if cfg.comments.line_comment_min_column > 0
        && text.lines().any(|l| {
            let t = l.trim_start();
            !t.starts_with("--") && t.contains("--")
        })
    {
        return Some("comment-min-column+statement-with-trailing-comment");
    }
    if cfg.layout.max_blank_lines == 0 && text.contains("\n\n") && text.matches("---").count() >= 2 {
        // comment blocks separated by blank lines are merged by the first pass; the merged block is then
        // aligned as one group
        return Some("max-blank-lines-0+doc-comment-blocks-separated-by-blank-lines");
    }
    if cfg.align.continuous_assign_statement {
        // two consecutive statements of a block that are both assignments / local declarations
        let is_assign = |n: &emmylua_parser::LuaSyntaxNode| matches!(n.kind(), LuaKind::Syntax(LuaSyntaxKind::LocalStat | LuaSyntaxKind::AssignStat));
        let consecutive = tree.get_red_root().descendants().filter(|n| n.kind() == LuaKind::Syntax(LuaSyntaxKind::Block)).any(|b| {
            let stats: Vec<_> = b.children().filter(|c| c.kind() != LuaKind::Syntax(LuaSyntaxKind::Comment)).collect();
            stats.windows(2).any(|w| is_assign(&w[0]) && is_assign(&w[1]))
        });
        if consecutive {
            return Some("continuous-assign-alignment+consecutive-assignments");
        }
    }
    if cfg.output.single_arg_call_parens == emmylua_formatter::SingleArgCallParens::Always && cfg.spacing.space_before_call_paren {
        let parenless = tree.get_red_root().descendants().any(|n| {
            n.kind() == LuaKind::Syntax(LuaSyntaxKind::CallArgList)
                && n.first_token().is_some_and(|t| LuaTokenKind::from(t.kind()) != LuaTokenKind::TkLeftParen)
        });
        if parenless {
            return Some("call-parens-always+space-before-call-paren+call-without-parentheses");
        }
    }
    let root = tree.get_red_root();
    if cfg.comments.align_line_comments && cfg.comments.align_in_table_fields {
        // a table constructor with a comment behind one of its fields (comment column computed from flat widths)
        let table_with_trailing_comment = root.descendants().any(|n| {
            matches!(n.kind(), LuaKind::Syntax(LuaSyntaxKind::TableArrayExpr | LuaSyntaxKind::TableObjectExpr))
                && n.children().any(|c| {
                    c.kind() == LuaKind::Syntax(LuaSyntaxKind::Comment)
                        && c.prev_sibling_or_token().is_some_and(|p| {
                            // same line as the previous field: no end-of-line token in between
                            let mut cur = Some(p);
                            while let Some(e) = cur {
                                match e.kind() {
                                    LuaKind::Token(LuaTokenKind::TkWhitespace) => cur = e.prev_sibling_or_token(),
                                    LuaKind::Token(LuaTokenKind::TkEndOfLine) => return false,
                                    _ => return true,
                                }
                            }
                            false
                        })
                })
        });
        if table_with_trailing_comment {
            return Some("align-table-comments+table-field-with-trailing-comment");
        }
    }
    if for_failure && !differs_only_in_line_structure(&first, &second) {
        return None;
    }
    // structural classes, split by construct kind (each kind is a separate finding, so a kind that is not
    // known to fail suppresses nothing)
    let (mut long_string, mut quoted_string, mut long_comment, mut other_token) = (false, false, false, false);
    let (mut ml_table, mut ml_args, mut ml_params) = (false, false, false);
    for el in root.descendants_with_tokens() {
        match el {
            rowan::NodeOrToken::Token(t) => {
                let k: LuaTokenKind = t.kind().into();
                if !matches!(k, LuaTokenKind::TkEndOfLine | LuaTokenKind::TkWhitespace) && t.text().trim_end().contains('\n') {
                    let in_comment = t.parent_ancestors().any(|a| a.kind() == LuaKind::Syntax(LuaSyntaxKind::Comment));
                    match k {
                        LuaTokenKind::TkLongString => long_string = true,
                        LuaTokenKind::TkString => quoted_string = true,
                        _ if in_comment => long_comment = true,
                        _ => other_token = true,
                    }
                }
            }
            rowan::NodeOrToken::Node(n) => {
                if let LuaKind::Syntax(k) = n.kind() {
                    if n.text().contains_char('\n') {
                        match k {
                            LuaSyntaxKind::TableArrayExpr | LuaSyntaxKind::TableObjectExpr | LuaSyntaxKind::TableEmptyExpr => ml_table = true,
                            LuaSyntaxKind::CallArgList => ml_args = true,
                            LuaSyntaxKind::ParamList => ml_params = true,
                            _ => {}
                        }
                    }
                }
            }
        }
    }
    if long_string {
        return Some("relayout-only:input-has-multi-line-long-string");
    }
    if quoted_string {
        return Some("relayout-only:input-has-quoted-string-continued-over-lines");
    }
    if long_comment {
        return Some("relayout-only:input-has-multi-line-long-comment");
    }
    if other_token {
        return Some("relayout-only:input-has-other-multi-line-token");
    }
    if ml_table {
        return Some("relayout-only:input-has-multi-line-table");
    }
    if ml_args {
        return Some("relayout-only:input-has-multi-line-call-arguments");
    }
    // (a multi-line parameter list alone was never seen to fail: no finding, nothing suppressed)
    let _ = ml_params;
    // a lone carriage return is a line break for the lexer but not for the layout rules (`contains('\n')`)
    if text.replace("\r\n", "").contains('\r') {
        return Some("relayout-only:input-has-lone-carriage-return");
    }
    if cfg.layout.prefer_call_args_layout_from_source || cfg.layout.prefer_table_layout_from_source {
        // these options ask for the layout of the source, which the first pass changes
        return Some("relayout-only:prefer-layout-from-source-option");
    }
    {
        use emmylua_formatter::ExpandStrategy::Always;
        if cfg.layout.table_expand == Always || cfg.layout.call_args_expand == Always || cfg.layout.func_params_expand == Always {
            return Some("relayout-only:expand-strategy-always");
        }
    }
    let mut wide = cfg.clone();
    wide.layout.max_line_width = 1_000_000;
    // the width limit decides a layout in the first pass, or in the second one (widths are measured from the
    // source column of the construct, which the first pass changes)
    if first != reformat_lua_code(&src, &wide)
        || second != reformat_lua_code(&SourceText { text: &first, level: level_of(cfg) }, &wide)
    {
        return Some("relayout-only:line-width-limit-forces-line-breaks");
    }
    // (an over-long line left by the first pass alone was not seen to fail after fix d2ac096: no finding)
    // the same source-dependence as the one fixed for call arguments (d2ac096) remains in statement value lists:
    // `local a, b = { f = function() x() y() end }, 1` — the first of several values is a one-line table/function
    // that the printer has to break; `should_preserve_first_multiline_statement_value` reads the source layout
    let must_break = |c: &emmylua_parser::LuaSyntaxNode| -> bool {
        // a function that is not `function(...) return <one expr> end`
        c.kind() == LuaKind::Syntax(LuaSyntaxKind::ClosureExpr)
            && c.children().find(|b| b.kind() == LuaKind::Syntax(LuaSyntaxKind::Block)).map(|b| {
                let stats: Vec<_> = b.children().collect();
                !(stats.len() == 1
                    && stats[0].kind() == LuaKind::Syntax(LuaSyntaxKind::ReturnStat)
                    && stats[0].children().count() == 1)
            }).unwrap_or(true)
    };
    let first_value_breaks = root.descendants().any(|n| {
        matches!(n.kind(), LuaKind::Syntax(LuaSyntaxKind::TableArrayExpr | LuaSyntaxKind::TableObjectExpr | LuaSyntaxKind::ClosureExpr))
            && !n.text().contains_char('\n')
            && n.parent().is_some_and(|p| matches!(p.kind(), LuaKind::Syntax(LuaSyntaxKind::LocalStat | LuaSyntaxKind::AssignStat | LuaSyntaxKind::ReturnStat)))
            && n.descendants().any(|c| must_break(&c))
            && {
                // followed by a comma: there are further values
                let mut next = n.next_sibling_or_token();
                loop {
                    match next {
                        Some(e) if matches!(e.kind(), LuaKind::Token(LuaTokenKind::TkWhitespace | LuaTokenKind::TkEndOfLine)) => next = e.next_sibling_or_token(),
                        Some(e) => break e.kind() == LuaKind::Token(LuaTokenKind::TkComma),
                        None => break false,
                    }
                }
            }
    });
    if first_value_breaks {
        return Some("relayout-only:statement-value-list-starting-with-one-line-table-or-function-that-must-break");
    }
    // (a function body written on one line inside call arguments needed two passes before fix d2ac096; the class
    // has no failing member any more and is not a finding: 0 of 4082 members over three thorough seeds)
    None
}

/// the two properties' oracles on one (text, config); returns (C05 failure, C06 failure)
pub fn check_format(text: &str, cfg: &LuaFormatConfig, report: &mut Report) -> (Option<String>, Option<String>) {
    let (t2, c2) = (text.to_string(), cfg.clone());
    let out = match vh_common::catch(move || reformat_lua_code(&SourceText { text: &t2, level: level_of(&c2) }, &c2)) {
        Ok(o) => o,
        Err(m) => return (Some(format!("reformat_lua_code panicked: {m}")), None),
    };
    let Some(orig) = tokens::parse(text, level_of(cfg), cfg) else {
        report.count("oracle_erroneous_input");
        return (if out != text { Some("input with syntax errors was not returned unchanged".into()) } else { None }, None);
    };
    let mut f5 = None;
    match tokens::parse(&out, level_of(cfg), cfg) {
        None => f5 = Some("the formatted output has syntax errors".to_string()),
        Some(after) => {
            let (a, b) = (tokens::texts(&orig), tokens::texts(&after));
            if a != b {
                f5 = Some(format!("token sequence changed: {}", tokens::first_diff(&a, &b)));
            } else if orig.comment_shapes != after.comment_shapes {
                let i = orig.comment_shapes.iter().zip(after.comment_shapes.iter()).position(|(x, y)| x != y).unwrap_or(0);
                f5 = Some(format!("comment {i} parses to a different structure: {:?} vs {:?}",
                    orig.comment_shapes.get(i).map(|s| &s[..s.len().min(200)]), after.comment_shapes.get(i).map(|s| &s[..s.len().min(200)])));
            }
        }
    }
    if out != text { report.count("oracle_output_differs_from_input"); }
    // C06
    let (o2, c3) = (out.clone(), cfg.clone());
    let f6 = match vh_common::catch(move || reformat_lua_code(&SourceText { text: &o2, level: level_of(&c3) }, &c3)) {
        Err(m) => Some(format!("second pass panicked: {m}")),
        Ok(second) => {
            if second == out {
                None
            } else {
                let (a, b): (Vec<&str>, Vec<&str>) = (out.lines().collect(), second.lines().collect());
                let i = a.iter().zip(b.iter()).position(|(x, y)| x != y).unwrap_or(a.len().min(b.len()));
                Some(format!("fmt(fmt x) != fmt x at line {}: {:?} vs {:?}", i + 1, a.get(i), b.get(i)))
            }
        }
    };
    (f5, f6)
}

/// configuration with the syntax level an input was generated for
fn with_level(cfg: &LuaFormatConfig, level: Option<&str>) -> LuaFormatConfig {
    match level {
        None => cfg.clone(),
        Some(l) => {
            let mut j = serde_json::to_value(cfg).expect("config json");
            j["syntax"]["level"] = json!(l);
            serde_json::from_value(j).unwrap_or_else(|_| cfg.clone())
        }
    }
}

fn report_failure(report: &mut Report, want6: bool, source: &str, text: &str, cname: &str, cfg: &LuaFormatConfig, what: String) {
    let class = if want6 { classify6(text, cfg) } else { classify5(text, cfg) };
    // list at most a few failures per known class so that the report's cap can never hide an unclassified one
    let listed = class.map(|c| { let k = format!("failures_in_class_{c}"); report.count(&k); report.distribution[&k] }).unwrap_or(0);
    if listed <= 4 {
        report.oracle_failure(json!({"input": {"kind": "format", "source": source, "text": text, "config": cname,
            "cfg": serde_json::to_value(cfg).unwrap_or_default()}, "what": what, "class": class}));
    }
}

pub fn run(args: &Args, report: &mut Report) {
    let mut rng = Rng::new(args.seed);
    let want6 = args.prop == "C06";
    if let Some(p) = &args.replay {
        let v: serde_json::Value = serde_json::from_str(&std::fs::read_to_string(p).expect("replay file")).expect("json");
        let inp = &v["input"];
        report.evaluations = 1;
        if inp["kind"] == "random-ir" {
            let req = format!("printer.print {} {}", inp["cfg"].as_str().unwrap_or(""), inp["sexpr"].as_str().unwrap_or(""));
            let m = run_driver(&[req]);
            report.notes.push(format!("model prints {}", m[0]));
            return;
        }
        let text = inp["text"].as_str().unwrap_or("").to_string();
        let cname = inp["config"].as_str().unwrap_or("default").to_string();
        let cfg: LuaFormatConfig = if inp["cfg"].is_object() {
            serde_json::from_value(inp["cfg"].clone()).unwrap_or_default()
        } else {
            configs().iter().find(|c| c.0 == cname).map(|c| c.1.clone()).unwrap_or_default()
        };
        let (f5, f6) = check_format(&text, &cfg, report);
        if let Some(what) = if want6 { f6 } else { f5 } {
            report_failure(report, want6, "replay", &text, &cname, &cfg, what);
        }
        return;
    }
    // configurations: the hand-picked combinations, every single-option toggle of the whole option space, random combinations
    let space = config_space(report);
    let mut cfgs: Vec<(String, LuaFormatConfig)> = configs().into_iter().map(|(n, c)| (n.to_string(), c)).collect();
    let n_named = cfgs.len();
    cfgs.extend(space.singles.iter().cloned());
    let n_singles_end = cfgs.len();
    for _ in 0..(if args.thorough() { 60 } else { 12 }) {
        cfgs.push(random_config(&space, &mut rng));
    }
    // inputs: (name, text, syntax level the text needs)
    let mut inputs: Vec<(String, String, Option<&'static str>)> =
        corpus().into_iter().enumerate().map(|(i, t)| (format!("corpus-{i}"), t, None)).collect();
    for (i, t) in [
        "x = a - -b\ny = 1 .. x\nz = a .. .5\n", "f(\"a\", b)\ng({ 1 }, 2)\nh(\"only\")\n",
        "while x do\n  break -- b\nend\ngoto done -- g\n::done:: -- l\nreturn 1 -- r\n",
        "---@class (exact) A some desc\n---@class Bcd other\nlocal t = {}\n",
        "local s = 'C:\\\\dir\\\\\"'\nlocal t = \"it's\"\nlocal u = 'say \"x\"'\n", "x = 1 -- last",
        // token-fusion adjacency: a bracket key / index whose leftmost token is a long-bracket string, `- -`, number `..`
        "t[ [[a]] .. b ] = 1\nu = { [ [=[a]=] .. b ] = 1, [ [[k]] ] = 2 }\nv = t[ [[a]] == b ]\nw = t[ ([[a]]):len() ]\nx = t[ [[a]] .. [[b]] ]\ny = t[ #[[a]] ][ [==[ x ]] y ]==] ]\nz = f [[s]]\nq = t[ f [[s]] ]\n",
        "y = a - -b - - -c\nz = 1 .. x .. 2 .. .5 .. 1.5 .. ...\nlocal c <const> = 1\nlocal d <close>, e <const> = nil, [[s]]\ndo\n  goto l1\n  ::l1:: ::l2::\nend\n",
        // one-line closures whose body is a return with 0 / 2 / 3 values, a call, varargs — in every argument position and inside table arguments
        "foo(a, function() return x, y end)\nfoo(function() return end, b)\nfoo(a, function() return x, y, z end, function() return f() end)\nfoo(a, function(...) return ... end)\nbar({ k = function() return x, y end, 1 }, c)\nbaz(function() return x end)\nqux(a, { function() return end, function() return 1, 2 end }, function() return x end)\n",
        "x = --a\n 1\nz, w = 1, -- c\n 2 -- d\nlocal p = -- e\n 3 -- f\nreturn x, -- g\n y -- h\n",
        "---@alias A<T> T -?\n---@alias (partial) Bcd<K, V> table<K, V>\nlocal x\n---@alias Opt\n---|> \"collect\" # full\n---| \"stop\" # stops\n---@alias Other string\nlocal y\n",
        "local a = 1 -- one\nlocal bcd = 22 -- two\nfoo(a, function() x() y() end, function() z() w() end)\n",
    ].iter().enumerate() {
        inputs.push((format!("corpus-defects-{i}"), t.to_string(), None));
    }
    inputs.push(("corpus-ext-0".into(), "local a = 1\na += 2\nabc ..= \"x\"\nfor i = 1, 2 do\n  continue -- c\nend\n".into(), Some("LuaJITExt")));
    let n_gen = if args.thorough() { 6000 } else { 420 };
    for i in 0..n_gen {
        let mut g = Gen::new(&mut rng);
        g.docs = i % 3 != 0;
        g.comments = i % 5 != 0;
        let (text, level) = match i % 6 {
            0 | 1 => (g.tricky_program(6), None),
            2 if i % 12 == 2 => {
                g.ext = true;
                g.std53 = false;
                (g.tricky_program(6), Some("LuaJITExt"))
            }
            _ => (g.program(if i % 4 == 0 { 3 } else { 10 }), None),
        };
        inputs.push((format!("gen-{i}"), text, level));
    }
    let std = std_files(usize::MAX);
    report.extra.insert("std_files".into(), json!(std.len()));
    for (name, text) in &std {
        for (k, para) in paragraphs(text, if args.thorough() { 6000 } else { 3000 }).into_iter().enumerate() {
            inputs.push((format!("std/{name}#{k}"), para, None));
        }
        if args.thorough() || text.len() < 20_000 {
            inputs.push((format!("std/{name}"), text.clone(), None));
        }
    }
    report.extra.insert("inputs".into(), json!(inputs.len()));
    report.extra.insert("configurations".into(), json!(cfgs.len()));

    // which configurations an input is formatted with: default, some hand-picked, a rotating window over the
    // single-option toggles (so every toggle meets many inputs), random combinations
    let n_corpus = inputs.iter().take_while(|x| x.0.starts_with("corpus")).count();
    let per_input = |i: usize| -> Vec<usize> {
        if i < n_corpus {
            // the hand-written corpus (incl. the canonical inputs of all fixed defects) meets every configuration
            return (0..cfgs.len()).collect();
        }
        let n_single = n_singles_end - n_named;
        let n_random = cfgs.len() - n_singles_end;
        let mut v = vec![0usize];
        let k = if args.thorough() { 8 } else { 3 };
        for j in 0..k {
            v.push(n_named + (i * k + j) % n_single.max(1));
        }
        v.push(1 + i % (n_named - 1));
        if n_random > 0 && (args.thorough() || i % 3 == 0) {
            v.push(n_singles_end + i % n_random);
        }
        v
    };

    // tie: printer model vs real printer (a subset of the inputs in the quick tier)
    let tie_inputs: Vec<(String, String)> = inputs
        .iter()
        .step_by(if args.thorough() { 1 } else { 4 })
        .filter(|x| x.2.is_none())
        .map(|x| (x.0.clone(), x.1.clone()))
        .collect();
    tie(args, report, &mut rng, &tie_inputs);

    // oracle
    let mut seen = HashSet::new();
    let mut used_cfg = HashSet::new();
    for (i, (name, text, level)) in inputs.iter().enumerate() {
        for ci in per_input(i) {
            let (cname, base) = &cfgs[ci];
            let cfg = with_level(base, *level);
            used_cfg.insert(ci);
            report.evaluations += 1;
            let (f5, f6) = check_format(text, &cfg, report);
            if text.lines().count() >= 2 && seen.insert((i, ci)) {
                report.distinct_nontrivial += 1;
            }
            // class membership is measured on every input in the thorough tier and on a quarter of them otherwise
            if want6 && (args.thorough() || i % 4 == 0) {
                match class6(text, &cfg, false) {
                    Some(c) => report.count(&format!("members_of_class_{c}")),
                    None => report.count("members_of_no_class"),
                }
            }
            if let Some(what) = if want6 { f6 } else { f5 } {
                report_failure(report, want6, name, text, cname, &cfg, what);
            }
        }
        if i == 12 {
            report.sample(json!({"kind": "oracle input", "source": name, "text": text}));
        }
    }
    report.extra.insert("configurations_used".into(), json!(used_cfg.len()));
    for text in erroneous() {
        report.evaluations += 1;
        let (f5, _) = check_format(&text, &cfgs[0].1, report);
        if let (Some(what), false) = (f5, want6) {
            report_failure(report, want6, "erroneous", &text, "default", &cfgs[0].1, what);
        }
    }
    // erroneous inputs derived from valid ones: delete one byte
    for (i, (_, text, level)) in inputs.iter().enumerate().take(if args.thorough() { 3000 } else { 200 }) {
        if text.is_empty() || !text.is_ascii() { continue; }
        let k = rng.below(text.len());
        let mut t = text.clone();
        t.remove(k);
        report.evaluations += 1;
        let (cname, base) = &cfgs[i % cfgs.len()];
        let cfg = with_level(base, *level);
        let (f5, f6) = check_format(&t, &cfg, report);
        if let Some(what) = if want6 { f6 } else { f5 } {
            report_failure(report, want6, "mutated", &t, cname, &cfg, what);
        }
    }
    report.rule = "tie: IRs dumped from formatting the inputs (hook format_to_ir) and seeded random IRs over all node kinds x configurations (incl. narrow widths, comment columns), model printer vs real printer byte for byte; non-trivial = IR containing a group, fill or align group, distinct by request. oracle: hand-written corpus + grammar-generated valid Lua (messy layout, comments, doc tags with attributes, operator/number adjacency, multi-argument calls with string/table/closure arguments, compound assignments and continue under the LuaJIT extension level, comments behind break/goto/label/return, escapes before quotes, trailing comment on the last line with and without final newline) + the std library annotation files (whole and by paragraphs) + inputs with syntax errors (hand-written and one-byte deletions) x configurations: hand-picked combinations, EVERY single-option toggle of the option space (options enumerated from config/mod.rs and the serialised default config), and random combinations; non-trivial = input with >= 2 lines, distinct by (input, config)".into();
}
