//! C05 / C06: (tie) the Lean `Printer` model vs the real printer on real IRs (dumped through the H5 hook
//! from formatting the corpus) and on random IRs, byte for byte; (oracle, decides the unmodelled rule
//! set) `reformat_lua_code` on generated valid Lua, the std library annotation files and erroneous
//! inputs × configurations.
use crate::gen_lua::Gen;
use crate::range::{classify, configs, corpus, erroneous};
use crate::tokens;
use emmylua_formatter::ir::{self, AlignEntry, DocIR};
use emmylua_formatter::{LuaFormatConfig, SourceText, reformat_lua_code, verif};
use emmylua_parser::LuaLanguageLevel;
use serde_json::json;
use std::collections::HashSet;
use vh_common::{Args, Report, Rng, hex, run_driver};

const LEVEL: LuaLanguageLevel = LuaLanguageLevel::Lua55;

pub fn cfg_str(cfg: &LuaFormatConfig) -> String {
    format!(
        "{}:{}:{}:{}:{}:{}",
        cfg.layout.max_line_width,
        cfg.indent_width(),
        if cfg.indent_str() == "\t" { "t" } else { "s" },
        if cfg.newline_str() == "\r\n" { "crlf" } else { "lf" },
        cfg.comments.line_comment_min_spaces_before,
        cfg.comments.line_comment_min_column
    )
}

// ---------------------------------------------------------------- random IRs

const ATOMS: &[&str] = &["a", "bc", "local", "x = 1", "-- c", "é", "", "a\nb", "  ", "end", "{", "}", ",", "long_identifier_name"];

fn rand_docs(rng: &mut Rng, depth: usize, max: usize) -> Vec<DocIR> {
    let n = rng.below(max + 1);
    (0..n).map(|_| rand_doc(rng, depth)).collect()
}

fn rand_doc(rng: &mut Rng, depth: usize) -> DocIR {
    let k = if depth >= 4 { rng.below(6) } else { rng.below(16) };
    match k {
        0 | 1 => ir::text(*rng.pick(ATOMS)),
        2 => ir::space(),
        3 => ir::soft_line(),
        4 => ir::soft_line_or_empty(),
        5 => ir::hard_line(),
        6 => ir::indent(rand_docs(rng, depth + 1, 4)),
        7 => ir::list(rand_docs(rng, depth + 1, 4)),
        8 => {
            let c = rand_docs(rng, depth + 1, 5);
            match rng.below(3) {
                0 => ir::group(c),
                1 => ir::group_break(c),
                _ => ir::group_with_id(c, verif::group_id(rng.below(3) as u32)),
            }
        }
        9 => {
            let (b, f) = (rand_doc(rng, depth + 1), rand_doc(rng, depth + 1));
            if rng.chance(1, 2) { ir::if_break(b, f) } else { ir::if_break_with_group(b, f, verif::group_id(rng.below(3) as u32)) }
        }
        10 => ir::fill(rand_docs(rng, depth + 1, 6)),
        11 => ir::line_suffix(rand_docs(rng, depth + 1, 3)),
        12 | 13 => {
            let n = rng.below(4);
            let entries = (0..n)
                .map(|_| {
                    let trailing = if rng.chance(1, 3) { Some(rand_docs(rng, depth + 2, 2)) } else { None };
                    if rng.chance(2, 3) {
                        AlignEntry::Aligned { before: rand_docs(rng, depth + 2, 2), after: rand_docs(rng, depth + 2, 3), trailing }
                    } else {
                        AlignEntry::Line { content: rand_docs(rng, depth + 2, 3), trailing }
                    }
                })
                .collect();
            ir::align_group(entries)
        }
        _ => ir::text(*rng.pick(ATOMS)),
    }
}

fn count_kinds(docs: &[DocIR], report: &mut Report) {
    for d in docs {
        match d {
            DocIR::Group { contents, .. } => { report.count("ir_group"); count_kinds(contents, report) }
            DocIR::Indent(c) | DocIR::List(c) => count_kinds(c, report),
            DocIR::Fill { parts } => { report.count("ir_fill"); count_kinds(parts, report) }
            DocIR::LineSuffix(c) => { report.count("ir_line_suffix"); count_kinds(c, report) }
            DocIR::IfBreak { break_contents, flat_contents, .. } => {
                report.count("ir_if_break");
                count_kinds(std::slice::from_ref(break_contents.as_ref()), report);
                count_kinds(std::slice::from_ref(flat_contents.as_ref()), report);
            }
            DocIR::AlignGroup(g) => {
                report.count("ir_align_group");
                for e in &g.entries {
                    match e {
                        AlignEntry::Aligned { before, after, trailing } => {
                            count_kinds(before, report);
                            count_kinds(after, report);
                            if let Some(t) = trailing { count_kinds(t, report) }
                        }
                        AlignEntry::Line { content, trailing } => {
                            count_kinds(content, report);
                            if let Some(t) = trailing { count_kinds(t, report) }
                        }
                    }
                }
            }
            _ => {}
        }
    }
}

fn std_files(limit_bytes: usize) -> Vec<(String, String)> {
    let dir = "/repo/crates/emmylua_code_analysis/resources/std";
    let mut v = Vec::new();
    let mut stack = vec![std::path::PathBuf::from(dir)];
    while let Some(d) = stack.pop() {
        let Ok(rd) = std::fs::read_dir(&d) else { continue };
        let mut entries: Vec<_> = rd.flatten().map(|e| e.path()).collect();
        entries.sort();
        for p in entries {
            if p.is_dir() {
                stack.push(p);
            } else if p.extension().map(|e| e == "lua").unwrap_or(false) {
                if let Ok(t) = std::fs::read_to_string(&p) {
                    if t.len() <= limit_bytes {
                        v.push((p.strip_prefix(dir).unwrap().to_string_lossy().to_string(), t));
                    }
                }
            }
        }
    }
    v.sort();
    v
}

/// split a std file into chunks of whole top-level "paragraphs" so that failures are small and several
/// configurations stay affordable
fn paragraphs(text: &str, max: usize) -> Vec<String> {
    let mut out = Vec::new();
    let mut cur = String::new();
    for block in text.split("\n\n") {
        if !cur.is_empty() && cur.len() + block.len() > max {
            out.push(std::mem::take(&mut cur));
        }
        if !cur.is_empty() {
            cur.push_str("\n\n");
        }
        cur.push_str(block);
    }
    if !cur.is_empty() {
        out.push(cur);
    }
    out
}

fn tie(args: &Args, report: &mut Report, rng: &mut Rng, inputs: &[(String, String)]) {
    let cfgs = configs();
    let mut reqs: Vec<String> = Vec::new();
    let mut expect: Vec<(String, serde_json::Value)> = Vec::new();
    // real IRs
    let per_input_cfgs = if args.thorough() { cfgs.len() } else { 2 };
    for (i, (name, text)) in inputs.iter().enumerate() {
        for k in 0..per_input_cfgs {
            let (cname, cfg) = &cfgs[if k == 0 { 0 } else { 1 + (i + k) % (cfgs.len() - 1) }];
            let src = SourceText { text, level: LEVEL };
            let Some(docs) = verif::format_to_ir(&src, cfg) else { continue };
            count_kinds(&docs, report);
            report.count("tie_real_ir");
            let sexpr = verif::ir_to_sexpr(&docs);
            let printed = verif::print_ir(&docs, cfg);
            reqs.push(format!("printer.print {} {}", cfg_str(cfg), sexpr));
            expect.push((format!("ok {}", hex(&printed)), json!({"kind": "real-ir", "source": name, "text": if text.len() < 4000 { text.as_str() } else { "" }, "config": cname})));
        }
    }
    // random IRs
    let n_rand = if args.thorough() { 100_000 } else { 2_500 };
    for i in 0..n_rand {
        let docs = rand_docs(rng, 0, 6);
        let (cname, cfg) = &cfgs[i % cfgs.len()];
        let mut cfg = cfg.clone();
        if i % 3 == 0 {
            cfg.layout.max_line_width = 4 + rng.below(30);
        }
        if i % 7 == 0 {
            cfg.comments.line_comment_min_column = rng.below(12);
            cfg.comments.line_comment_min_spaces_before = rng.below(4);
        }
        count_kinds(&docs, report);
        report.count("tie_random_ir");
        let sexpr = verif::ir_to_sexpr(&docs);
        let d2 = docs.clone();
        let c2 = cfg.clone();
        let printed = match std::panic::catch_unwind(std::panic::AssertUnwindSafe(|| verif::print_ir(&d2, &c2))) {
            Ok(p) => format!("ok {}", hex(&p)),
            Err(_) => "err panic".to_string(),
        };
        reqs.push(format!("printer.print {} {}", cfg_str(&cfg), sexpr));
        expect.push((printed, json!({"kind": "random-ir", "sexpr": sexpr, "config": cname, "cfg": cfg_str(&cfg)})));
    }
    let model = run_driver(&reqs);
    let mut seen = HashSet::new();
    for (((want, input), m), req) in expect.iter().zip(model.iter()).zip(reqs.iter()) {
        report.evaluations += 1;
        if req.contains("(g ") || req.contains("(a ") || req.contains("(f ") {
            if seen.insert(req.clone()) {
                report.distinct_nontrivial += 1;
            }
        }
        if want == m {
            report.traces_validated += 1;
        } else {
            let (a, b) = (want.as_bytes(), m.as_bytes());
            let at = a.iter().zip(b.iter()).position(|(x, y)| x != y).unwrap_or(a.len().min(b.len()));
            report.mismatch(json!({"input": input, "model": &m[..m.len().min(300)], "impl": &want[..want.len().min(300)],
                "first_difference_at_hex_offset": at, "request": if req.len() < 3000 { req.as_str() } else { "" },
                "tie": "correspondence printer.print (Printer model vs Printer::print through the verif hook)"}));
        }
        if report.samples.len() < 2 && input["kind"] == "random-ir" {
            report.sample(json!({"kind": "tie random IR", "sexpr": input["sexpr"], "cfg": input["cfg"], "printed_hex": m}));
        }
    }
}

/// predicate names for the known C05 findings (computed from the input only)
pub fn classify5(text: &str) -> Option<&'static str> {
    use emmylua_parser::{LuaParseErrorKind, LuaParser, ParserConfig};
    let tree = LuaParser::parse(text, ParserConfig::with_level(LEVEL));
    if !tree.has_syntax_errors() && tree.get_errors().iter().any(|e| e.kind == LuaParseErrorKind::DocError) {
        return Some("input-has-doc-annotation-syntax-error");
    }
    classify(text)
}

/// predicate names (computed from the input and the configuration only) for the known C06 findings
pub fn classify6(text: &str, cfg: &LuaFormatConfig) -> Option<&'static str> {
    use emmylua_parser::{LuaKind, LuaParser, LuaSyntaxKind, LuaTokenKind, ParserConfig};
    let tree = LuaParser::parse(text, ParserConfig::with_level(LEVEL));
    if tree.has_syntax_errors() {
        return None;
    }
    let root = tree.get_red_root();
    let mut multiline_token = false;
    let mut multiline_seq = false;
    for el in root.descendants_with_tokens() {
        match el {
            rowan::NodeOrToken::Token(t) => {
                let k: LuaTokenKind = t.kind().into();
                if !matches!(k, LuaTokenKind::TkEndOfLine | LuaTokenKind::TkWhitespace) && t.text().contains('\n') && t.text().trim_end().contains('\n') {
                    multiline_token = true;
                }
            }
            rowan::NodeOrToken::Node(n) => {
                if let LuaKind::Syntax(k) = n.kind() {
                    if matches!(k, LuaSyntaxKind::TableArrayExpr | LuaSyntaxKind::TableObjectExpr | LuaSyntaxKind::TableEmptyExpr | LuaSyntaxKind::CallArgList | LuaSyntaxKind::ParamList)
                        && n.text().contains_char('\n')
                    {
                        multiline_seq = true;
                    }
                }
            }
        }
    }
    if multiline_token {
        return Some("input-has-multi-line-token");
    }
    if multiline_seq {
        return Some("input-has-multi-line-table-call-or-parameter-list");
    }
    let mut wide = cfg.clone();
    wide.layout.max_line_width = 1_000_000;
    let src = SourceText { text, level: LEVEL };
    let first = reformat_lua_code(&src, cfg);
    if first != reformat_lua_code(&src, &wide) {
        return Some("line-width-limit-forces-line-breaks");
    }
    // the first pass leaves a line longer than the limit (it is re-broken by the next pass)
    if first.lines().any(|l| l.len() > cfg.layout.max_line_width) {
        return Some("formatted-output-exceeds-line-width");
    }
    None
}

/// the two properties' oracles on one (text, config); returns (C05 failure, C06 failure)
pub fn check_format(text: &str, cfg: &LuaFormatConfig, report: &mut Report) -> (Option<String>, Option<String>) {
    let (t2, c2) = (text.to_string(), cfg.clone());
    let out = match vh_common::catch(move || reformat_lua_code(&SourceText { text: &t2, level: LEVEL }, &c2)) {
        Ok(o) => o,
        Err(m) => return (Some(format!("reformat_lua_code panicked: {m}")), None),
    };
    let Some(orig) = tokens::parse(text, LEVEL, cfg) else {
        report.count("oracle_erroneous_input");
        return (if out != text { Some("input with syntax errors was not returned unchanged".into()) } else { None }, None);
    };
    let mut f5 = None;
    match tokens::parse(&out, LEVEL, cfg) {
        None => f5 = Some("the formatted output has syntax errors".to_string()),
        Some(after) => {
            let (a, b) = (tokens::texts(&orig), tokens::texts(&after));
            if a != b {
                f5 = Some(format!("token sequence changed: {}", tokens::first_diff(&a, &b)));
            } else if orig.comment_shapes != after.comment_shapes {
                let i = orig.comment_shapes.iter().zip(after.comment_shapes.iter()).position(|(x, y)| x != y).unwrap_or(0);
                f5 = Some(format!("comment {i} parses to a different structure: {:?} vs {:?}",
                    orig.comment_shapes.get(i).map(|s| &s[..s.len().min(200)]), after.comment_shapes.get(i).map(|s| &s[..s.len().min(200)])));
            }
        }
    }
    if out != text { report.count("oracle_output_differs_from_input"); }
    // C06
    let (o2, c3) = (out.clone(), cfg.clone());
    let f6 = match vh_common::catch(move || reformat_lua_code(&SourceText { text: &o2, level: LEVEL }, &c3)) {
        Err(m) => Some(format!("second pass panicked: {m}")),
        Ok(second) => {
            if second == out {
                None
            } else {
                let (a, b): (Vec<&str>, Vec<&str>) = (out.lines().collect(), second.lines().collect());
                let i = a.iter().zip(b.iter()).position(|(x, y)| x != y).unwrap_or(a.len().min(b.len()));
                Some(format!("fmt(fmt x) != fmt x at line {}: {:?} vs {:?}", i + 1, a.get(i), b.get(i)))
            }
        }
    };
    (f5, f6)
}

pub fn run(args: &Args, report: &mut Report) {
    let mut rng = Rng::new(args.seed);
    let cfgs = configs();
    let want6 = args.prop == "C06";
    if let Some(p) = &args.replay {
        let v: serde_json::Value = serde_json::from_str(&std::fs::read_to_string(p).expect("replay file")).expect("json");
        let inp = &v["input"];
        report.evaluations = 1;
        if inp["kind"] == "random-ir" {
            let req = format!("printer.print {} {}", inp["cfg"].as_str().unwrap_or(""), inp["sexpr"].as_str().unwrap_or(""));
            let m = run_driver(&[req]);
            report.notes.push(format!("model prints {}", m[0]));
            return;
        }
        let text = inp["text"].as_str().unwrap_or("").to_string();
        let cname = inp["config"].as_str().unwrap_or("default");
        let cfg = cfgs.iter().find(|c| c.0 == cname).map(|c| c.1.clone()).unwrap_or_default();
        let (f5, f6) = check_format(&text, &cfg, report);
        if let Some(what) = if want6 { f6 } else { f5 } {
            report.oracle_failure(json!({"input": inp, "what": what, "class": if want6 { classify6(&text, &cfg) } else { classify5(&text) }}));
        }
        return;
    }
    // inputs
    let mut inputs: Vec<(String, String)> = corpus().into_iter().enumerate().map(|(i, t)| (format!("corpus-{i}"), t)).collect();
    let n_gen = if args.thorough() { 6000 } else { 350 };
    for i in 0..n_gen {
        let mut g = Gen::new(&mut rng);
        g.docs = i % 3 != 0;
        g.comments = i % 5 != 0;
        inputs.push((format!("gen-{i}"), g.program(if i % 4 == 0 { 3 } else { 10 })));
    }
    let std = std_files(usize::MAX);
    report.extra.insert("std_files".into(), json!(std.len()));
    for (name, text) in &std {
        for (k, para) in paragraphs(text, if args.thorough() { 6000 } else { 3000 }).into_iter().enumerate() {
            inputs.push((format!("std/{name}#{k}"), para));
        }
        if args.thorough() || text.len() < 20_000 {
            inputs.push((format!("std/{name}"), text.clone()));
        }
    }
    report.extra.insert("inputs".into(), json!(inputs.len()));

    // tie: printer model vs real printer (a subset of the inputs in the quick tier)
    let tie_inputs: Vec<(String, String)> = if args.thorough() { inputs.clone() } else { inputs.iter().step_by(4).cloned().collect() };
    tie(args, report, &mut rng, &tie_inputs);

    // oracle
    let mut seen = HashSet::new();
    for (i, (name, text)) in inputs.iter().enumerate() {
        let cfg_ix: Vec<usize> = if args.thorough() { (0..cfgs.len()).collect() } else { vec![0, 1 + i % (cfgs.len() - 1)] };
        for ci in cfg_ix {
            let (cname, cfg) = &cfgs[ci];
            report.evaluations += 1;
            let (f5, f6) = check_format(text, cfg, report);
            if text.lines().count() >= 2 && seen.insert((i, ci)) {
                report.distinct_nontrivial += 1;
            }
            if want6 {
                if let Some(c) = classify6(text, cfg) { report.count(&format!("class_{c}")); } else { report.count("class_none"); }
            }
            if let Some(what) = if want6 { f6 } else { f5 } {
                let class = if want6 { classify6(text, cfg) } else { classify5(text) };
                // list at most a few failures per known class so that the report's cap can never hide an unclassified one
                let listed = class.map(|c| { let k = format!("failures_in_class_{c}"); report.count(&k); report.distribution[&k] }).unwrap_or(0);
                if listed <= 4 {
                    report.oracle_failure(json!({"input": {"kind": "format", "source": name, "text": text, "config": cname}, "what": what, "class": class}));
                }
            }
        }
        if i == 12 {
            report.sample(json!({"kind": "oracle input", "source": name, "text": text}));
        }
    }
    for text in erroneous() {
        report.evaluations += 1;
        let (f5, _) = check_format(&text, &cfgs[0].1, report);
        if let (Some(what), false) = (f5, want6) {
            report.oracle_failure(json!({"input": {"kind": "format", "source": "erroneous", "text": text, "config": "default"}, "what": what, "class": null}));
        }
    }
    // erroneous inputs derived from valid ones: delete one byte
    for (i, (_, text)) in inputs.iter().enumerate().take(if args.thorough() { 3000 } else { 200 }) {
        if text.is_empty() || !text.is_ascii() { continue; }
        let k = rng.below(text.len());
        let mut t = text.clone();
        t.remove(k);
        report.evaluations += 1;
        let (f5, f6) = check_format(&t, &cfgs[i % cfgs.len()].1, report);
        if let Some(what) = if want6 { f6 } else { f5 } {
            let class = if want6 { classify6(&t, &cfgs[i % cfgs.len()].1) } else { classify5(&t) };
            let listed = class.map(|c| { let k = format!("failures_in_class_{c}"); report.count(&k); report.distribution[&k] }).unwrap_or(0);
            if listed <= 4 {
                report.oracle_failure(json!({"input": {"kind": "format", "source": "mutated", "text": t, "config": cfgs[i % cfgs.len()].0}, "what": what, "class": class}));
            }
        }
    }
    report.rule = "tie: IRs dumped from formatting the inputs (hook format_to_ir) and seeded random IRs over all node kinds x configurations (incl. narrow widths, comment columns), model printer vs real printer byte for byte; non-trivial = IR containing a group, fill or align group, distinct by request. oracle: hand-written corpus + grammar-generated valid Lua (messy layout, comments, doc tags) + the std library annotation files (whole and by paragraphs) + inputs with syntax errors (hand-written and one-byte deletions) x formatter configurations; non-trivial = input with >= 2 lines, distinct by (input, config)".into();
}
