//! Normalised token sequences: "the same tokens ignoring whitespace, modulo the normalisations the
//! configuration enables", computed from the parser's tree (independent of the formatter).
use emmylua_formatter::{LuaFormatConfig, QuoteStyle, SingleArgCallParens};
use emmylua_parser::{LuaKind, LuaLanguageLevel, LuaParser, LuaSyntaxKind, LuaSyntaxNode, LuaTokenKind, ParserConfig};
use rowan::{NodeOrToken, WalkEvent};

#[derive(Debug, Clone, PartialEq, Eq)]
pub struct Tok {
    pub text: String,
    pub start: u32,
    pub end: u32,
    pub comment: bool,
}

pub struct Parsed {
    pub toks: Vec<Tok>,
    /// token texts with adjacent comments merged
    pub merged: Vec<String>,
    /// per comment: preorder node kinds of the comment's subtree (doc tags, doc types …)
    pub comment_shapes: Vec<String>,
}

fn squeeze(s: &str) -> String {
    s.chars().filter(|c| !matches!(c, ' ' | '\t' | '\r' | '\n')).collect()
}

fn is_table(k: LuaSyntaxKind) -> bool {
    matches!(k, LuaSyntaxKind::TableArrayExpr | LuaSyntaxKind::TableObjectExpr | LuaSyntaxKind::TableEmptyExpr)
}

/// value-preserving canonical form of a short string under a quote-style rewrite: escape sequences are kept
/// as written except that an escaped quote character counts as the bare quote character
fn string_value(text: &str) -> Option<String> {
    let b = text.as_bytes();
    if b.len() >= 2 && (b[0] == b'"' || b[0] == b'\'') && b[b.len() - 1] == b[0] {
        let inner: Vec<char> = text[1..text.len() - 1].chars().collect();
        let mut out = String::from("S:");
        let mut i = 0;
        while i < inner.len() {
            if inner[i] == '\\' && i + 1 < inner.len() {
                if inner[i + 1] == '"' || inner[i + 1] == '\'' {
                    out.push(inner[i + 1]);
                } else {
                    out.push(inner[i]);
                    out.push(inner[i + 1]);
                }
                i += 2;
            } else {
                out.push(inner[i]);
                i += 1;
            }
        }
        Some(out)
    } else {
        None
    }
}

fn shape(node: &LuaSyntaxNode) -> String {
    let mut out = Vec::new();
    for n in node.descendants() {
        if let LuaKind::Syntax(k) = n.kind() {
            out.push(format!("{k:?}"));
        }
    }
    out.join(",")
}

/// `None` when the text has syntax errors.
pub fn parse(text: &str, level: LuaLanguageLevel, cfg: &LuaFormatConfig) -> Option<Parsed> {
    let tree = LuaParser::parse(text, ParserConfig::with_level(level));
    if tree.has_syntax_errors() {
        return None;
    }
    let root = tree.get_red_root();
    let mut toks: Vec<Tok> = Vec::new();
    let mut shapes = Vec::new();
    let norm_quotes = cfg.output.quote_style != QuoteStyle::Preserve;
    let norm_parens = cfg.output.single_arg_call_parens != SingleArgCallParens::Preserve;
    let mut walk = root.preorder_with_tokens();
    while let Some(ev) = walk.next() {
        let WalkEvent::Enter(el) = ev else { continue };
        match el {
            NodeOrToken::Node(n) => {
                if n.kind() == LuaSyntaxKind::Comment.into() {
                    let r = n.text_range();
                    let t = squeeze(&n.text().to_string());
                    toks.push(Tok { text: format!("C:{t}"), start: r.start().into(), end: r.end().into(), comment: true });
                    shapes.push(shape(&n));
                    walk.skip_subtree();
                }
            }
            NodeOrToken::Token(t) => {
                let kind: LuaTokenKind = t.kind().into();
                if matches!(kind, LuaTokenKind::TkWhitespace | LuaTokenKind::TkEndOfLine) {
                    continue;
                }
                let parent_kind: LuaSyntaxKind = t.parent().map(|p| p.kind().into()).unwrap_or(LuaSyntaxKind::None);
                let r = t.text_range();
                let mut text = t.text().to_string();
                match kind {
                    LuaTokenKind::TkSemicolon if !is_table(parent_kind) => continue, // statement separator
                    LuaTokenKind::TkSemicolon => text = ",".into(),
                    LuaTokenKind::TkString if norm_quotes => {
                        if let Some(v) = string_value(&text) {
                            text = v;
                        }
                    }
                    LuaTokenKind::TkLeftParen | LuaTokenKind::TkRightParen if norm_parens && parent_kind == LuaSyntaxKind::CallArgList => {
                        let p = t.parent().unwrap();
                        let args: Vec<LuaSyntaxNode> = p.children().collect();
                        if args.len() == 1 {
                            let k: LuaSyntaxKind = args[0].kind().into();
                            let single_string = k == LuaSyntaxKind::LiteralExpr
                                && args[0].first_token().map(|x| matches!(LuaTokenKind::from(x.kind()), LuaTokenKind::TkString | LuaTokenKind::TkLongString)).unwrap_or(false);
                            if single_string || is_table(k) {
                                continue;
                            }
                        }
                    }
                    _ => {}
                }
                toks.push(Tok { text, start: r.start().into(), end: r.end().into(), comment: false });
            }
        }
    }
    // trailing table separators: drop a `,` that directly precedes `}`
    let mut out: Vec<Tok> = Vec::with_capacity(toks.len());
    for (i, t) in toks.iter().enumerate() {
        if t.text == "," {
            // next non-comment token
            let next = toks[i + 1..].iter().find(|n| !n.comment);
            if next.map(|n| n.text == "}").unwrap_or(false) {
                continue;
            }
        }
        out.push(t.clone());
    }
    // doc structure: one flat sequence of node kinds over all comments (without the comment roots and without
    // description nodes: merging two comment blocks, e.g. with max_blank_lines = 0, merges descriptions; their
    // text is compared by the token sequence)
    let flat: Vec<String> = shapes
        .iter()
        .flat_map(|s| s.split(',').filter(|k| *k != "Comment" && *k != "DocDescription" && !k.is_empty()).map(|k| k.to_string()).collect::<Vec<_>>())
        .collect();
    let mut merged: Vec<String> = Vec::with_capacity(out.len());
    let mut last_comment = false;
    for t in &out {
        if t.comment && last_comment {
            merged.last_mut().unwrap().push_str(&t.text[2..]);
        } else {
            merged.push(t.text.clone());
        }
        last_comment = t.comment;
    }
    Some(Parsed { toks: out, merged, comment_shapes: vec![flat.join(",")] })
}

/// the token texts; adjacent comments count as one: whether a trailing comment and the comment on the next
/// line form one comment node or two depends on layout only (text and order of all comment bytes are compared)
pub fn texts(p: &Parsed) -> Vec<&str> {
    p.merged.iter().map(|t| t.as_str()).collect()
}

/// first difference between two token sequences, for messages
pub fn first_diff(a: &[&str], b: &[&str]) -> String {
    let n = a.len().min(b.len());
    for i in 0..n {
        if a[i] != b[i] {
            let ctx_a: Vec<&str> = a[i.saturating_sub(2)..(i + 3).min(a.len())].to_vec();
            let ctx_b: Vec<&str> = b[i.saturating_sub(2)..(i + 3).min(b.len())].to_vec();
            return format!("token {i}: {:?} vs {:?} (context {:?} vs {:?})", a[i], b[i], ctx_a, ctx_b);
        }
    }
    if a.len() != b.len() {
        let (longer, which) = if a.len() > b.len() { (a, "input") } else { (b, "output") };
        return format!("{} has {} extra token(s), first {:?}", which, a.len().abs_diff(b.len()), longer[n]);
    }
    "equal".into()
}
