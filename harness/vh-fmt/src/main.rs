//! Harness binary of the formatter cluster: C07 (range formatting), C05/C06 (formatter).
mod gen_lua;
mod range;
mod tokens;

use vh_common::{Args, Report};

fn main() {
    let args = Args::parse();
    vh_common::silence_panics();
    let mut report = Report::default();
    match args.prop.as_str() {
        "C07" => range::run(&args, &mut report),
        other => {
            eprintln!("vh-fmt: unknown property {other}");
            std::process::exit(2);
        }
    }
    report.write(&args.out);
}
