//! Harness binary of the formatter cluster: C07 (range formatting), C05/C06 (formatter).
mod fmt;
mod gen_lua;
mod range;
mod tokens;

use vh_common::{Args, Report};

fn main() {
    let args = Args::parse();
    vh_common::silence_panics();
    let mut report = Report::default();
    match args.prop.as_str() {
        "C07" => range::run(&args, &mut report),
        "C05" | "C06" => fmt::run(&args, &mut report),
        "dbg-fmt" => {
            // developer aid: print pass 1 and pass 2 for a file (--replay FILE --config NAME)
            let text = std::fs::read_to_string(args.replay.as_ref().expect("--replay FILE")).expect("file");
            let cname = args.extra.get("config").cloned().unwrap_or("default".into());
            let mut cfg = range::configs().into_iter().find(|c| c.0 == cname).map(|c| c.1).unwrap_or_default();
            if let Some(j) = args.extra.get("cfgjson") {
                // partial JSON over the default configuration, e.g. {"spacing":{"space_around_math_operator":false}}
                let mut base = serde_json::to_value(&cfg).unwrap();
                let patch: serde_json::Value = serde_json::from_str(j).expect("cfgjson");
                fmt::merge_json(&mut base, &patch);
                cfg = serde_json::from_value(base).expect("config");
            }
            let lvl: emmylua_parser::LuaLanguageLevel = cfg.syntax.level.into();
            let a = emmylua_formatter::reformat_lua_code(&emmylua_formatter::SourceText { text: &text, level: lvl }, &cfg);
            let b = emmylua_formatter::reformat_lua_code(&emmylua_formatter::SourceText { text: &a, level: lvl }, &cfg);
            println!("=== pass 1\n{a}=== pass 2\n{b}=== {}", if a == b { "idempotent" } else { "DIFFERENT" });
            return;
        }
        "dbg-ir" => {
            let text = std::fs::read_to_string(args.replay.as_ref().expect("--replay FILE")).expect("file");
            let cfg = emmylua_formatter::LuaFormatConfig::default();
            let src = emmylua_formatter::SourceText { text: &text, level: emmylua_parser::LuaLanguageLevel::Lua55 };
            if let Some(ir) = emmylua_formatter::verif::format_to_ir(&src, &cfg) {
                println!("{:#?}", ir);
            }
            return;
        }
        "dbg-tokens" => {
            let text = std::fs::read_to_string(args.replay.as_ref().expect("--replay FILE")).expect("file");
            let tree = emmylua_parser::LuaParser::parse(&text, emmylua_parser::ParserConfig::with_level(emmylua_parser::LuaLanguageLevel::Lua55));
            for el in tree.get_red_root().descendants_with_tokens() {
                match el {
                    rowan::NodeOrToken::Node(n) => println!("{:indent$}{:?}", "", n.kind(), indent = n.ancestors().count()),
                    rowan::NodeOrToken::Token(t) => println!("{:indent$}{:?} {:?}", "", t.kind(), t.text(), indent = t.parent_ancestors().count() + 1),
                }
            }
            return;
        }
        "dbg-parse" => {
            // developer aid: print the parser's errors for a file (--replay FILE)
            let text = std::fs::read_to_string(args.replay.as_ref().expect("--replay FILE")).expect("file");
            let tree = emmylua_parser::LuaParser::parse(&text, emmylua_parser::ParserConfig::with_level(emmylua_parser::LuaLanguageLevel::Lua55));
            for e in tree.get_errors() {
                let r = e.range;
                let (a, b) = (usize::from(r.start()), usize::from(r.end()));
                println!("{}..{} {:?}: {}", a, b, &text[a.min(text.len())..(b + 10).min(text.len())], e.message);
            }
            return;
        }
        other => {
            eprintln!("vh-fmt: unknown property {other}");
            std::process::exit(2);
        }
    }
    report.write(&args.out);
}
