//! Harness binary of the formatter cluster: C07 (range formatting), C05/C06 (formatter).
mod fmt;
mod gen_lua;
mod range;
mod tokens;

use vh_common::{Args, Report};

fn main() {
    let args = Args::parse();
    vh_common::silence_panics();
    let mut report = Report::default();
    match args.prop.as_str() {
        "C07" => range::run(&args, &mut report),
        "C05" | "C06" => fmt::run(&args, &mut report),
        "dbg-parse" => {
            // developer aid: print the parser's errors for a file (--replay FILE)
            let text = std::fs::read_to_string(args.replay.as_ref().expect("--replay FILE")).expect("file");
            let tree = emmylua_parser::LuaParser::parse(&text, emmylua_parser::ParserConfig::with_level(emmylua_parser::LuaLanguageLevel::Lua55));
            for e in tree.get_errors() {
                let r = e.range;
                let (a, b) = (usize::from(r.start()), usize::from(r.end()));
                println!("{}..{} {:?}: {}", a, b, &text[a.min(text.len())..(b + 10).min(text.len())], e.message);
            }
            return;
        }
        other => {
            eprintln!("vh-fmt: unknown property {other}");
            std::process::exit(2);
        }
    }
    report.write(&args.out);
}
