//! Grammar-directed generator of syntactically valid Lua with messy layout, comments and EmmyLua doc
//! annotations. All randomness comes from the seeded `Rng`.
use vh_common::Rng;

pub struct Gen<'a> {
    pub rng: &'a mut Rng,
    depth: usize,
    /// probability knobs
    pub comments: bool,
    pub docs: bool,
    /// LuaJIT extension syntax (compound assignments, `continue`)
    pub ext: bool,
    /// Lua 5.3+ syntax (`//`, bitwise operators, `<const>`)
    pub std53: bool,
    in_loop: usize,
}

const NAMES: &[&str] = &["a", "b", "foo", "bar", "self", "x1", "value", "tbl", "i", "k", "v", "ctx"];
const FIELDS: &[&str] = &["x", "y", "name", "len", "next", "id"];
const BINOPS: &[&str] = &["+", "-", "*", "/", "%", "..", "==", "~=", "<", "<=", ">", ">=", "and", "or", "^", "//", "&", "|", "<<", ">>", "~"];
const UNOPS: &[&str] = &["-", "not ", "#", "~"];
const TYPES: &[&str] = &["string", "number", "integer", "boolean", "table", "any", "nil", "Foo", "Bar.Baz"];

impl<'a> Gen<'a> {
    pub fn new(rng: &'a mut Rng) -> Self {
        Gen { rng, depth: 0, comments: true, docs: true, ext: false, std53: true, in_loop: 0 }
    }

    fn name(&mut self) -> String {
        self.rng.pick(NAMES).to_string()
    }

    fn ws(&mut self) -> &'static str {
        match self.rng.below(8) {
            0 => "",
            1 => "  ",
            2 => "\t",
            _ => " ",
        }
    }

    /// optional whitespace where none is needed
    fn ows(&mut self) -> &'static str {
        match self.rng.below(5) {
            0 => " ",
            1 => "  ",
            _ => "",
        }
    }

    fn string_lit(&mut self) -> String {
        let body = *self.rng.pick(&["", "abc", "hello world", "it's", "say \\\"hi\\\"", "a\\nb", "100%", "x\\\\y", "tab\\there"]);
        match self.rng.below(8) {
            6 => self.rng.pick(&["'C:\\\\dir\\\\\"'", "\"a\\\\\"", "'it\\'s'", "\"q\\\"q\"", "'\\\\\\''", "\"\\\\\\\\\"", "'say \"x\"'", "\"don't\""]).to_string(),
            7 => "\"line one \\\n  line two\"".to_string(),
            0 => format!("'{}'", body.replace("it's", "its").replace("\\\"", "q")),
            1 => "[[long\nstring]]".to_string(),
            2 => "[==[ with ]] inside ]==]".to_string(),
            _ => format!("\"{}\"", body),
        }
    }

    /// `[e]` with padding where `[[`/`]]` would otherwise start or end a long bracket
    fn bracket(&mut self, e: String) -> String {
        if e.starts_with('[') || e.ends_with(']') {
            format!("[ {e} ]")
        } else {
            format!("[{}{e}{}]", self.ows(), self.ows())
        }
    }

    fn number(&mut self) -> String {
        self.rng.pick(&["0", "1", "42", "3.14", "0x1F", "1e10", "0xA.8p1", "7", "100", ".5"]).to_string()
    }

    fn doc_type(&mut self, d: usize) -> String {
        if d > 2 {
            return self.rng.pick(TYPES).to_string();
        }
        match self.rng.below(12) {
            0 => format!("{}|{}", self.doc_type(d + 1), self.doc_type(d + 1)),
            1 => format!("{}[]", self.rng.pick(TYPES)),
            2 => format!("table<{}, {}>", self.doc_type(d + 1), self.doc_type(d + 1)),
            3 => format!("fun({}: {}): {}", self.name(), self.doc_type(d + 1), self.doc_type(d + 1)),
            4 => format!("{}?", self.rng.pick(TYPES)),
            5 => format!("{{ {}: {}, {}: {} }}", self.rng.pick(FIELDS), self.doc_type(d + 1), self.rng.pick(FIELDS), self.doc_type(d + 1)),
            6 if self.rng.chance(1, 2) => format!("({}) | {}", self.doc_type(d + 1), self.rng.pick(TYPES)),
            7 => format!("\"{}\"|\"{}\"", self.rng.pick(FIELDS), self.rng.pick(FIELDS)),
            _ => self.rng.pick(TYPES).to_string(),
        }
    }

    fn doc_block(&mut self, ind: &str, params: &[String]) -> String {
        let mut s = String::new();
        if self.rng.chance(1, 2) {
            s.push_str(&format!("{ind}--- {}\n", self.rng.pick(&["Does a thing.", "summary  line", "Returns the value", "TODO: fix"])));
        }
        for p in params {
            let desc = *self.rng.pick(&["", " the value", " # hash desc", "  spaced   desc"]);
            let t = self.doc_type(0);
            s.push_str(&format!("{ind}---@param {p} {t}{desc}\n"));
        }
        if self.rng.chance(1, 2) {
            let t = self.doc_type(0);
            let desc = *self.rng.pick(&["", " result", " # the result"]);
            s.push_str(&format!("{ind}---@return {t}{desc}\n"));
        }
        s
    }

    fn class_block(&mut self, ind: &str) -> String {
        let mut s = format!("{ind}---@class {}\n", self.rng.pick(&["Foo", "Bar.Baz", "Point: Base"]));
        for _ in 0..self.rng.below(4) {
            let t = self.doc_type(0);
            let f = *self.rng.pick(FIELDS);
            let desc = *self.rng.pick(&["", " field desc", " # x"]);
            s.push_str(&format!("{ind}---@field {f} {t}{desc}\n"));
        }
        s
    }

    fn line_comment(&mut self) -> String {
        self.rng
            .pick(&["-- plain comment", "--no space", "--  two spaces", "--[[ block ]]", "-- trailing  ", "--- doc-ish text", "--TODO(x): y", "--[==[ long\ncomment ]==]"])
            .to_string()
    }

    pub fn expr(&mut self) -> String {
        self.depth += 1;
        let r = if self.depth > 4 {
            match self.rng.below(4) {
                0 => self.number(),
                1 => self.string_lit(),
                2 => self.rng.pick(&["nil", "true", "false", "..."][..3]).to_string(),
                _ => self.name(),
            }
        } else {
            match self.rng.below(16) {
                0 => self.number(),
                1 => self.string_lit(),
                2 => self.rng.pick(&["nil", "true", "false"]).to_string(),
                3 => self.name(),
                4 => if self.rng.chance(1, 3) { self.tricky_expr() } else { self.name() },
                5 => format!("{}.{}", self.name(), self.rng.pick(FIELDS)),
                6 => {
                    let e = self.expr();
                    format!("{}{}", self.name(), self.bracket(e))
                }
                7 => {
                    let op = if self.std53 { *self.rng.pick(BINOPS) } else { *self.rng.pick(&BINOPS[..15]) };
                    format!("{} {} {}", self.expr(), op, self.expr())
                }
                8 => {
                    let op = if self.std53 { *self.rng.pick(UNOPS) } else { *self.rng.pick(&UNOPS[..3]) };
                    let e = self.expr();
                    // avoid `--` (comment) from a double minus
                    if op == "-" && e.starts_with('-') { format!("- ({e})") } else { format!("{op}{e}") }
                }
                9 => format!("({}{}{})", self.ows(), self.expr(), self.ows()),
                10 => self.call(),
                11 | 12 => self.table(),
                13 => self.closure(),
                14 => format!("{}:{}({})", self.name(), self.rng.pick(FIELDS), self.args()),
                _ => self.name(),
            }
        };
        self.depth -= 1;
        r
    }

    fn args(&mut self) -> String {
        let n = self.rng.below(4);
        let mut v = Vec::new();
        for _ in 0..n {
            v.push(self.expr());
        }
        let sep = if self.rng.chance(1, 4) { "," } else { ", " };
        v.join(sep)
    }

    fn call(&mut self) -> String {
        let f = if self.rng.chance(1, 3) { format!("{}.{}", self.name(), self.rng.pick(FIELDS)) } else { self.name() };
        match self.rng.below(8) {
            0 => format!("{f} {}", self.string_lit()),
            1 => format!("{f}{}", self.table()),
            2 => format!("{f}{}({})", self.ows(), self.args()),
            3 => {
                // multi-line arguments
                let a = self.expr();
                let b = self.expr();
                format!("{f}(\n  {a},\n      {b}\n)")
            }
            _ => format!("{f}({})", self.args()),
        }
    }

    fn table(&mut self) -> String {
        let n = self.rng.below(5);
        if n == 0 {
            return self.rng.pick(&["{}", "{ }", "{\n}"]).to_string();
        }
        let multiline = self.rng.chance(1, 3);
        let sep = if self.rng.chance(1, 6) { ";" } else { "," };
        let mut items = Vec::new();
        for _ in 0..n {
            let item = match self.rng.below(4) {
                0 => format!("{} = {}", self.rng.pick(FIELDS), self.expr()),
                1 => {
                    let k = self.expr();
                    format!("{} = {}", self.bracket(k), self.expr())
                }
                _ => self.expr(),
            };
            items.push(item);
        }
        let trailing = if self.rng.chance(1, 3) { sep } else { "" };
        if multiline {
            let mut s = String::from("{\n");
            for (i, it) in items.iter().enumerate() {
                let ind = *self.rng.pick(&["  ", "    ", "\t", ""]);
                let last = i + 1 == items.len();
                let c = if self.comments && self.rng.chance(1, 5) { format!(" {}", self.rng.pick(&["-- item", "--x"])) } else { String::new() };
                s.push_str(&format!("{ind}{it}{}{c}\n", if last { trailing } else { sep }));
            }
            s.push('}');
            s
        } else {
            format!("{{{}{}{}{}}}", self.ows(), items.join(&format!("{sep} ")), trailing, self.ows())
        }
    }

    fn closure(&mut self) -> String {
        let ps = self.params();
        let body = self.block("  ", 2);
        format!("function({})\n{}end", ps.join(", "), body)
    }

    fn params(&mut self) -> Vec<String> {
        let n = self.rng.below(4);
        let mut v: Vec<String> = Vec::new();
        for _ in 0..n {
            let p = self.name();
            if !v.contains(&p) && p != "self" {
                v.push(p);
            }
        }
        if self.rng.chance(1, 6) {
            v.push("...".into());
        }
        v
    }

    pub fn stmt(&mut self, ind: &str) -> String {
        self.depth += 1;
        let deeper = format!("{ind}{}", self.rng.pick(&["  ", "    ", "\t", " "]));
        let k = if self.depth > 3 { self.rng.below(6) } else { self.rng.below(17) };
        let mut pre = String::new();
        if self.comments && self.rng.chance(1, 6) {
            pre = format!("{ind}{}\n", self.line_comment());
        }
        let trail = if self.comments && self.rng.chance(1, 8) { format!(" {}", self.rng.pick(&["-- trailing", "--t", "---@type number"][..2])) } else { String::new() };
        let semi = if self.rng.chance(1, 10) { ";" } else { "" };
        let s = match k {
            0 | 1 => {
                let n = self.name();
                let attr = if self.std53 && self.rng.chance(1, 12) { " <const>" } else { "" };
                let doc = if self.docs && self.rng.chance(1, 5) { format!("{ind}---@type {}\n", self.doc_type(0)) } else { String::new() };
                let w1 = if attr.is_empty() { self.ws() } else { " " };
                format!("{doc}{ind}local {n}{attr}{w1}={}{}{semi}{trail}\n", self.ws(), self.expr())
            }
            2 => format!("{ind}local {}, {} = {}, {}{trail}\n", self.name(), self.name(), self.expr(), self.expr()),
            3 => format!("{ind}{}{}={}{}{semi}{trail}\n", self.name(), self.ws(), self.ws(), self.expr()),
            4 => format!("{ind}{}.{} = {}{trail}\n", self.name(), self.rng.pick(FIELDS), self.expr()),
            5 => format!("{ind}{}{semi}{trail}\n", self.call()),
            6 => {
                let ps = self.params();
                let doc = if self.docs && self.rng.chance(1, 2) {
                    let named: Vec<String> = ps.iter().filter(|p| *p != "...").cloned().collect();
                    self.doc_block(ind, &named)
                } else {
                    String::new()
                };
                let head = match self.rng.below(4) {
                    0 => format!("local function {}", self.name()),
                    1 => format!("function {}.{}", self.name(), self.rng.pick(FIELDS)),
                    2 => format!("function {}:{}", self.name(), self.rng.pick(FIELDS)),
                    _ => format!("function {}", self.name()),
                };
                let body = self.block(&deeper, 3);
                format!("{doc}{ind}{head}{}({}{}{})\n{body}{ind}end\n", self.ows(), self.ows(), ps.join(", "), self.ows())
            }
            7 => {
                let c = self.expr();
                let b1 = self.block(&deeper, 2);
                let mut s = format!("{ind}if {c} then\n{b1}");
                if self.rng.chance(1, 3) {
                    let c2 = self.expr();
                    let b2 = self.block(&deeper, 2);
                    s.push_str(&format!("{ind}elseif {c2} then\n{b2}"));
                }
                if self.rng.chance(1, 2) {
                    let b3 = self.block(&deeper, 2);
                    s.push_str(&format!("{ind}else\n{b3}"));
                }
                s.push_str(&format!("{ind}end\n"));
                s
            }
            8 => {
                let c = self.expr();
                self.in_loop += 1;
                let b = self.block(&deeper, 2);
                self.in_loop -= 1;
                format!("{ind}while {c} do\n{b}{ind}end\n")
            }
            9 => {
                let (a, b) = (self.expr(), self.expr());
                self.in_loop += 1;
                let body = self.block(&deeper, 2);
                self.in_loop -= 1;
                let step = if self.rng.chance(1, 3) { format!(", {}", self.expr()) } else { String::new() };
                format!("{ind}for i = {a}, {b}{step} do\n{body}{ind}end\n")
            }
            10 => {
                let e = self.expr();
                self.in_loop += 1;
                let body = self.block(&deeper, 2);
                self.in_loop -= 1;
                format!("{ind}for k, v in pairs({e}) do\n{body}{ind}end\n")
            }
            11 => {
                self.in_loop += 1;
                let body = self.block(&deeper, 2);
                self.in_loop -= 1;
                format!("{ind}repeat\n{body}{ind}until {}\n", self.expr())
            }
            12 => {
                let body = self.block(&deeper, 2);
                format!("{ind}do\n{body}{ind}end\n")
            }
            13 if self.docs => {
                let c = self.class_block(ind);
                format!("{c}{ind}local {} = {{}}\n", self.rng.pick(&["Foo", "M", "Point"]))
            }
            14 => {
                // one-line compound statement
                format!("{ind}if {} then {} end\n", self.expr(), self.call())
            }
            15 if self.docs => {
                format!("{ind}---@alias {} {}\n", self.rng.pick(&["Id", "Mode"]), self.doc_type(0))
            }
            _ => format!("{ind}{}{trail}\n", self.call()),
        };
        self.depth -= 1;
        let blank = if self.rng.chance(1, 6) { *self.rng.pick(&["\n", "\n\n", "\n\n\n"]) } else { "" };
        format!("{pre}{s}{blank}")
    }

    pub fn block(&mut self, ind: &str, max: usize) -> String {
        let n = self.rng.below(max + 1);
        let mut s = String::new();
        for _ in 0..n {
            s.push_str(&self.stmt(ind));
        }
        // block terminators
        match self.rng.below(10) {
            0 if self.in_loop > 0 => s.push_str(&format!("{ind}break\n")),
            1 if self.depth > 0 => {
                let e = self.expr();
                s.push_str(&format!("{ind}return {e}\n"))
            }
            2 if self.depth > 0 => s.push_str(&format!("{ind}return\n")),
            _ => {}
        }
        s
    }

    pub fn program(&mut self, max_stmts: usize) -> String {
        self.depth = 0;
        let n = 1 + self.rng.below(max_stmts);
        let mut s = String::new();
        if self.rng.chance(1, 10) {
            s.push_str("#!/usr/bin/lua\n");
        }
        for _ in 0..n {
            s.push_str(&self.stmt(""));
        }
        if self.rng.chance(1, 4) {
            let e = self.expr();
            s.push_str(&format!("return {e}"));
            if self.rng.chance(1, 2) {
                s.push('\n');
            }
        }
        if self.rng.chance(1, 8) {
            s = s.replace('\n', "\r\n");
        }
        s
    }
}

/// constructs added for specific defect classes (operator fusing, argument dropping, compound assignment,
/// comments behind keyword statements, tag attributes, escapes before quotes, closures as later arguments)
impl<'a> Gen<'a> {
    fn tricky_expr(&mut self) -> String {
        let (a, b) = (self.name(), self.name());
        match self.rng.below(12) {
            0 => format!("{a} - -{b}"),
            1 => format!("{a} - - {b} - -1"),
            2 => format!("1 .. {a}"),
            3 => format!("{a} .. 2 .. {b}"),
            4 => format!("{a} .. .5"),
            5 => format!("1.5 .. {a} .. 0x10"),
            6 => format!("{a}(\"a\", {b})"),
            7 => format!("{a}({{ 1 }}, {b})"),
            8 => format!("{a}({b}, function() {a}() {b}() end, function() {b}() {a}() end)"),
            9 => format!("{a}({b}, {{ x = 1, y = 2 }}, {{ {a}, {b} }})"),
            10 => format!("- -{a}"),
            _ => format!("{a}[ - -1 ] .. {b}"),
        }
    }

    fn tricky_stmt(&mut self, ind: &str) -> String {
        let (a, b, c) = (self.name(), self.name(), self.name());
        match self.rng.below(12) {
            0 | 1 => {
                // consecutive assignments with trailing comments behind code of different widths
                format!("{ind}{a} = 1 -- one\n{ind}{b}.{} = {} -- two\n{ind}local {c} = \"s\" --three\n", self.rng.pick(FIELDS), self.tricky_expr())
            }
            2 if self.ext => format!("{ind}{a} = 1\n{ind}{b} += 2\n{ind}{c}.x ..= \"s\"\n{ind}{a} -= {b}\n"),
            3 if self.ext => format!("{ind}for i = 1, 2 do\n{ind}  if {a} then continue -- skip\n{ind}  end\n{ind}  {b} *= 2\n{ind}end\n"),
            4 => format!("{ind}while {a} do\n{ind}  if {b} then break -- out\n{ind}  end\n{ind}  break --done\n{ind}end\n"),
            5 => format!("{ind}do\n{ind}  goto {a}_l -- jump\n{ind}  ::{a}_l:: -- target\n{ind}end\n"),
            6 if self.docs => format!(
                "{ind}---@class (exact) {} some text\n{ind}---@class (partial) Bcd: Base other\n{ind}---@field private x number the x\n{ind}---@field protected yy string\n{ind}local {a} = {{}}\n",
                self.rng.pick(&["A", "Point"])
            ),
            7 if self.docs => format!(
                "{ind}---@enum (key) Kind one\n{ind}---@enum Mode two\n{ind}local {a} = {{ a = 1 }}\n{ind}---@alias Box<T> T[]\n{ind}---@alias (partial) Map<K, V> table<K, V> some map\n{ind}---@alias Opt\n{ind}---|> \"collect\" # full\n{ind}---| \"stop\"\n{ind}---@alias Other string\n{ind}local {b} = 1\n"
            ),
            8 => format!("{ind}local   {a}=2 {b}(\n{ind}  {c}\n{ind})\n"),
            9 => format!("{ind}do\n{ind}  do\n{ind}      local {a} = \"first \\z\n{ind}           second\" .. \"x\\\n{ind}   y\"\n{ind}  end\n{ind}end\n"),
            10 if self.comments => format!("{ind}{a} = -- why\n{ind}  {}\n{ind}local {b}, {c} = 1, -- first\n{ind}   2 -- second\n", self.tricky_expr()),
            10 => format!("{ind}{a}({b}) {c} = {}\n", self.tricky_expr()),
            _ => format!("{ind}local {a} = {}\n", self.tricky_expr()),
        }
    }

    /// a program built mostly from the tricky constructs
    pub fn tricky_program(&mut self, max_stmts: usize) -> String {
        self.depth = 0;
        let n = 1 + self.rng.below(max_stmts);
        let mut s = String::new();
        for _ in 0..n {
            match self.rng.below(6) {
                0 | 1 | 2 => s.push_str(&self.tricky_stmt("")),
                3 => s.push_str(&self.fusion_stmt("")),
                4 => s.push_str(&self.closure_return_stmt("")),
                _ => s.push_str(&self.stmt("")),
            }
        }
        match self.rng.below(4) {
            // trailing comment on the last statement, with and without a final newline
            0 => s.push_str(&format!("{} = 1 -- last", self.name())),
            1 => s.push_str(&format!("return {} -- last\n", self.name())),
            2 => s.push_str(&format!("{}() --[[ end ]]", self.name())),
            _ => {}
        }
        s
    }
}

/// token-fusion adjacency and one-line closures with `return` of 0/2/3 values (families added after two
/// independently seeded changes were missed)
impl<'a> Gen<'a> {
    /// a key / operand whose LEFTMOST token is a long-bracket string, possibly inside a compound expression
    fn long_bracket_led_expr(&mut self) -> String {
        let b = self.name();
        let ls = *self.rng.pick(&["[[a]]", "[=[a]=]", "[==[ x ]] y ]==]", "[[a\nb]]"]);
        match self.rng.below(9) {
            0 => ls.to_string(),
            1 => format!("{ls} .. {b}"),
            2 => format!("{ls} == {b}"),
            3 => format!("({ls}):len()"),
            4 => format!("{ls} .. [[b]]"),
            5 => format!("{ls} .. {b} .. [=[c]=]"),
            6 => format!("{ls} < {b} and {b}"),
            7 => format!("#{ls}"),
            _ => format!("{ls} .. {b}[ {ls} ]"),
        }
    }

    pub fn fusion_stmt(&mut self, ind: &str) -> String {
        let (a, b) = (self.name(), self.name());
        let k = self.long_bracket_led_expr();
        match self.rng.below(12) {
            0 => format!("{ind}{a}[ {k} ] = {b}\n"),
            1 => format!("{ind}local {a} = {b}[ {k} ]\n"),
            2 => format!("{ind}{a} = {{ [ {k} ] = 1, [ {} ] = 2, {b} }}\n", self.long_bracket_led_expr()),
            3 => format!("{ind}{a}({b}[ {k} ], {{ [ {k} ] = {b} }})\n"),
            4 => format!("{ind}{a}.x[ {k} ][ {k} ] = {b}:y()[ {k} ]\n"),
            5 => format!("{ind}{a} = {b} - -{a} - - -1 .. 2 .. .5 .. 1.5 .. {b}\n"),
            6 if self.std53 => format!("{ind}local {a} <const> = 1\n{ind}local {b} <close>, {a}2 <const> = nil, {k}\n"),
            7 => format!("{ind}do\n{ind}  goto {a}_x\n{ind}  ::{a}_x:: ::{b}_y::\n{ind}end\n"),
            8 => format!("{ind}{a} {}\n{ind}{b}.x {}\n", self.rng.pick(&["[[s]]", "[=[s]=]"]), self.rng.pick(&["[[t]]", "[==[ u ]==]"])),
            9 => format!("{ind}{a}[ {b} {k} ] = {b}\n"),
            10 => format!("{ind}do\n{ind}  return {a}[ {k} ], - -{b}, 3 .. {a}\n{ind}end\n"),
            _ => format!("{ind}{a} = {b} .. ... .. 0x1 .. {a}.x .. {b}\n"),
        }
    }

    /// a one-line closure whose body is a `return` with 0, 1, 2 or 3 values / a call / varargs
    fn return_closure(&mut self) -> String {
        let (a, b) = (self.name(), self.name());
        match self.rng.below(8) {
            0 => "function() return end".to_string(),
            1 => format!("function() return {a}, {b} end"),
            2 => format!("function({a}) return {a}, {b}, 1 end"),
            3 => format!("function() return {a}() end"),
            4 => "function(...) return ... end".to_string(),
            5 => format!("function() return {a} end"),
            6 => format!("function() return {a}, {b}() end"),
            _ => format!("function({a}, {b}) return {b}, {a} end"),
        }
    }

    pub fn closure_return_stmt(&mut self, ind: &str) -> String {
        let (a, b) = (self.name(), self.name());
        let (c1, c2) = (self.return_closure(), self.return_closure());
        match self.rng.below(8) {
            0 => format!("{ind}{a}({b}, {c1})\n"),
            1 => format!("{ind}{a}({c1}, {b})\n"),
            2 => format!("{ind}{a}({b}, {c1}, {c2})\n"),
            3 => format!("{ind}{a}({c1})\n"),
            4 => format!("{ind}{a}({{ k = {c1}, 1 }}, {b})\n"),
            5 => format!("{ind}local {a} = {b}({a}, {{ {c1}, {c2} }}, {c1})\n"),
            6 => format!("{ind}{a}:m({b}, {c1}):n({c2}, {b})\n"),
            _ => format!("{ind}{a}({b}({c1}, {c2}), {b})\n"),
        }
    }
}
