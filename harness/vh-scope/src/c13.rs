//! C13: names resolve per Lua scoping.
//! tie    : Lean model of the decl analyzer (`scope.impl`) vs the real resolution recorded in the
//!          reference index and answered by `SemanticModel::find_decl(NoTrace)`.
//! oracle : reference resolver `LuaScope` (`scope.ref`, the spec — not the implementation model)
//!          vs the real resolution.
use crate::ast::{self, Gen, Stat};
use crate::real::{self, Ws};
use serde_json::json;
use std::collections::HashSet;
use vh_common::{Args, Report, Rng, run_driver};

pub fn programs(args: &Args, report: &mut Report) -> Vec<Vec<Stat>> {
    if let Some(path) = &args.replay {
        let v: serde_json::Value = serde_json::from_str(&std::fs::read_to_string(path).expect("replay file")).expect("replay json");
        let enc = v["input"]["program"].as_str().expect("replay input.program");
        return vec![ast::decode(enc).expect("replay program decodes")];
    }
    let mut rng = Rng::new(args.seed);
    let mut out = Vec::new();
    // exhaustive family: `local x; local y; S1 [; S2]; z(x); z(y)`
    let fam = ast::family();
    report.add("family_programs_total", fam.len() as u64);
    if args.thorough() {
        report.extra.insert("exhaustive".into(), json!(true));
        out.extend(fam);
    } else {
        // quick: every single-statement member + a seeded tenth of the two-statement members
        let singles = ast::shapes().len();
        for (i, p) in fam.into_iter().enumerate() {
            if i < singles || rng.chance(1, 10) {
                out.push(p);
            }
        }
    }
    report.add("family_programs_run", out.len() as u64);
    // exhaustive by size: every program with at most N AST nodes of the enumeration grammar (`ast::Enum`)
    let bound = if args.thorough() { 4 } else { 3 };
    let en = ast::Enum::new(bound);
    for n in 1..=bound {
        let all = en.programs(n);
        let before = out.len();
        for (i, p) in all.iter().enumerate() {
            // quick: sizes 1-2 completely, a seeded 5% of size 3
            if args.thorough() || n <= 2 || rng.chance(1, 20) {
                out.push(p.clone());
            }
            let _ = i;
        }
        report.add(&format!("enumerated_size_{n}_total"), all.len() as u64);
        report.add(&format!("enumerated_size_{n}_run"), (out.len() - before) as u64);
    }
    report.extra.insert("exhaustive_node_bound".into(), json!(if args.thorough() { 4 } else { 2 }));
    let (n, max_nodes) = if args.thorough() { (40_000, 40) } else { (3_000, 25) };
    for i in 0..n {
        let mut g = Gen { rng: &mut rng, names: 3, vararg: true };
        let nodes = 3 + (i % (max_nodes - 2));
        out.push(g.program(nodes));
    }
    out
}

fn bucket(n: usize) -> &'static str {
    match n {
        0..=5 => "nodes_00_05",
        6..=10 => "nodes_06_10",
        11..=20 => "nodes_11_20",
        21..=40 => "nodes_21_40",
        _ => "nodes_41_up",
    }
}

fn count_kinds(b: &[Stat], report: &mut Report) {
    for s in b {
        match s {
            Stat::Local(..) => report.count("stat_local"),
            Stat::Assign(..) => report.count("stat_assign"),
            Stat::LocalFunc(_, _, b) => {
                report.count("stat_local_function");
                count_kinds(b, report)
            }
            Stat::FuncStat(_, _, b) => {
                report.count("stat_function");
                count_kinds(b, report)
            }
            Stat::ForNum(_, _, _, b) => {
                report.count("stat_for_numeric");
                count_kinds(b, report)
            }
            Stat::ForIn(_, _, b) => {
                report.count("stat_for_in");
                count_kinds(b, report)
            }
            Stat::While(_, b) => {
                report.count("stat_while");
                count_kinds(b, report)
            }
            Stat::Repeat(b, _) => {
                report.count("stat_repeat");
                count_kinds(b, report)
            }
            Stat::Do(b) => {
                report.count("stat_do");
                count_kinds(b, report)
            }
            Stat::If(_, t, e) => {
                report.count("stat_if");
                count_kinds(t, report);
                count_kinds(e, report)
            }
            Stat::CallS(..) => report.count("stat_call"),
            Stat::LocalAttr(..) => report.count("stat_local_attrib"),
            Stat::Method(_, _, colon, _, b) => {
                report.count(if *colon { "stat_method" } else { "stat_field_function" });
                count_kinds(b, report)
            }
        }
    }
}

pub fn run(args: &Args, report: &mut Report) {
    report.rule = "distinct = distinct program (postfix encoding); non-trivial = the reference resolver binds at least \
                   one name use to a local declaration and the program has at least two declarations of one name \
                   or a use resolved as global (so that scoping decides something)"
        .into();
    let progs = programs(args, report);
    let mut reqs = Vec::with_capacity(progs.len() * 3);
    let encs: Vec<String> = progs.iter().map(|p| ast::encode(p)).collect();
    for e in &encs {
        reqs.push(format!("scope.ref {e}"));
        reqs.push(format!("scope.impl {e}"));
        reqs.push(format!("scope.findscope {e}"));
    }
    let answers = run_driver(&reqs);
    let mut ws = Ws::new();
    let mut seen: HashSet<&str> = HashSet::new();
    for (i, p) in progs.iter().enumerate() {
        let enc = &encs[i];
        let spec = &answers[3 * i];
        let model = &answers[3 * i + 1];
        let fscope = &answers[3 * i + 2];
        let r = ast::render(p);
        let input = json!({"program": enc, "lua": r.text});
        let class = ast::class_of(p);
        let f = ast::features(p);
        report.count(bucket(ast::size_block(p)));
        if f.for_header_mentions_loop_var {
            report.count("feature_for_header_mentions_loop_var");
        }
        if f.duplicate_names_in_one_declaration {
            report.count("feature_duplicate_names_in_one_declaration");
        }
        if f.repeat_empty_body_closure_in_condition {
            report.count("feature_repeat_empty_body_closure_in_condition");
        }
        count_kinds(p, report);
        // model-internal tie: at every lookup of the walk the open scopes are the path `find_scope`
        // takes through the ranged scope tree (scope ranges as `create_scope` receives them)
        if !fscope.ends_with(" same") {
            report.mismatch(json!({"input": input, "what": "model: open scopes at a lookup differ from find_scope on the ranged scope tree", "answer": fscope}));
        } else {
            report.add("find_scope_lookups_checked", fscope.split(' ').nth(1).and_then(|x| x.parse().ok()).unwrap_or(0));
        }
        let (spec, model) = match (spec.strip_prefix("ok "), model.strip_prefix("ok ")) {
            (Some(a), Some(b)) => (a.to_string(), b.to_string()),
            _ if spec == "ok" && model == "ok" => (String::new(), String::new()),
            _ => {
                report.mismatch(json!({"input": input, "what": "driver rejected the program", "ref": spec, "impl": model}));
                continue;
            }
        };
        let real = {
            let r2 = &r;
            let wsr = std::panic::AssertUnwindSafe(&mut ws);
            vh_common::catch(move || {
                let mut wsr = wsr;
                real::resolution(&mut wsr, r2)
            })
        };
        let (raw, sem) = match real {
            Ok(Ok(x)) => x,
            Ok(Err(e)) => {
                report.mismatch(json!({"input": input, "what": format!("harness: {e}")}));
                continue;
            }
            Err(panic) => {
                report.oracle_failure(json!({"input": input, "what": format!("analysis panicked: {panic}"), "class": class}));
                ws = Ws::new();
                continue;
            }
        };
        let uses = if spec.is_empty() { 0 } else { spec.split(',').count() };
        report.evaluations += uses as u64;
        report.traces_validated += 1;
        if seen.insert(enc.as_str()) {
            let locals = spec.split(',').filter(|x| !x.is_empty() && !x.ends_with(":g")).count();
            let globals = spec.split(',').filter(|x| x.ends_with(":g")).count();
            let decls: Vec<&str> = r.toks.iter().filter(|t| t.2 == ast::TokKind::Decl).map(|t| t.3.as_str()).collect();
            let shadow = (0..decls.len()).any(|i| decls[..i].contains(&decls[i]));
            if locals > 0 && (shadow || globals > 0) {
                report.distinct_nontrivial += 1;
            }
        }
        if i % 997 == 0 {
            report.sample(json!({"lua": r.text, "program": enc, "resolution": raw}));
        }
        // tie: model of the implementation vs implementation (both observations)
        if raw != model {
            report.mismatch(json!({"input": input, "what": "reference index (during-walk find_decl) differs from the Lean model of the decl analyzer",
                "model": model, "impl": raw}));
        }
        if sem != raw {
            report.mismatch(json!({"input": input, "what": "SemanticModel::find_decl(NoTrace) differs from the reference index record",
                "semantic": sem, "reference_index": raw}));
        }
        // oracle: the spec (reference resolver) vs the implementation
        for (what, got) in [("reference index", &raw), ("SemanticModel::find_decl(NoTrace)", &sem)] {
            if *got != spec {
                let first = spec.split(',').zip(got.split(',')).find(|(a, b)| a != b);
                report.oracle_failure(json!({"input": input, "class": class,
                    "what": format!("{what}: name use resolves differently from Lua scoping (first difference expected/observed {first:?})"),
                    "expected": spec, "observed": got}));
                break;
            }
        }
    }
    report.add("programs", progs.len() as u64);
    report.add("distinct_programs", seen.len() as u64);
}
