//! The Lua fragment of the Lean `Scope` model: AST, postfix encoding for `vdriver`, rendering to Lua
//! text with the model's positions, seeded and exhaustive generators, syntactic classifiers.
use vh_common::Rng;

pub type Name = u32;

#[derive(Clone, Debug, PartialEq, Eq, Hash)]
pub enum Expr {
    Name(Name),
    Lit,
    Call(Name, Vec<Expr>),
    Func(Vec<Name>, Vec<Stat>),
}

#[derive(Clone, Debug, PartialEq, Eq, Hash)]
pub enum Stat {
    Local(Vec<Name>, Vec<Expr>),
    Assign(Vec<Name>, Vec<Expr>),
    LocalFunc(Name, Vec<Name>, Vec<Stat>),
    FuncStat(Name, Vec<Name>, Vec<Stat>),
    ForNum(Name, Expr, Expr, Vec<Stat>),
    ForIn(Vec<Name>, Expr, Vec<Stat>),
    While(Expr, Vec<Stat>),
    Repeat(Vec<Stat>, Expr),
    Do(Vec<Stat>),
    If(Expr, Vec<Stat>, Vec<Stat>),
    CallS(Name, Vec<Expr>),
    /// `local n <const> = val`
    LocalAttr(Name, Expr),
    /// `function obj.f1…fk(ps) body end`; with `colon` the last separator is `:` (implicit `self`)
    Method(Name, usize, bool, Vec<Name>, Vec<Stat>),
}

pub const SELF: Name = 3;
pub const DOTS: Name = 4;

pub fn name_text(n: Name) -> String {
    match n {
        0 => "x".into(),
        1 => "y".into(),
        2 => "z".into(),
        3 => "self".into(),
        4 => "...".into(),
        k => format!("v{k}"),
    }
}

// ---------------------------------------------------------------- postfix encoding

fn names(ns: &[Name]) -> String {
    ns.iter().map(|n| n.to_string()).collect::<Vec<_>>().join("-")
}

fn enc_expr(e: &Expr, out: &mut Vec<String>) {
    match e {
        Expr::Name(n) => out.push(format!("n{n}")),
        Expr::Lit => out.push("l".into()),
        Expr::Call(f, args) => {
            for a in args {
                enc_expr(a, out);
            }
            out.push(format!("c{f}:{}", args.len()));
        }
        Expr::Func(ps, body) => {
            enc_block(body, out);
            out.push(format!("F{}:{}", names(ps), body.len()));
        }
    }
}

fn enc_block(b: &[Stat], out: &mut Vec<String>) {
    for s in b {
        enc_stat(s, out);
    }
}

fn enc_stat(s: &Stat, out: &mut Vec<String>) {
    match s {
        Stat::Local(ns, vals) => {
            for v in vals {
                enc_expr(v, out);
            }
            out.push(format!("L{}:{}", names(ns), vals.len()));
        }
        Stat::Assign(ns, vals) => {
            for v in vals {
                enc_expr(v, out);
            }
            out.push(format!("A{}:{}", names(ns), vals.len()));
        }
        Stat::LocalFunc(n, ps, body) => {
            enc_block(body, out);
            out.push(format!("U{n};{}:{}", names(ps), body.len()));
        }
        Stat::FuncStat(n, ps, body) => {
            enc_block(body, out);
            out.push(format!("G{n};{}:{}", names(ps), body.len()));
        }
        Stat::ForNum(v, e1, e2, body) => {
            enc_expr(e1, out);
            enc_expr(e2, out);
            enc_block(body, out);
            out.push(format!("N{v}:{}", body.len()));
        }
        Stat::ForIn(vs, e, body) => {
            enc_expr(e, out);
            enc_block(body, out);
            out.push(format!("I{}:{}", names(vs), body.len()));
        }
        Stat::While(c, body) => {
            enc_expr(c, out);
            enc_block(body, out);
            out.push(format!("W:{}", body.len()));
        }
        Stat::Repeat(body, c) => {
            enc_block(body, out);
            enc_expr(c, out);
            out.push(format!("R:{}", body.len()));
        }
        Stat::Do(body) => {
            enc_block(body, out);
            out.push(format!("D:{}", body.len()));
        }
        Stat::If(c, t, e) => {
            enc_expr(c, out);
            enc_block(t, out);
            enc_block(e, out);
            out.push(format!("T:{}:{}", t.len(), e.len()));
        }
        Stat::CallS(f, args) => {
            for a in args {
                enc_expr(a, out);
            }
            out.push(format!("S{f}:{}", args.len()));
        }
        Stat::LocalAttr(n, v) => {
            enc_expr(v, out);
            out.push(format!("K{n}"));
        }
        Stat::Method(obj, k, colon, ps, body) => {
            enc_block(body, out);
            out.push(format!("M{obj};{k};{};{}:{}", if *colon { 1 } else { 0 }, names(ps), body.len()));
        }
    }
}

pub fn encode(p: &[Stat]) -> String {
    let mut out = Vec::new();
    enc_block(p, &mut out);
    out.join(",")
}

enum V {
    E(Expr),
    S(Stat),
}

fn pop_exprs(k: usize, st: &mut Vec<V>) -> Option<Vec<Expr>> {
    let mut r = Vec::new();
    for _ in 0..k {
        match st.pop()? {
            V::E(e) => r.push(e),
            _ => return None,
        }
    }
    r.reverse();
    Some(r)
}

fn pop_stats(k: usize, st: &mut Vec<V>) -> Option<Vec<Stat>> {
    let mut r = Vec::new();
    for _ in 0..k {
        match st.pop()? {
            V::S(s) => r.push(s),
            _ => return None,
        }
    }
    r.reverse();
    Some(r)
}

fn parse_names(s: &str) -> Option<Vec<Name>> {
    if s.is_empty() {
        return Some(vec![]);
    }
    s.split('-').map(|x| x.parse().ok()).collect()
}

/// inverse of `encode` (used for replays)
pub fn decode(s: &str) -> Option<Vec<Stat>> {
    let mut st: Vec<V> = Vec::new();
    for item in s.split(',') {
        let (tag, rest) = item.split_at(1);
        let parts: Vec<&str> = rest.split(':').collect();
        let num = |x: &str| x.parse::<usize>().ok();
        match (tag, parts.as_slice()) {
            ("n", [k]) => st.push(V::E(Expr::Name(k.parse().ok()?))),
            ("l", [""]) => st.push(V::E(Expr::Lit)),
            ("c", [f, k]) => {
                let a = pop_exprs(num(k)?, &mut st)?;
                st.push(V::E(Expr::Call(f.parse().ok()?, a)));
            }
            ("F", [ps, b]) => {
                let body = pop_stats(num(b)?, &mut st)?;
                st.push(V::E(Expr::Func(parse_names(ps)?, body)));
            }
            ("L", [ns, k]) => {
                let a = pop_exprs(num(k)?, &mut st)?;
                st.push(V::S(Stat::Local(parse_names(ns)?, a)));
            }
            ("A", [ns, k]) => {
                let a = pop_exprs(num(k)?, &mut st)?;
                st.push(V::S(Stat::Assign(parse_names(ns)?, a)));
            }
            ("U", [hd, b]) | ("G", [hd, b]) => {
                let (n, ps) = hd.split_once(';')?;
                let body = pop_stats(num(b)?, &mut st)?;
                let n = n.parse().ok()?;
                let ps = parse_names(ps)?;
                st.push(V::S(if tag == "U" { Stat::LocalFunc(n, ps, body) } else { Stat::FuncStat(n, ps, body) }));
            }
            ("N", [v, b]) => {
                let body = pop_stats(num(b)?, &mut st)?;
                let mut es = pop_exprs(2, &mut st)?;
                let e2 = es.pop()?;
                let e1 = es.pop()?;
                st.push(V::S(Stat::ForNum(v.parse().ok()?, e1, e2, body)));
            }
            ("I", [vs, b]) => {
                let body = pop_stats(num(b)?, &mut st)?;
                let e = pop_exprs(1, &mut st)?.pop()?;
                st.push(V::S(Stat::ForIn(parse_names(vs)?, e, body)));
            }
            ("W", ["", b]) => {
                let body = pop_stats(num(b)?, &mut st)?;
                let c = pop_exprs(1, &mut st)?.pop()?;
                st.push(V::S(Stat::While(c, body)));
            }
            ("R", ["", b]) => {
                let c = pop_exprs(1, &mut st)?.pop()?;
                let body = pop_stats(num(b)?, &mut st)?;
                st.push(V::S(Stat::Repeat(body, c)));
            }
            ("D", ["", b]) => {
                let body = pop_stats(num(b)?, &mut st)?;
                st.push(V::S(Stat::Do(body)));
            }
            ("T", ["", t, e]) => {
                let eb = pop_stats(num(e)?, &mut st)?;
                let tb = pop_stats(num(t)?, &mut st)?;
                let c = pop_exprs(1, &mut st)?.pop()?;
                st.push(V::S(Stat::If(c, tb, eb)));
            }
            ("S", [f, k]) => {
                let a = pop_exprs(num(k)?, &mut st)?;
                st.push(V::S(Stat::CallS(f.parse().ok()?, a)));
            }
            ("K", [n]) => {
                let e = pop_exprs(1, &mut st)?.pop()?;
                st.push(V::S(Stat::LocalAttr(n.parse().ok()?, e)));
            }
            ("M", [hd, b]) => {
                let h: Vec<&str> = hd.split(';').collect();
                if h.len() != 4 {
                    return None;
                }
                let body = pop_stats(num(b)?, &mut st)?;
                st.push(V::S(Stat::Method(h[0].parse().ok()?, num(h[1])?, h[2] == "1", parse_names(h[3])?, body)));
            }
            _ => return None,
        }
    }
    let n = st.len();
    pop_stats(n, &mut st)
}

// ---------------------------------------------------------------- rendering

#[derive(Clone, Copy, PartialEq, Eq, Debug)]
pub enum TokKind {
    Decl,
    Use,
    Other,
    Comma,
}

#[derive(Clone, Debug)]
pub struct Tok {
    pub text: String,
    pub kind: TokKind,
    /// statement boundary before this token (rendered as a newline)
    pub newline: bool,
    /// declaration token of a `local` whose positional initialiser is a bare name (`local g = f`)
    pub init_is_name: bool,
}

struct R {
    toks: Vec<Tok>,
    nl: bool,
}

impl R {
    fn t(&mut self, s: &str) {
        self.push(s.to_string(), TokKind::Other);
    }
    fn push(&mut self, text: String, kind: TokKind) {
        let newline = self.nl;
        self.nl = false;
        self.toks.push(Tok { text, kind, newline, init_is_name: false });
    }
    fn decl(&mut self, n: Name) {
        self.push(name_text(n), TokKind::Decl);
    }
    fn use_(&mut self, n: Name) {
        self.push(name_text(n), TokKind::Use);
    }
    fn decls(&mut self, ns: &[Name]) {
        for (i, n) in ns.iter().enumerate() {
            if i > 0 {
                self.push(",".into(), TokKind::Comma);
            }
            self.decl(*n);
        }
    }
    fn exprs(&mut self, es: &[Expr]) {
        for (i, e) in es.iter().enumerate() {
            if i > 0 {
                self.push(",".into(), TokKind::Comma);
            }
            self.expr(e);
        }
    }
    fn expr(&mut self, e: &Expr) {
        match e {
            Expr::Name(n) => self.use_(*n),
            Expr::Lit => self.t("1"),
            Expr::Call(f, args) => {
                self.use_(*f);
                self.t("(");
                self.exprs(args);
                self.t(")");
            }
            Expr::Func(ps, body) => {
                self.t("function");
                self.t("(");
                self.decls(ps);
                self.t(")");
                self.block(body);
                self.t("end");
            }
        }
    }
    fn block(&mut self, b: &[Stat]) {
        for s in b {
            self.nl = true;
            self.stat(s);
        }
        self.nl = true;
    }
    fn stat(&mut self, s: &Stat) {
        match s {
            Stat::Local(ns, vals) => {
                self.t("local");
                let first = self.toks.len();
                self.decls(ns);
                let mut i = 0;
                for t in self.toks[first..].iter_mut() {
                    if t.kind == TokKind::Decl {
                        t.init_is_name = matches!(vals.get(i), Some(Expr::Name(_)));
                        i += 1;
                    }
                }
                if !vals.is_empty() {
                    self.t("=");
                    self.exprs(vals);
                }
            }
            Stat::Assign(ns, vals) => {
                for (i, n) in ns.iter().enumerate() {
                    if i > 0 {
                        self.push(",".into(), TokKind::Comma);
                    }
                    self.use_(*n);
                }
                self.t("=");
                self.exprs(vals);
            }
            Stat::LocalFunc(n, ps, body) => {
                self.t("local");
                self.t("function");
                self.decl(*n);
                self.t("(");
                self.decls(ps);
                self.t(")");
                self.block(body);
                self.t("end");
            }
            Stat::FuncStat(n, ps, body) => {
                self.t("function");
                self.use_(*n);
                self.t("(");
                self.decls(ps);
                self.t(")");
                self.block(body);
                self.t("end");
            }
            Stat::ForNum(v, e1, e2, body) => {
                self.t("for");
                self.decl(*v);
                self.t("=");
                self.expr(e1);
                self.push(",".into(), TokKind::Comma);
                self.expr(e2);
                self.t("do");
                self.block(body);
                self.t("end");
            }
            Stat::ForIn(vs, e, body) => {
                self.t("for");
                self.decls(vs);
                self.t("in");
                self.expr(e);
                self.t("do");
                self.block(body);
                self.t("end");
            }
            Stat::While(c, body) => {
                self.t("while");
                self.expr(c);
                self.t("do");
                self.block(body);
                self.t("end");
            }
            Stat::Repeat(body, c) => {
                self.t("repeat");
                self.block(body);
                self.t("until");
                self.expr(c);
            }
            Stat::Do(body) => {
                self.t("do");
                self.block(body);
                self.t("end");
            }
            Stat::If(c, t, e) => {
                self.t("if");
                self.expr(c);
                self.t("then");
                self.block(t);
                self.t("else");
                self.block(e);
                self.t("end");
            }
            Stat::CallS(f, args) => {
                self.use_(*f);
                self.t("(");
                self.exprs(args);
                self.t(")");
            }
            Stat::LocalAttr(n, v) => {
                self.t("local");
                self.decl(*n);
                self.t("<");
                self.t("const");
                self.t(">");
                self.t("=");
                self.expr(v);
            }
            Stat::Method(obj, k, colon, ps, body) => {
                self.t("function");
                self.use_(*obj);
                for i in 0..*k {
                    self.t(if *colon && i + 1 == *k { ":" } else { "." });
                    self.t(&format!("m{i}"));
                }
                self.t("(");
                self.decls(ps);
                self.t(")");
                self.block(body);
                self.t("end");
            }
        }
    }
}

/// A rendered program: Lua text, and for every counted token (commas are not counted) its model
/// position `2 * i + 2`, byte offset, kind and text.
pub struct Rendered {
    pub text: String,
    pub toks: Vec<(usize, usize, TokKind, String)>, // (model position, byte offset, kind, text)
    /// model positions of `local` declaration tokens whose positional initialiser is a bare name
    pub init_is_name: Vec<usize>,
}

impl Rendered {
    pub fn offset_of(&self, pos: usize) -> Option<usize> {
        if pos < 2 || pos % 2 != 0 {
            return None;
        }
        self.toks.get((pos - 2) / 2).map(|t| t.1)
    }
    pub fn pos_of_offset(&self, off: usize) -> Option<usize> {
        self.toks.binary_search_by_key(&off, |t| t.1).ok().map(|i| self.toks[i].0)
    }
}

/// `rename`: optional (model position → replacement text) applied while rendering
pub fn render(p: &[Stat]) -> Rendered {
    let mut r = R { toks: Vec::new(), nl: false };
    r.block(p);
    let mut text = String::from("\n"); // the chunk's block starts before its first token
    let mut toks = Vec::new();
    let mut init_is_name = Vec::new();
    let mut i = 0usize;
    for (k, t) in r.toks.iter().enumerate() {
        if k > 0 {
            text.push(if t.newline { '\n' } else { ' ' });
        }
        if t.kind != TokKind::Comma {
            toks.push((2 * i + 2, text.len(), t.kind, t.text.clone()));
            if t.init_is_name {
                init_is_name.push(2 * i + 2);
            }
            i += 1;
        }
        text.push_str(&t.text);
    }
    text.push('\n');
    Rendered { text, toks, init_is_name }
}

// ---------------------------------------------------------------- size and classifiers

pub fn size_block(b: &[Stat]) -> usize {
    b.iter().map(size_stat).sum()
}
fn size_expr(e: &Expr) -> usize {
    match e {
        Expr::Name(_) | Expr::Lit => 1,
        Expr::Call(_, a) => 1 + a.iter().map(size_expr).sum::<usize>(),
        Expr::Func(_, b) => 1 + size_block(b),
    }
}
fn size_stat(s: &Stat) -> usize {
    1 + match s {
        Stat::Local(_, v) | Stat::Assign(_, v) | Stat::CallS(_, v) => v.iter().map(size_expr).sum(),
        Stat::LocalFunc(_, _, b) | Stat::FuncStat(_, _, b) | Stat::Do(b) => size_block(b),
        Stat::ForNum(_, a, c, b) => size_expr(a) + size_expr(c) + size_block(b),
        Stat::ForIn(_, e, b) | Stat::While(e, b) | Stat::Repeat(b, e) => size_expr(e) + size_block(b),
        Stat::If(c, t, e) => size_expr(c) + size_block(t) + size_block(e),
        Stat::LocalAttr(_, e) => size_expr(e),
        Stat::Method(_, _, _, _, b) => size_block(b),
    }
}

fn expr_mentions(e: &Expr, ns: &[Name]) -> bool {
    match e {
        Expr::Name(n) => ns.contains(n),
        Expr::Lit => false,
        Expr::Call(f, a) => ns.contains(f) || a.iter().any(|x| expr_mentions(x, ns)),
        Expr::Func(_, b) => b.iter().any(|s| stat_mentions(s, ns)),
    }
}
fn stat_mentions(s: &Stat, ns: &[Name]) -> bool {
    let bl = |b: &[Stat]| b.iter().any(|s| stat_mentions(s, ns));
    match s {
        Stat::Local(_, v) => v.iter().any(|x| expr_mentions(x, ns)),
        Stat::Assign(vs, v) => vs.iter().any(|x| ns.contains(x)) || v.iter().any(|x| expr_mentions(x, ns)),
        Stat::CallS(f, v) => ns.contains(f) || v.iter().any(|x| expr_mentions(x, ns)),
        Stat::LocalFunc(_, _, b) | Stat::Do(b) => bl(b),
        Stat::FuncStat(n, _, b) => ns.contains(n) || bl(b),
        Stat::ForNum(_, a, c, b) => expr_mentions(a, ns) || expr_mentions(c, ns) || bl(b),
        Stat::ForIn(_, e, b) | Stat::While(e, b) | Stat::Repeat(b, e) => expr_mentions(e, ns) || bl(b),
        Stat::If(c, t, e) => expr_mentions(c, ns) || bl(t) || bl(e),
        Stat::LocalAttr(_, e) => expr_mentions(e, ns),
        Stat::Method(obj, _, _, _, b) => ns.contains(obj) || bl(b),
    }
}

fn has_dup(ns: &[Name]) -> bool {
    (0..ns.len()).any(|i| ns[..i].contains(&ns[i]))
}
fn expr_has_func(e: &Expr) -> bool {
    match e {
        Expr::Func(..) => true,
        Expr::Call(_, a) => a.iter().any(expr_has_func),
        _ => false,
    }
}

/// syntactic features of a program, by name; known findings are keyed by these
pub struct Features {
    /// a `for` header expression mentions (anywhere, also inside a closure) a loop-variable name
    pub for_header_mentions_loop_var: bool,
    /// one `local` / `for … in` / parameter list declares the same name twice
    pub duplicate_names_in_one_declaration: bool,
    /// a `repeat` with an empty body whose condition contains a closure
    pub repeat_empty_body_closure_in_condition: bool,
}

pub fn features(p: &[Stat]) -> Features {
    let mut f = Features {
        for_header_mentions_loop_var: false,
        duplicate_names_in_one_declaration: false,
        repeat_empty_body_closure_in_condition: false,
    };
    fn ex(e: &Expr, f: &mut Features) {
        match e {
            Expr::Call(_, a) => a.iter().for_each(|x| ex(x, f)),
            Expr::Func(ps, b) => {
                if has_dup(ps) {
                    f.duplicate_names_in_one_declaration = true;
                }
                bl(b, f)
            }
            _ => {}
        }
    }
    fn bl(b: &[Stat], f: &mut Features) {
        for s in b {
            match s {
                Stat::Local(ns, v) => {
                    if has_dup(ns) {
                        f.duplicate_names_in_one_declaration = true;
                    }
                    v.iter().for_each(|x| ex(x, f));
                }
                Stat::Assign(_, v) | Stat::CallS(_, v) => v.iter().for_each(|x| ex(x, f)),
                Stat::LocalFunc(_, ps, b) | Stat::FuncStat(_, ps, b) => {
                    if has_dup(ps) {
                        f.duplicate_names_in_one_declaration = true;
                    }
                    bl(b, f);
                }
                Stat::ForNum(v, a, c, b) => {
                    if expr_mentions(a, &[*v]) || expr_mentions(c, &[*v]) {
                        f.for_header_mentions_loop_var = true;
                    }
                    ex(a, f);
                    ex(c, f);
                    bl(b, f);
                }
                Stat::ForIn(vs, e, b) => {
                    if has_dup(vs) {
                        f.duplicate_names_in_one_declaration = true;
                    }
                    if expr_mentions(e, vs) {
                        f.for_header_mentions_loop_var = true;
                    }
                    ex(e, f);
                    bl(b, f);
                }
                Stat::While(e, b) => {
                    ex(e, f);
                    bl(b, f);
                }
                Stat::Repeat(b, e) => {
                    if b.is_empty() && expr_has_func(e) {
                        f.repeat_empty_body_closure_in_condition = true;
                    }
                    ex(e, f);
                    bl(b, f);
                }
                Stat::Do(b) => bl(b, f),
                Stat::If(c, t, e) => {
                    ex(c, f);
                    bl(t, f);
                    bl(e, f);
                }
                Stat::LocalAttr(_, e) => ex(e, f),
                Stat::Method(_, _, _, ps, b) => {
                    if has_dup(ps) {
                        f.duplicate_names_in_one_declaration = true;
                    }
                    bl(b, f);
                }
            }
        }
    }
    bl(p, &mut f);
    f
}

/// the class of an oracle failure on this input: the first syntactic feature present, else none
pub fn class_of(p: &[Stat]) -> Option<&'static str> {
    let f = features(p);
    if f.for_header_mentions_loop_var {
        Some("for-header-mentions-loop-variable-name")
    } else if f.duplicate_names_in_one_declaration {
        Some("duplicate-names-in-one-declaration")
    } else if f.repeat_empty_body_closure_in_condition {
        Some("repeat-empty-body-closure-in-condition")
    } else {
        None
    }
}

// ---------------------------------------------------------------- generators

pub struct Gen<'a> {
    pub rng: &'a mut Rng,
    pub names: u32,
    /// the enclosing function is a vararg function (or the main chunk): `...` may be used
    pub vararg: bool,
}

impl<'a> Gen<'a> {
    /// an identifier: x, y, z, now and then `self`
    fn name(&mut self) -> Name {
        if self.rng.chance(1, 12) { SELF } else { self.rng.below(self.names as usize) as Name }
    }
    /// parameter list, possibly ending in `...`; returns whether it is a vararg list
    fn params(&mut self) -> (Vec<Name>, bool) {
        let mut ps = self.names(0, 2);
        let va = self.rng.chance(1, 4);
        if va {
            ps.push(DOTS);
        }
        (ps, va)
    }
    /// a function body: `...` is usable in it iff the function is a vararg function
    fn body(&mut self, va: bool, depth: usize, budget: &mut isize, max: usize) -> Vec<Stat> {
        let saved = self.vararg;
        self.vararg = va;
        let b = self.block(depth, budget, max);
        self.vararg = saved;
        b
    }
    fn names(&mut self, lo: usize, hi: usize) -> Vec<Name> {
        let k = self.rng.range(lo, hi);
        (0..k).map(|_| self.name()).collect()
    }
    pub fn expr(&mut self, depth: usize, budget: &mut isize) -> Expr {
        *budget -= 1;
        let c = if depth == 0 || *budget <= 0 { self.rng.below(5) } else { self.rng.below(10) };
        if self.vararg && self.rng.chance(1, 10) {
            return Expr::Name(DOTS);
        }
        match c {
            0..=3 => Expr::Name(self.name()),
            4 => Expr::Lit,
            5 | 6 => {
                let k = self.rng.below(3);
                let f = self.name();
                Expr::Call(f, (0..k).map(|_| self.expr(depth - 1, budget)).collect())
            }
            _ => {
                let (ps, va) = self.params();
                let body = self.body(va, depth - 1, budget, 2);
                Expr::Func(ps, body)
            }
        }
    }
    fn exprs(&mut self, lo: usize, hi: usize, depth: usize, budget: &mut isize) -> Vec<Expr> {
        let k = self.rng.range(lo, hi);
        (0..k).map(|_| self.expr(depth, budget)).collect()
    }
    pub fn block(&mut self, depth: usize, budget: &mut isize, max: usize) -> Vec<Stat> {
        let k = if *budget <= 0 { 0 } else { self.rng.below(max + 1) };
        (0..k).map(|_| self.stat(depth, budget)).collect()
    }
    pub fn stat(&mut self, depth: usize, budget: &mut isize) -> Stat {
        *budget -= 1;
        let c = if depth == 0 || *budget <= 0 { self.rng.below(9) } else { self.rng.below(26) };
        let c = match c {
            8 => 22,  // local with attribute
            9..=22 => c - 1,
            23..=25 => 23, // method / field function statement
            _ => c,
        };
        let d = depth.saturating_sub(1);
        match c {
            0..=2 => {
                let ns = self.names(1, 3);
                let vals = self.exprs(0, 2, depth.min(2), budget);
                Stat::Local(ns, vals)
            }
            3 | 4 => {
                let ns = self.names(1, 2);
                let vals = self.exprs(1, 2, depth.min(2), budget);
                Stat::Assign(ns, vals)
            }
            5..=7 => {
                let f = self.name();
                Stat::CallS(f, self.exprs(0, 2, depth.min(2), budget))
            }
            8 | 9 => {
                let n = self.name();
                let (ps, va) = self.params();
                Stat::LocalFunc(n, ps, self.body(va, d, budget, 3))
            }
            10 | 11 => {
                let n = self.name();
                let (ps, va) = self.params();
                Stat::FuncStat(n, ps, self.body(va, d, budget, 3))
            }
            22 => {
                let n = self.name();
                Stat::LocalAttr(n, self.expr(depth.min(2), budget))
            }
            23 => {
                let obj = self.name();
                let k = self.rng.range(1, 2);
                let colon = self.rng.chance(2, 3);
                let (ps, va) = self.params();
                Stat::Method(obj, k, colon, ps, self.body(va, d, budget, 3))
            }
            12 | 13 => {
                let v = self.name();
                let e1 = self.expr(d.min(2), budget);
                let e2 = self.expr(d.min(2), budget);
                Stat::ForNum(v, e1, e2, self.block(d, budget, 3))
            }
            14 | 15 => {
                let vs = self.names(1, 3);
                let e = self.expr(d.min(2), budget);
                Stat::ForIn(vs, e, self.block(d, budget, 3))
            }
            16 => {
                let c = self.expr(d.min(2), budget);
                Stat::While(c, self.block(d, budget, 3))
            }
            17 | 18 => {
                let b = self.block(d, budget, 3);
                Stat::Repeat(b, self.expr(d.min(2), budget))
            }
            19 => Stat::Do(self.block(d, budget, 3)),
            _ => {
                let c = self.expr(d.min(2), budget);
                let t = self.block(d, budget, 2);
                Stat::If(c, t, self.block(d, budget, 2))
            }
        }
    }
    /// a chunk of at most about `nodes` AST nodes
    pub fn program(&mut self, nodes: usize) -> Vec<Stat> {
        let mut budget = nodes as isize;
        let mut p = Vec::new();
        while budget > 0 && p.len() < 8 {
            p.push(self.stat(3, &mut budget));
        }
        p
    }
}

/// Exhaustive family (thorough tier, a slice of it in the quick tier): every chunk
/// `local x = 1; local y = 1; S1 [; S2]; z(x); z(y)` with `S1` from `shapes()` and `S2` from `leaves()`.
pub fn leaves() -> Vec<Stat> {
    use Expr::*;
    use Stat::*;
    vec![
        CallS(2, vec![Name(0)]),
        CallS(2, vec![Name(1)]),
        Assign(vec![0], vec![Name(1)]),
        Assign(vec![0, 2], vec![Name(2), Name(0)]),
        Local(vec![0], vec![Name(0)]),
        Local(vec![0], vec![Lit]),
        Local(vec![1], vec![Name(0)]),
        Local(vec![0, 0], vec![Name(0), Lit]),
        Local(vec![0, 1], vec![Name(1), Name(0)]),
        Local(vec![2], vec![]),
    ]
}

pub fn shapes() -> Vec<Stat> {
    use Expr::*;
    use Stat::*;
    let x = || Name(0);
    let y = || Name(1);
    let funcs = || {
        vec![
            Func(vec![0], vec![CallS(2, vec![x()])]),
            Func(vec![1], vec![CallS(2, vec![x()])]),
            Func(vec![], vec![Assign(vec![0], vec![x()])]),
            Func(vec![1, 1], vec![CallS(2, vec![y()])]),
            Call(2, vec![Func(vec![0], vec![]), x()]),
            Call(2, vec![Func(vec![], vec![CallS(2, vec![x(), y()])]), y()]),
        ]
    };
    let mut exprs1 = vec![x(), y(), Lit];
    exprs1.extend(funcs());
    let mut bodies: Vec<Vec<Stat>> = vec![vec![]];
    bodies.extend(leaves().into_iter().map(|s| vec![s]));
    bodies.push(vec![Local(vec![0], vec![Lit]), CallS(2, vec![x()])]);
    bodies.push(vec![Local(vec![1], vec![x()]), Repeat(vec![Local(vec![0], vec![y()])], x())]);
    let mut out = leaves();
    for b in &bodies {
        out.push(LocalFunc(0, vec![1], b.clone()));
        out.push(LocalFunc(0, vec![0], b.clone()));
        out.push(FuncStat(0, vec![1], b.clone()));
        out.push(FuncStat(2, vec![0, 0], b.clone()));
        out.push(Do(b.clone()));
        out.push(While(x(), b.clone()));
        out.push(Repeat(b.clone(), x()));
        out.push(Repeat(b.clone(), y()));
        out.push(If(x(), b.clone(), vec![CallS(2, vec![x()])]));
        out.push(If(y(), vec![Local(vec![0], vec![Lit])], b.clone()));
        out.push(ForIn(vec![0, 1], x(), b.clone()));
        out.push(ForIn(vec![0, 0], y(), b.clone()));
        out.push(Method(0, 1, true, vec![1], b.clone()));
        out.push(Method(1, 2, false, vec![SELF, 0], b.clone()));
    }
    for m in [true, false] {
        out.push(Method(0, 1, m, vec![], vec![CallS(2, vec![Name(SELF), x()])]));
        out.push(Method(2, 2, m, vec![SELF], vec![Local(vec![SELF], vec![Name(SELF)]), CallS(2, vec![Name(SELF)])]));
        out.push(Method(0, 1, m, vec![0, DOTS], vec![CallS(2, vec![Name(DOTS), Func(vec![], vec![CallS(2, vec![Name(SELF)])])])]));
    }
    out.push(LocalAttr(0, x()));
    out.push(LocalAttr(1, Func(vec![1, DOTS], vec![CallS(2, vec![y(), Name(DOTS)])])));
    out.push(Local(vec![SELF], vec![Name(SELF)]));
    out.push(CallS(2, vec![Name(DOTS), Name(SELF)]));
    for e in &exprs1 {
        for b in &bodies {
            out.push(ForNum(0, e.clone(), x(), b.clone()));
            out.push(ForNum(1, x(), e.clone(), b.clone()));
        }
    }
    for e in funcs() {
        out.push(Local(vec![0], vec![e.clone()]));
        out.push(Local(vec![0, 1], vec![e.clone(), x()]));
        out.push(Assign(vec![0], vec![e.clone()]));
        out.push(CallS(2, vec![e.clone(), x()]));
        out.push(ForIn(vec![0], e.clone(), vec![CallS(2, vec![x()])]));
        out.push(ForIn(vec![0, 1], e.clone(), vec![]));
        out.push(While(e.clone(), vec![CallS(2, vec![x()])]));
        out.push(Repeat(vec![], e.clone()));
        out.push(Repeat(vec![Local(vec![0], vec![Lit])], e.clone()));
        out.push(If(e.clone(), vec![], vec![]));
    }
    out
}

pub fn family() -> Vec<Vec<Stat>> {
    use Expr::*;
    use Stat::*;
    let pre = vec![Local(vec![0], vec![Lit]), Local(vec![1], vec![Lit])];
    let post = vec![CallS(2, vec![Name(0)]), CallS(2, vec![Name(1)])];
    let mut out = Vec::new();
    let shapes = shapes();
    for s in &shapes {
        let mut p = pre.clone();
        p.push(s.clone());
        p.extend(post.clone());
        out.push(p);
    }
    for s1 in &shapes {
        for s2 in leaves() {
            let mut p = pre.clone();
            p.push(s1.clone());
            p.push(s2);
            p.extend(post.clone());
            out.push(p);
        }
    }
    out
}

// ---------------------------------------------------------------- exhaustive enumeration by size

/// All programs with exactly `n` AST nodes (statements + expressions) over the names x, y (uses and
/// binders), callee z, binder lists from a fixed small set, at most two statements per block and two
/// arguments per call. Deterministic order.
pub struct Enum {
    exprs: Vec<Vec<Expr>>,
    stats: Vec<Vec<Stat>>,
    blocks: Vec<Vec<Vec<Stat>>>,
}

impl Enum {
    pub fn new(max: usize) -> Enum {
        let mut e = Enum { exprs: vec![vec![]], stats: vec![vec![]], blocks: vec![vec![vec![]]] };
        for n in 1..=max {
            let ex = e.gen_exprs(n);
            e.exprs.push(ex);
            let st = e.gen_stats(n);
            e.stats.push(st);
            let bl = e.gen_blocks(n);
            e.blocks.push(bl);
        }
        e
    }
    pub fn programs(&self, n: usize) -> &Vec<Vec<Stat>> {
        &self.blocks[n]
    }
    fn binders() -> Vec<Vec<Name>> {
        vec![vec![0], vec![1], vec![0, 0], vec![0, 1]]
    }
    fn params() -> Vec<Vec<Name>> {
        vec![vec![], vec![0], vec![1, DOTS]]
    }
    fn gen_exprs(&self, n: usize) -> Vec<Expr> {
        let mut out = Vec::new();
        if n == 1 {
            out.push(Expr::Name(0));
            out.push(Expr::Name(1));
            out.push(Expr::Lit);
            out.push(Expr::Call(2, vec![]));
        }
        // call with one or two arguments
        for a in 1..n {
            for e1 in &self.exprs[a] {
                if a + 1 == n {
                    out.push(Expr::Call(2, vec![e1.clone()]));
                }
                let rest = n - 1 - a;
                if rest >= 1 && rest < n {
                    for e2 in &self.exprs[rest] {
                        out.push(Expr::Call(2, vec![e1.clone(), e2.clone()]));
                    }
                }
            }
        }
        // closure
        for ps in Self::params() {
            for b in &self.blocks[n - 1] {
                out.push(Expr::Func(ps.clone(), b.clone()));
            }
        }
        out
    }
    fn gen_stats(&self, n: usize) -> Vec<Stat> {
        let mut out = Vec::new();
        let m = n - 1;
        // no sub-terms
        if m == 0 {
            for ns in Self::binders() {
                out.push(Stat::Local(ns, vec![]));
            }
            out.push(Stat::CallS(2, vec![]));
        }
        // one expression
        if m >= 1 {
            for e in &self.exprs[m] {
                out.push(Stat::Local(vec![0], vec![e.clone()]));
                out.push(Stat::Local(vec![1, 1], vec![e.clone()]));
                out.push(Stat::Assign(vec![0], vec![e.clone()]));
                out.push(Stat::CallS(2, vec![e.clone()]));
                out.push(Stat::LocalAttr(0, e.clone()));
            }
        }
        // one block
        for b in &self.blocks[m] {
            out.push(Stat::Do(b.clone()));
            for ps in Self::params() {
                out.push(Stat::LocalFunc(0, ps.clone(), b.clone()));
                out.push(Stat::FuncStat(0, ps.clone(), b.clone()));
            }
            out.push(Stat::Method(0, 1, true, vec![1], b.clone()));
            out.push(Stat::Method(1, 1, false, vec![SELF], b.clone()));
        }
        // expression + block
        for a in 1..=m {
            for e in &self.exprs[a] {
                for b in &self.blocks[m - a] {
                    out.push(Stat::While(e.clone(), b.clone()));
                    out.push(Stat::Repeat(b.clone(), e.clone()));
                    out.push(Stat::ForIn(vec![0], e.clone(), b.clone()));
                    out.push(Stat::ForIn(vec![0, 0], e.clone(), b.clone()));
                    out.push(Stat::If(e.clone(), b.clone(), vec![]));
                }
            }
        }
        // two expressions (+ block)
        for a in 1..m {
            for e1 in &self.exprs[a] {
                for c in 1..=(m - a) {
                    for e2 in &self.exprs[c] {
                        let rest = m - a - c;
                        if rest == 0 {
                            out.push(Stat::Local(vec![0, 1], vec![e1.clone(), e2.clone()]));
                            out.push(Stat::Assign(vec![0, 1], vec![e1.clone(), e2.clone()]));
                        }
                        for b in &self.blocks[rest] {
                            out.push(Stat::ForNum(0, e1.clone(), e2.clone(), b.clone()));
                        }
                    }
                }
            }
        }
        out
    }
    fn gen_blocks(&self, n: usize) -> Vec<Vec<Stat>> {
        let mut out = Vec::new();
        for s in &self.stats[n] {
            out.push(vec![s.clone()]);
        }
        for a in 1..n {
            for s1 in &self.stats[a] {
                for s2 in &self.stats[n - a] {
                    out.push(vec![s1.clone(), s2.clone()]);
                }
            }
        }
        out
    }
}
