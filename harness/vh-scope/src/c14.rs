//! C14: rename / references agree with name resolution.
//! At every declaration token and every name use of every program: the LS `rename` and `references`
//! handlers in-process (hook `emmylua_ls::verif_scope`).
//! tie    : edit positions vs the Lean model (`scope.rename` / `scope.refs`: declaration ∪ recorded
//!          references of the analyzer model).
//! oracle : edits are single-token, non-overlapping, carry the new name, equal {decl} ∪ {uses the
//!          reference resolver `LuaScope` (`scope.ref`) binds to it}; references returns the same set;
//!          applying the edits with a fresh name and re-analysing gives the same resolution structure.
use crate::ast::{self, Gen, Rendered, Stat, TokKind};
use crate::real::{self, Ws};
use lsp_types::Position;
use serde_json::json;
use std::collections::{BTreeSet, HashSet};
use vh_common::{Args, Report, Rng, run_driver};

/// the fresh name: name 9 of the model, rendered `v9`
const FRESH_ID: u32 = 9;
const FRESH: &str = "v9";

fn programs(args: &Args, report: &mut Report) -> Vec<Vec<Stat>> {
    if let Some(path) = &args.replay {
        let v: serde_json::Value = serde_json::from_str(&std::fs::read_to_string(path).expect("replay file")).expect("replay json");
        let enc = v["input"]["program"].as_str().expect("replay input.program");
        return vec![ast::decode(enc).expect("replay program decodes")];
    }
    let mut rng = Rng::new(args.seed ^ 0x14);
    let mut out = Vec::new();
    let fam = ast::family();
    let singles = ast::shapes().len();
    report.add("family_programs_total", fam.len() as u64);
    for (i, p) in fam.into_iter().enumerate() {
        let take = if args.thorough() { true } else { i < singles && i % 3 == 0 || rng.chance(1, 40) };
        if take {
            out.push(p);
        }
    }
    report.add("family_programs_run", out.len() as u64);
    let bound = if args.thorough() { 3 } else { 2 };
    let en = ast::Enum::new(bound);
    for n in 1..=bound {
        out.extend(en.programs(n).iter().cloned());
        report.add(&format!("enumerated_size_{n}"), en.programs(n).len() as u64);
    }
    report.extra.insert("exhaustive_node_bound".into(), json!(bound));
    if args.thorough() {
        report.extra.insert("exhaustive".into(), json!(true));
    }
    let (n, max_nodes) = if args.thorough() { (6_000, 30) } else { (500, 20) };
    for i in 0..n {
        let mut g = Gen { rng: &mut rng, names: 3, vararg: true };
        out.push(g.program(3 + (i % (max_nodes - 2))));
    }
    out
}

fn lsp_pos(text: &str, off: usize) -> Position {
    let before = &text[..off];
    let line = before.matches('\n').count();
    let col = off - before.rfind('\n').map(|i| i + 1).unwrap_or(0);
    Position { line: line as u32, character: col as u32 }
}

fn offset_of(text: &str, p: Position) -> Option<usize> {
    let mut line = 0u32;
    let mut start = 0usize;
    if p.line > 0 {
        for (i, c) in text.char_indices() {
            if c == '\n' {
                line += 1;
                if line == p.line {
                    start = i + 1;
                    break;
                }
            }
        }
        if line != p.line {
            return None;
        }
    }
    Some(start + p.character as usize)
}

/// token list of a text rendered by `ast::render` with other names: same token kinds and positions
fn relex(text: &str, like: &Rendered) -> Option<Rendered> {
    let mut toks = Vec::new();
    let mut i = 0usize;
    let b = text.as_bytes();
    let mut k = 0usize;
    while i < b.len() {
        if b[i].is_ascii_whitespace() {
            i += 1;
            continue;
        }
        let st = i;
        while i < b.len() && !b[i].is_ascii_whitespace() {
            i += 1;
        }
        let t = &text[st..i];
        if t == "," {
            continue;
        }
        let (pos, _, kind, _) = like.toks.get(k)?;
        toks.push((*pos, st, *kind, t.to_string()));
        k += 1;
    }
    if k != like.toks.len() {
        return None;
    }
    Some(Rendered { text: text.to_string(), toks, init_is_name: like.init_is_name.clone() })
}

fn parse_set(s: &str) -> Option<Vec<usize>> {
    let s = s.strip_prefix("ok ")?;
    if s == "global" {
        return None;
    }
    Some(s.split(',').filter(|x| !x.is_empty()).filter_map(|x| x.parse().ok()).collect())
}

pub fn run(args: &Args, report: &mut Report) {
    report.rule = "one case = one (program, name token) pair on which rename and references are requested; distinct = \
                   distinct pair; non-trivial = the token denotes a local declaration that has at least one use \
                   besides the token itself, or that shares its name with another declaration of the program"
        .into();
    let progs = programs(args, report);
    let encs: Vec<String> = progs.iter().map(|p| ast::encode(p)).collect();
    let rendered: Vec<Rendered> = progs.iter().map(|p| ast::render(p)).collect();
    // driver batch: reference resolution per program; model rename/refs per name token
    let mut reqs = Vec::new();
    let mut index = Vec::new(); // per program: (first request index, name-token indices)
    for (i, r) in rendered.iter().enumerate() {
        let first = reqs.len();
        reqs.push(format!("scope.ref {}", encs[i]));
        // every name token; `...` is not a name token (prepareRename refuses it)
        let toks: Vec<usize> = (0..r.toks.len())
            .filter(|k| matches!(r.toks[*k].2, TokKind::Decl | TokKind::Use) && r.toks[*k].3 != "...")
            .collect();
        for k in &toks {
            reqs.push(format!("scope.rename {} {}", encs[i], r.toks[*k].0));
            reqs.push(format!("scope.refs {} {}", encs[i], r.toks[*k].0));
            reqs.push(format!("scope.renamed {} {} {}", encs[i], r.toks[*k].0, FRESH_ID));
        }
        index.push((first, toks));
    }
    let answers = run_driver(&reqs);
    let mut ws = Ws::new();
    let mut seen: HashSet<(usize, usize)> = HashSet::new();
    let mut seen_prog: HashSet<&str> = HashSet::new();
    for (i, p) in progs.iter().enumerate() {
        let r = &rendered[i];
        let (first, toks) = &index[i];
        let class = ast::class_of(p);
        let spec = answers[*first].strip_prefix("ok").map(|s| s.trim()).unwrap_or("");
        // reference resolution: use position -> Some(decl) / None (global)
        let mut res: Vec<(usize, Option<usize>)> = Vec::new();
        for item in spec.split(',').filter(|x| !x.is_empty()) {
            let (u, d) = item.split_once(':').expect("res item");
            res.push((u.parse().expect("pos"), d.parse().ok()));
        }
        let first_prog = seen_prog.insert(encs[i].as_str());
        for (j, k) in toks.iter().enumerate() {
            let (pos, off, kind, name) = &r.toks[*k];
            let input = json!({"program": encs[i], "lua": r.text, "token": pos});
            let model_rename = parse_set(&answers[first + 1 + 3 * j]);
            let model_refs = parse_set(&answers[first + 2 + 3 * j]);
            let model_renamed = answers[first + 3 + 3 * j].clone();
            // what the token denotes per the reference resolver
            let target = match kind {
                TokKind::Decl => Some(*pos),
                _ => res.iter().find(|x| x.0 == *pos).and_then(|x| x.1),
            };
            report.evaluations += 1;
            // the implicit `self` of a method (declared at the `:`) has no name token: rename does not apply
            let implicit_self = target.is_some_and(|t| r.toks[(t - 2) / 2].2 == TokKind::Other);
            let target = if implicit_self { None } else { target };
            if implicit_self {
                report.count("token_use_of_implicit_self");
            }
            let expected: Option<BTreeSet<usize>> = target.map(|t| {
                let mut e: BTreeSet<usize> = res.iter().filter(|x| x.1 == Some(t)).map(|x| x.0).collect();
                e.insert(t);
                e
            });
            if first_prog && seen.insert((i, *pos)) {
                if let Some(e) = &expected {
                    let decl_names = r.toks.iter().filter(|t| t.2 == TokKind::Decl && t.3 == *name).count();
                    if e.len() > 1 && (e.len() > 2 || decl_names > 1 || *kind == TokKind::Decl) {
                        report.distinct_nontrivial += 1;
                    }
                }
            }
            match kind {
                TokKind::Decl => report.count("token_declaration"),
                _ if target.is_some() => report.count("token_use_of_local"),
                _ => report.count("token_use_of_global"),
            }
            let position = lsp_pos(&r.text, *off);
            // ---- the real handlers
            let got = {
                let wsr = std::panic::AssertUnwindSafe(&mut ws);
                let text = r.text.clone();
                vh_common::catch(move || {
                    let mut wsr = wsr;
                    let fid = wsr.load(&text);
                    let analysis = &wsr.ws.analysis;
                    let edit = emmylua_ls::verif_scope::rename(analysis, fid, position, FRESH.to_string());
                    let refs = emmylua_ls::verif_scope::references(analysis, fid, position, true);
                    let uri = analysis.get_uri(fid);
                    (edit, refs, uri)
                })
            };
            let (edit, refs, uri) = match got {
                Ok(x) => x,
                Err(panic) => {
                    report.oracle_failure(json!({"input": input, "class": class, "what": format!("rename/references panicked: {panic}")}));
                    ws = Ws::new();
                    continue;
                }
            };
            let Some(expected) = expected else {
                // a global name: outside the property (rename of globals goes through the global index)
                if model_rename.is_some() {
                    report.mismatch(json!({"input": input, "what": "model offers a rename where the reference resolver sees a global or the implicit self"}));
                }
                if implicit_self && edit.as_ref().is_some_and(|e| e.changes.iter().flatten().any(|(_, es)| !es.is_empty())) {
                    report.oracle_failure(json!({"input": input, "class": class, "what": "rename on the implicit self of a method produces edits"}));
                }
                continue;
            };
            report.traces_validated += 1;
            if target.is_some_and(|t| r.init_is_name.contains(&t)) {
                report.count("target_initialised_by_bare_name");
            }
            // ---- rename edits
            let mut edits: Vec<(usize, usize, String)> = Vec::new();
            let mut foreign = false;
            if let Some(we) = &edit {
                for (u, es) in we.changes.iter().flatten() {
                    if Some(u) != uri.as_ref() {
                        foreign = true;
                    }
                    for e in es {
                        match (offset_of(&r.text, e.range.start), offset_of(&r.text, e.range.end)) {
                            (Some(a), Some(b)) => edits.push((a, b, e.new_text.clone())),
                            _ => foreign = true,
                        }
                    }
                }
            }
            edits.sort();
            let mut problems: Vec<String> = Vec::new();
            if edit.is_none() {
                problems.push("rename returned no edit".into());
            }
            if foreign {
                problems.push("rename edits another document or a position outside the text".into());
            }
            if edits.windows(2).any(|w| w[0].1 > w[1].0) {
                problems.push("rename edits overlap".into());
            }
            if edits.iter().any(|e| e.2 != FRESH) {
                problems.push("an edit does not carry the new name".into());
            }
            let mut edit_pos: BTreeSet<usize> = BTreeSet::new();
            for (a, b, _) in &edits {
                match r.pos_of_offset(*a) {
                    Some(p) if r.toks[(p - 2) / 2].3.len() == b - a => {
                        if !edit_pos.insert(p) {
                            problems.push(format!("token {p} is edited twice"));
                        }
                    }
                    _ => problems.push(format!("edit {a}..{b} is not exactly one token")),
                }
            }
            if edit_pos != expected {
                problems.push(format!("rename edits tokens {edit_pos:?}, the declaration and its uses are {expected:?}"));
            }
            // ---- references
            let mut ref_pos: Vec<usize> = Vec::new();
            match &refs {
                None => problems.push("references returned nothing".into()),
                Some(locs) => {
                    for l in locs {
                        let a = offset_of(&r.text, l.range.start);
                        let b = offset_of(&r.text, l.range.end);
                        match (a.and_then(|a| r.pos_of_offset(a)), a, b) {
                            (Some(p), Some(a), Some(b)) if Some(&l.uri) == uri.as_ref() && r.toks[(p - 2) / 2].3.len() == b - a => ref_pos.push(p),
                            _ => problems.push(format!("reference location {:?} is not a name token of the file", l.range)),
                        }
                    }
                }
            }
            ref_pos.sort();
            let exp_vec: Vec<usize> = expected.iter().copied().collect();
            if refs.is_some() && ref_pos != exp_vec {
                problems.push(format!("references returns tokens {ref_pos:?}, the declaration and its uses are {exp_vec:?}"));
            }

            // ---- apply the edits with the fresh name, re-analyse, compare the resolution structure
            if problems.is_empty() {
                let mut text = r.text.clone();
                for (a, b, t) in edits.iter().rev() {
                    text.replace_range(*a..*b, t);
                }
                // tie: the model's renamed program (edit positions applied to the AST) is this very text,
                // and equals the α-renaming of the target declaration through the environment
                match model_renamed.strip_prefix("ok ").and_then(|x| x.split_once(' ')) {
                    Some((enc2, flag)) => {
                        let same_text = ast::decode(enc2).map(|q| ast::render(&q).text == text).unwrap_or(false);
                        if !same_text {
                            report.mismatch(json!({"input": input, "what": "text after applying the rename edits differs from the model's renamed program", "model": enc2, "impl": text}));
                        }
                        if flag != "same" {
                            report.mismatch(json!({"input": input, "what": "model: renaming by edit positions differs from α-renaming through the environment", "model": enc2}));
                        }
                    }
                    None => report.mismatch(json!({"input": input, "what": "driver rejected scope.renamed", "answer": model_renamed})),
                }
                match relex(&text, r) {
                    None => problems.push("renamed text does not have the same token structure".into()),
                    Some(r2) => {
                        let wsr = std::panic::AssertUnwindSafe(&mut ws);
                        let r2r = &r2;
                        let again = vh_common::catch(move || {
                            let mut wsr = wsr;
                            real::resolution(&mut wsr, r2r)
                        });
                        match again {
                            Ok(Ok((raw2, _))) => {
                                if raw2 != spec {
                                    problems.push(format!("after applying the rename with a fresh name the resolution changed: before (Lua scoping) {spec}, after {raw2}"));
                                }
                            }
                            Ok(Err(e)) => problems.push(format!("renamed program: {e}")),
                            Err(p) => {
                                problems.push(format!("analysis of the renamed program panicked: {p}"));
                                ws = Ws::new();
                            }
                        }
                    }
                }
            }
            if !problems.is_empty() {
                report.oracle_failure(json!({"input": input, "class": class, "what": problems.join("; "),
                    "expected": exp_vec, "rename": edit_pos, "references": ref_pos}));
            }
            // ---- tie: the Lean model of rename / references
            let real_edits: Vec<usize> = edit_pos.iter().copied().collect();
            if model_rename.as_ref() != Some(&real_edits) || foreign {
                report.mismatch(json!({"input": input, "what": "rename edit set differs from the model (declaration ∪ recorded references)",
                    "model": model_rename, "impl": real_edits}));
            }
            if refs.is_some() && model_refs.as_ref() != Some(&ref_pos) {
                report.mismatch(json!({"input": input, "what": "references differ from the model", "model": model_refs, "impl": ref_pos}));
            }
            if refs.is_none() {
                report.mismatch(json!({"input": input, "what": "references returned nothing", "model": model_refs}));
            }
            if report.samples.len() < 5 && j == 1 && i % 211 == 0 {
                report.sample(json!({"lua": r.text, "token": pos, "rename_edits": real_edits, "references": ref_pos}));
            }
        }
        report.count(match ast::size_block(p) {
            0..=10 => "nodes_00_10",
            11..=20 => "nodes_11_20",
            _ => "nodes_21_up",
        });
    }
    report.add("programs", progs.len() as u64);
    report.add("distinct_programs", seen_prog.len() as u64);
}
