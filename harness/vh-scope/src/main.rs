//! Harness binary of the scoping cluster (C13, C14).
mod ast;
mod c13;
mod c14;
mod real;

use vh_common::{Args, Report};

fn main() {
    let args = Args::parse();
    if args.prop == "probe" {
        // vh-scope probe --program <postfix>   : print the rendered text and the real resolution
        let enc = args.extra.get("program").expect("--program");
        let p = ast::decode(enc).expect("decodes");
        let r = ast::render(&p);
        println!("{}", r.text);
        let mut ws = real::Ws::new();
        println!("{:?}", real::resolution(&mut ws, &r));
        return;
    }
    vh_common::silence_panics();
    let mut report = Report::default();
    match args.prop.as_str() {
        "C13" => c13::run(&args, &mut report),
        "C14" => c14::run(&args, &mut report),
        other => {
            eprintln!("vh-scope: unknown property {other}");
            std::process::exit(2);
        }
    }
    report.write(&args.out);
}
