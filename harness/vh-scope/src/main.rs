//! Harness binary of the scoping cluster (C13, C14).
mod ast;
mod c13;
mod c14;
mod real;

use vh_common::{Args, Report};

fn main() {
    let args = Args::parse();
    if args.prop == "probe-text" {
        // vh-scope probe-text --lua <text>: name tokens, what the reference index records, rename edits
        use emmylua_parser::{LuaAstNode, LuaTokenKind};
        let text = args.extra.get("lua").expect("--lua").replace("\\n", "\n");
        let mut ws = real::Ws::new();
        let fid = ws.load(&text);
        let db = ws.ws.analysis.compilation.get_db();
        let tree = db.get_vfs().get_syntax_tree(&fid).unwrap();
        let root = tree.get_chunk_node();
        if args.extra.contains_key("tree") {
            println!("{:#?}", root.syntax());
        }
        println!("errors: {:?}", tree.get_errors().len());
        let mut decls: Vec<_> = db.get_decl_index().get_decl_tree(&fid).unwrap().get_decls().values()
            .map(|d| (u32::from(d.get_position()), d.get_name().to_string(), d.is_local(), format!("{:?}", d.get_range()))).collect();
        decls.sort();
        println!("decls: {decls:?}");
        for t in root.syntax().descendants_with_tokens().filter_map(|x| x.into_token()) {
            if t.kind() == LuaTokenKind::TkName.into() || t.kind() == LuaTokenKind::TkDots.into() {
                let d = db.get_reference_index().get_var_reference_decl(&fid, t.text_range());
                let off = u32::from(t.text_range().start()) as usize;
                let before = &text[..off];
                let pos = lsp_types::Position { line: before.matches('\n').count() as u32, character: (off - before.rfind('\n').map(|i| i + 1).unwrap_or(0)) as u32 };
                let ren = emmylua_ls::verif_scope::rename(&ws.ws.analysis, fid, pos, "NEW".into())
                    .map(|we| we.changes.into_iter().flatten().flat_map(|(_, es)| es.into_iter().map(|e| format!("{}:{}-{}:{}", e.range.start.line, e.range.start.character, e.range.end.line, e.range.end.character))).collect::<Vec<_>>());
                println!("{} @{} -> {:?} rename {:?}", t.text(), off, d.map(|d| u32::from(d.position)), ren);
            }
        }
        return;
    }
    if args.prop == "count" {
        let n: usize = args.extra.get("n").and_then(|x| x.parse().ok()).unwrap_or(4);
        let e = ast::Enum::new(n);
        for k in 1..=n {
            println!("{k}: {} programs", e.programs(k).len());
        }
        return;
    }
    if args.prop == "probe" {
        // vh-scope probe --program <postfix>   : print the rendered text and the real resolution
        let enc = args.extra.get("program").expect("--program");
        let p = ast::decode(enc).expect("decodes");
        let r = ast::render(&p);
        println!("{}", r.text);
        let mut ws = real::Ws::new();
        println!("{:?}", real::resolution(&mut ws, &r));
        return;
    }
    vh_common::silence_panics();
    let mut report = Report::default();
    match args.prop.as_str() {
        "C13" => c13::run(&args, &mut report),
        "C14" => c14::run(&args, &mut report),
        other => {
            eprintln!("vh-scope: unknown property {other}");
            std::process::exit(2);
        }
    }
    report.write(&args.out);
}
