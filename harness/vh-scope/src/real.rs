//! Running the real analyzer on a rendered program and reading back name resolution.
use crate::ast::{Rendered, TokKind};
use emmylua_code_analysis::{FileId, LuaSemanticDeclId, SemanticDeclLevel, VirtualWorkspace};
use emmylua_parser::LuaAstNode;
use rowan::{TextRange, TextSize};

pub struct Ws {
    pub ws: VirtualWorkspace,
}

impl Ws {
    pub fn new() -> Ws {
        Ws { ws: VirtualWorkspace::new() }
    }
    /// (re)define the single file of the workspace
    pub fn load(&mut self, text: &str) -> FileId {
        self.ws.def_file("p.lua", text)
    }
}

pub fn tok_range(r: &Rendered, i: usize) -> TextRange {
    let (_, off, _, text) = &r.toks[i];
    TextRange::new(TextSize::new(*off as u32), TextSize::new((*off + text.len()) as u32))
}

fn show(r: &Rendered, local: bool, decl_off: usize) -> String {
    if !local {
        return "g".into();
    }
    match r.pos_of_offset(decl_off) {
        Some(p) => p.to_string(),
        None => format!("?{decl_off}"),
    }
}

/// Resolution of every name *use*, in source order, as `pos:decl` / `pos:g` joined by `,`:
/// (a) what the reference index recorded during the decl analysis (`get_var_reference_decl`),
/// (b) what `SemanticModel::find_decl(token, NoTrace)` answers. Syntax errors are reported as Err.
pub fn resolution(w: &mut Ws, r: &Rendered) -> Result<(String, String), String> {
    let fid = w.load(&r.text);
    let comp = &w.ws.analysis.compilation;
    let db = comp.get_db();
    let tree = db.get_vfs().get_syntax_tree(&fid).ok_or("no syntax tree")?;
    if tree.has_syntax_errors() {
        return Err(format!("syntax errors in rendered program: {:?}", r.text));
    }
    let sm = comp.get_semantic_model(fid).ok_or("no semantic model")?;
    let root = sm.get_root().clone();
    let refs = db.get_reference_index();
    let mut raw = Vec::new();
    let mut sem = Vec::new();
    for (i, (pos, off, kind, text)) in r.toks.iter().enumerate() {
        if *kind != TokKind::Use {
            continue;
        }
        let range = tok_range(r, i);
        let a = match refs.get_var_reference_decl(&fid, range) {
            Some(id) => match db.get_decl_index().get_decl(&id) {
                Some(d) => show(r, d.is_local() || d.is_implicit_self(), u32::from(d.get_position()) as usize),
                None => "?nodecl".into(),
            },
            None => "g".into(),
        };
        raw.push(format!("{pos}:{a}"));
        let a = a.clone();
        let token = root
            .syntax()
            .token_at_offset(TextSize::new(*off as u32))
            .right_biased()
            .ok_or("no token")?;
        if token.text() != text || token.text_range() != range {
            return Err(format!("token mismatch at {off}: {:?} vs {:?}", token.text(), text));
        }
        // `self` answers the receiver of the method (type level) and `...` is not a name token: for those
        // two the semantic layer is not a scoping observation; only the reference index is compared
        if text == "self" || text == "..." {
            sem.push(format!("{pos}:{a}"));
            continue;
        }
        let b = match sm.find_decl(token.into(), SemanticDeclLevel::NoTrace) {
            Some(LuaSemanticDeclId::LuaDecl(id)) => match db.get_decl_index().get_decl(&id) {
                Some(d) => show(r, d.is_local() || d.is_implicit_self(), u32::from(d.get_position()) as usize),
                None => "?nodecl".into(),
            },
            Some(other) => format!("?{other:?}"),
            None => "g".into(),
        };
        sem.push(format!("{pos}:{b}"));
    }
    Ok((raw.join(","), sem.join(",")))
}
