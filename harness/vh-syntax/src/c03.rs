//! C03 — valid Lua is never reported as a syntax error.
//!
//! Tie: the Lean models `Climb` (expression parser) and `NumLex` (`lex_number`) run through `vdriver` on
//! the same generated inputs as the real `LuaParser` / `LuaLexer`; tree shape, token kind/length and the
//! accept/reject verdict are compared. Oracle (independent of the model): reference printers written from
//! the manual, the manual's numeral grammar, grammar-generated whole programs per language level, and for
//! level 5.5 the `luars` compiler as reference acceptor.
use crate::exprgen::{self, E};
use crate::progen;
use crate::strgen;
use emmylua_code_analysis::{DiagnosticCode, EmmyrcLuaVersion, VirtualWorkspace};
use emmylua_parser::{
    LexerConfig, LuaKind, LuaLanguageLevel, LuaLexer, LuaParser, LuaSyntaxKind, LuaSyntaxNode, LuaTokenKind,
    ParserConfig, Reader,
};
use serde_json::{Value, json};
use std::collections::HashSet;
use vh_common::{Args, Report, Rng, hex, run_driver};

/// record an implementation-side oracle failure; failures of one (non-null) class are listed at most three
/// times so that the report's cap is never filled by already-classified findings
fn oracle_fail(report: &mut Report, v: Value) {
    if let Some(c) = v.get("class").and_then(|c| c.as_str()) {
        let key = format!("oracle_failures_class_{c}");
        report.count(&key);
        if report.distribution.get(&key).copied().unwrap_or(0) > 3 {
            return;
        }
    }
    report.oracle_failure(v);
}

pub const STD_LEVELS: &[(&str, u8)] = &[("Lua51", 1), ("Lua52", 2), ("Lua53", 3), ("Lua54", 4), ("Lua55", 5)];

pub fn level_of(name: &str) -> LuaLanguageLevel {
    match name {
        "Lua51" => LuaLanguageLevel::Lua51,
        "Lua52" => LuaLanguageLevel::Lua52,
        "Lua53" => LuaLanguageLevel::Lua53,
        "Lua54" => LuaLanguageLevel::Lua54,
        "Lua55" => LuaLanguageLevel::Lua55,
        "LuaJIT2" => LuaLanguageLevel::LuaJIT2,
        "LuaJIT" => LuaLanguageLevel::LuaJIT,
        "LuaJIT3" => LuaLanguageLevel::LuaJIT3,
        other => panic!("unknown level {other}"),
    }
}

fn emmyrc_version(name: &str) -> EmmyrcLuaVersion {
    match name {
        "Lua51" => EmmyrcLuaVersion::Lua51,
        "Lua52" => EmmyrcLuaVersion::Lua52,
        "Lua53" => EmmyrcLuaVersion::Lua53,
        "Lua54" => EmmyrcLuaVersion::Lua54,
        "Lua55" => EmmyrcLuaVersion::Lua55,
        "LuaJIT2" => EmmyrcLuaVersion::LuaJIT2,
        "LuaJIT" => EmmyrcLuaVersion::LuaJIT,
        "LuaJIT3" => EmmyrcLuaVersion::LuaJIT3,
        other => panic!("unknown level {other}"),
    }
}

fn is_trivia(k: LuaTokenKind) -> bool {
    matches!(
        k,
        LuaTokenKind::TkWhitespace
            | LuaTokenKind::TkEndOfLine
            | LuaTokenKind::TkShortComment
            | LuaTokenKind::TkLongComment
            | LuaTokenKind::TkShebang
    )
}

const EXPR_PREFIX: &str = "local _ = ";

/// real lexer on `local _ = <text>`: non-trivia token kinds (raw discriminants) of the expression part and
/// the number of lexer errors
fn lex_kinds(text: &str, level: LuaLanguageLevel) -> (Vec<u16>, usize) {
    let mut errs = Vec::new();
    let src = format!("{EXPR_PREFIX}{text}");
    let toks = LuaLexer::new(Reader::new(&src), LexerConfig::new(level), Some(&mut errs)).tokenize();
    let kinds = toks.iter().filter(|t| !is_trivia(t.kind)).skip(3).map(|t| LuaKind::from(t.kind).get_raw()).collect();
    (kinds, errs.len())
}


pub struct RealExpr {
    pub errors: usize,
    pub first_error: String,
    pub statements: usize,
    pub exprs: Vec<LuaSyntaxNode>,
}

/// parse `local _ = <text>` with the real parser
pub fn real_expr(text: &str, level: LuaLanguageLevel) -> RealExpr {
    let src = format!("{EXPR_PREFIX}{text}");
    let tree = LuaParser::parse(&src, ParserConfig::with_level(level));
    let root = tree.get_red_root();
    let block = root.children().find(|c| c.kind().to_syntax() == LuaSyntaxKind::Block);
    let (statements, exprs) = match block {
        Some(b) => {
            let stats: Vec<LuaSyntaxNode> = b.children().filter(|c| c.kind().to_syntax() != LuaSyntaxKind::Comment).collect();
            let exprs = stats
                .first()
                .filter(|s| s.kind().to_syntax() == LuaSyntaxKind::LocalStat)
                .map(exprgen::expr_children)
                .unwrap_or_default();
            (stats.len(), exprs)
        }
        None => (0, vec![]),
    };
    RealExpr {
        errors: tree.get_errors().len(),
        first_error: tree.get_errors().first().map(|e| e.message.clone()).unwrap_or_default(),
        statements,
        exprs,
    }
}

/// per-level syntax-error diagnostics of the analysis (parser errors + `SyntaxErrorChecker` extras)
pub struct Diag {
    ws: Vec<(String, VirtualWorkspace)>,
}

impl Diag {
    pub fn new() -> Diag {
        Diag { ws: Vec::new() }
    }
    pub fn syntax_errors(&mut self, level: &str, text: &str) -> Vec<String> {
        if !self.ws.iter().any(|(l, _)| l == level) {
            let mut ws = VirtualWorkspace::new();
            let mut rc = ws.get_emmyrc();
            rc.runtime.version = emmyrc_version(level);
            ws.update_emmyrc(rc);
            ws.analysis.diagnostic.enable_only(DiagnosticCode::SyntaxError);
            self.ws.push((level.to_string(), ws));
        }
        let ws = &mut self.ws.iter_mut().find(|(l, _)| l == level).unwrap().1;
        let id = ws.def_file("c03_case.lua", text);
        let ds = ws.analysis.diagnose_file(id, tokio_util::sync::CancellationToken::new()).unwrap_or_default();
        let want = Some(lsp_types::NumberOrString::String(DiagnosticCode::SyntaxError.get_name().to_string()));
        ds.into_iter().filter(|d| d.code == want).map(|d| d.message).collect()
    }
}

/// reference acceptor for Lua 5.5: compile only, never run
pub struct Ref55 {
    lua: luars::Lua,
}

/// rejections of the reference compiler that are not about the grammar (scoping of labels / const / break)
fn semantic_rejection(msg: &str) -> bool {
    ["no visible label", "break outside", "jumps into the scope", "attempt to assign to const", "already defined",
     "too many", "overflow", "outside a vararg", "control structure too long", "chunk has too many", "not declared"]
        .iter()
        .any(|p| msg.contains(p))
}

impl Ref55 {
    pub fn new() -> Ref55 {
        Ref55 { lua: luars::Lua::new(luars::SafeOption::default()) }
    }
    /// Ok(()) accepted; Err(msg) rejected
    pub fn compile(&mut self, src: &str) -> Result<(), String> {
        let gs = self.lua.global_state_mut();
        match std::panic::catch_unwind(std::panic::AssertUnwindSafe(|| gs.compile(src).map(|_| ()))) {
            Ok(r) => r,
            Err(_) => Err("reference compiler panicked".into()),
        }
    }
}

fn kinds_arg(kinds: &[u16]) -> String {
    if kinds.is_empty() { "-".into() } else { kinds.iter().map(|k| k.to_string()).collect::<Vec<_>>().join(",") }
}

struct ExprCase {
    level: &'static str,
    text: String,
    /// intended tree when the text was printed from one (oracle)
    intended: Option<String>,
    origin: &'static str,
}

const MUT_PIECES: &[&str] = &["{", "}", "=", "function", "end", ")", "(", "+", "not", "..", ",", "]", "[", ".", ":", "x", "1", "^", "-", "==", "and", "#", "\"s\"", "nil"];

fn mutate(text: &str, rng: &mut Rng) -> String {
    let mut p: Vec<String> = text.split(' ').map(|s| s.to_string()).collect();
    let n = 1 + rng.below(2);
    for _ in 0..n {
        if p.is_empty() {
            break;
        }
        match rng.below(4) {
            0 => {
                let i = rng.below(p.len());
                p.remove(i);
            }
            1 => {
                let i = rng.below(p.len() + 1);
                p.insert(i, rng.pick(MUT_PIECES).to_string());
            }
            2 => {
                if p.len() >= 2 {
                    let i = rng.below(p.len() - 1);
                    p.swap(i, i + 1);
                }
            }
            _ => {
                let i = rng.below(p.len());
                p[i] = rng.pick(MUT_PIECES).to_string();
            }
        }
    }
    // a trailing `;` would be swallowed by the wrapping `local` statement
    while p.last().map(|x| x == ";").unwrap_or(false) {
        p.pop();
    }
    p.join(" ")
}

fn expr_input(c: &ExprCase) -> Value {
    json!({"kind": "expr", "level": c.level, "text": c.text, "text_hex": hex(&c.text)})
}

/// tie + oracle for a batch of expression cases
fn check_exprs(cases: &[ExprCase], report: &mut Report, r55: &mut Ref55, seen: &mut HashSet<String>) {
    let reqs: Vec<String> = cases
        .iter()
        .map(|c| format!("climb.parse {}", kinds_arg(&lex_kinds(&c.text, level_of(c.level)).0)))
        .collect();
    let resps = run_driver(&reqs);
    for (c, m) in cases.iter().zip(resps.iter()) {
        report.evaluations += 1;
        let level = level_of(c.level);
        let (kinds, lex_errs) = lex_kinds(&c.text, level);
        let real = match vh_common::catch(|| real_expr(&c.text, level)) {
            Ok(r) => r,
            Err(e) => {
                oracle_fail(report, json!({"input": expr_input(c), "what": format!("parser panicked: {e}"), "class": null}));
                continue;
            }
        };
        let rendered = if real.exprs.len() == 1 { exprgen::render(&real.exprs[0], false) } else { format!("?{}exprs", real.exprs.len()) };
        if kinds.len() > 2 && seen.insert(format!("{}|{}", c.level, kinds_arg(&kinds))) {
            report.distinct_nontrivial += 1;
        }
        report.count(&format!("expr_{}", c.origin));
        // ---- tie
        if lex_errs > 0 {
            // the mutation damaged a token (unfinished string …): the token-kind model is not the judge
            report.count("expr_lexer_error_not_compared");
        } else if let Some(s) = m.strip_prefix("ok ") {
            report.count("expr_model_accepts");
            if real.errors != 0 || real.statements != 1 || rendered != s {
                report.mismatch(json!({"input": expr_input(c), "model": m, "impl": {"errors": real.errors, "first_error": real.first_error,
                    "statements": real.statements, "tree": rendered}, "tie": "climb.parse vs LuaParser (tree shape, error count)"}));
            } else {
                report.traces_validated += 1;
            }
        } else if m == "err syntax" {
            report.count("expr_model_rejects");
            if real.errors == 0 && real.statements == 1 && real.exprs.len() == 1 && lex_errs == 0 {
                report.mismatch(json!({"input": expr_input(c), "model": m, "impl": {"errors": 0, "tree": rendered},
                    "tie": "climb.parse rejects, LuaParser reports no error"}));
            } else if real.errors == 0 {
                report.count("expr_escaped_wrapper");
            } else {
                report.traces_validated += 1;
            }
        } else if m == "err unsupported" {
            report.count("expr_model_unsupported");
        } else {
            report.mismatch(json!({"input": expr_input(c), "model": m, "tie": "climb.parse: unexpected driver answer"}));
        }
        // ---- oracle 1: the manual's precedence (printed from an abstract tree)
        if let Some(want) = &c.intended {
            let erased = if real.exprs.len() == 1 { exprgen::render(&real.exprs[0], true) } else { rendered.clone() };
            if real.errors != 0 {
                oracle_fail(report, json!({"input": expr_input(c), "class": null,
                    "what": format!("valid {} expression reported as syntax error: {}", c.level, real.first_error)}));
            } else if &erased != want {
                oracle_fail(report, json!({"input": expr_input(c), "class": null,
                    "what": format!("expression groups as {erased}, the manual's precedence gives {want}")}));
            }
        }
        // ---- oracle 2: reference compiler at level 5.5
        if c.level == "Lua55" {
            let src = format!("{EXPR_PREFIX}{}", c.text);
            match r55.compile(&src) {
                Ok(()) => {
                    report.count("expr_ref55_accepts");
                    if real.errors != 0 && c.intended.is_none() && real.first_error.contains("expected function name") {
                        // luars accepts `function <non-name> … end` as a statement (PUC-Lua: "<name> expected"); the
                        // reference is wrong here, not the parser
                        report.count("expr_ref55_lenient_function_name_skipped");
                    } else if real.errors != 0 {
                        oracle_fail(report, json!({"input": expr_input(c), "class": null,
                            "what": format!("the Lua 5.5 reference compiler accepts it, the parser reports: {}", real.first_error)}));
                    }
                }
                Err(msg) => {
                    report.count("expr_ref55_rejects");
                    if semantic_rejection(&msg) {
                        report.count("expr_ref55_semantic_rejection_skipped");
                    } else if real.errors == 0 {
                        oracle_fail(report, json!({"input": expr_input(c), "class": null,
                            "what": format!("the Lua 5.5 reference compiler rejects it ({msg}), the parser reports no syntax error")}));
                    }
                }
            }
        }
        if c.intended.is_some() {
            report.sample(json!({"expr": c.text, "level": c.level, "model": m, "impl_tree": rendered}));
        }
    }
}

fn gen_expr_cases(rng: &mut Rng, n: usize, out: &mut Vec<ExprCase>) {
    for i in 0..n {
        let (lname, lv) = STD_LEVELS[i % STD_LEVELS.len()];
        let depth = 1 + rng.below(5);
        let e = exprgen::gen_expr(rng, depth, lv);
        let want = e.erase().sexpr();
        for mode in 0..3u8 {
            let text = e.print(mode, rng);
            out.push(ExprCase { level: lname, text, intended: Some(want.clone()), origin: ["minimal", "full", "redundant"][mode as usize] });
        }
        let base = e.print(0, rng);
        for _ in 0..2 {
            out.push(ExprCase { level: lname, text: mutate(&base, rng), intended: None, origin: "mutated" });
        }
    }
}

/// all expressions over a tiny alphabet up to a token budget (thorough tier): every operator pair
fn exhaustive_pairs(out: &mut Vec<ExprCase>) {
    let n = exprgen::BINOPS.len();
    let a = || Box::new(E::Name("a"));
    for i in 0..n {
        for j in 0..n {
            let e1 = E::Bin(i, Box::new(E::Bin(j, a(), a())), a());
            let e2 = E::Bin(i, a(), Box::new(E::Bin(j, a(), a())));
            for e in [e1, e2] {
                let mut rng = Rng::new(0);
                out.push(ExprCase { level: "Lua54", text: e.print(0, &mut rng), intended: Some(e.sexpr()), origin: "pairs" });
            }
        }
        for u in 0..exprgen::UNOPS.len() {
            let e1 = E::Bin(i, Box::new(E::Un(u, a())), a());
            let e2 = E::Bin(i, a(), Box::new(E::Un(u, a())));
            let e3 = E::Un(u, Box::new(E::Bin(i, a(), a())));
            for e in [e1, e2, e3] {
                let mut rng = Rng::new(0);
                out.push(ExprCase { level: "Lua54", text: e.print(0, &mut rng), intended: Some(e.sexpr()), origin: "pairs" });
            }
        }
    }
}

// ------------------------------------------------------------------------------------------ numerals

struct NumCase {
    level: &'static str,
    text: String,
    /// Some(true): a numeral of the manual's grammar followed by a non-continuing char; Some(false): malformed
    /// per the reference lexer; None: unknown (tie only)
    valid: Option<bool>,
    /// length of the numeral inside `text` when valid
    len: usize,
    /// "Int" / "Float" when valid
    kind: &'static str,
}

fn digits(rng: &mut Rng, hexd: bool, min: usize) -> String {
    let n = rng.range(min, min + 3);
    let pool: &[u8] = if hexd { b"0123456789abcdefABCDEF" } else { b"0123456789" };
    (0..n).map(|_| *rng.pick(pool) as char).collect()
}

/// a numeral of the manual's grammar; returns (text, is_float)
fn ref_numeral(rng: &mut Rng, allow_hex_float: bool) -> (String, bool) {
    let hexn = rng.chance(1, 3);
    let mut s = String::new();
    let mut float = false;
    if hexn {
        s.push_str(if rng.chance(1, 2) { "0x" } else { "0X" });
    }
    let shape = if hexn && !allow_hex_float { 0 } else { rng.below(3) };
    match shape {
        0 => s.push_str(&digits(rng, hexn, 1)),
        1 => {
            s.push_str(&digits(rng, hexn, 1));
            s.push('.');
            s.push_str(&digits(rng, hexn, 0));
            float = true;
        }
        _ => {
            s.push('.');
            s.push_str(&digits(rng, hexn, 1));
            float = true;
        }
    }
    if (!hexn || allow_hex_float) && rng.chance(1, 3) {
        s.push(if hexn { *rng.pick(&['p', 'P']) } else { *rng.pick(&['e', 'E']) });
        match rng.below(3) {
            0 => s.push('+'),
            1 => s.push('-'),
            _ => {}
        }
        s.push_str(&digits(rng, false, 1));
        float = true;
    }
    (s, float)
}

const NUM_FOLLOW: &[&str] = &["", " ", ")", "+1", "-", ",", ";", "]", "\n", "==", "//", "~", "="];
const NUM_MALFORMED: &[&str] = &[
    "3e", "3e+", "3E-", "0x", "0X", "0xg", "3x", "1..2", "0x1p", "0x1P-", "1e5e5", "1.5.2", "0x1.8p2.5", "1_000", "12abc", "0x.p1",
    "1e+x", ".5e", "0b102", "1f", "0xAp", "5..",
];

fn gen_num_cases(rng: &mut Rng, n: usize, out: &mut Vec<NumCase>) {
    for i in 0..n {
        let (lname, lv) = STD_LEVELS[i % STD_LEVELS.len()];
        let (num, float) = ref_numeral(rng, lv >= 2);
        let follow = *rng.pick(NUM_FOLLOW);
        out.push(NumCase { level: lname, text: format!("{num}{follow}"), valid: Some(true), len: num.len(), kind: if float { "Float" } else { "Int" } });
        if i % 4 == 0 {
            // numeral glued to a letter / further numeral characters: tie only
            let glue = *rng.pick(&["e", "x", "p", ".", "..", "_", "z", "f", "i", "LL", "e+", "E-", "P", "G"]);
            out.push(NumCase { level: lname, text: format!("{num}{glue}{}", rng.pick(&["", "1", " "])), valid: None, len: 0, kind: "" });
        }
    }
    for (i, m) in NUM_MALFORMED.iter().enumerate() {
        let (lname, _) = STD_LEVELS[i % STD_LEVELS.len()];
        out.push(NumCase { level: lname, text: m.to_string(), valid: Some(false), len: 0, kind: "" });
    }
    // all levels incl. the LuaJIT dialects: tie only
    for l in ["LuaJIT2", "LuaJIT", "LuaJIT3"] {
        for t in ["0b101", "0b12", "1_000", "10LL", "0xffULL", "12i", "1.5i", "0x10i", "3e5LL", "0_1", "1__2e1_0", "0b1_0", "7ull "] {
            out.push(NumCase { level: match l { "LuaJIT2" => "LuaJIT2", "LuaJIT" => "LuaJIT", _ => "LuaJIT3" }, text: t.to_string(), valid: None, len: 0, kind: "" });
        }
    }
}

fn num_input(c: &NumCase) -> Value {
    json!({"kind": "numeral", "level": c.level, "text": c.text, "text_hex": hex(&c.text)})
}

fn cfg_bits(level: LuaLanguageLevel) -> String {
    use emmylua_parser::LuaFeatures as F;
    let c = LexerConfig::new(level);
    [F::BinaryInteger, F::UnderscoreNumber, F::ComplexNumber, F::LLInteger].iter().map(|f| if c.support(*f) { '1' } else { '0' }).collect()
}

fn check_nums(cases: &[NumCase], report: &mut Report, diag: &mut Diag, seen: &mut HashSet<String>) {
    let reqs: Vec<String> = cases.iter().map(|c| format!("climb.numlex {} {}", cfg_bits(level_of(c.level)), hex(&c.text))).collect();
    let resps = run_driver(&reqs);
    for (c, m) in cases.iter().zip(resps.iter()) {
        report.evaluations += 1;
        report.count(match c.valid { Some(true) => "num_valid", Some(false) => "num_malformed", None => "num_tie_only" });
        let level = level_of(c.level);
        let mut errs = Vec::new();
        let toks = LuaLexer::new(Reader::new(&c.text), LexerConfig::new(level), Some(&mut errs)).tokenize();
        let Some(first) = toks.first() else {
            report.mismatch(json!({"input": num_input(c), "model": m, "impl": "no token", "tie": "climb.numlex"}));
            continue;
        };
        // errors raised while lexing the first token: those whose range is the first token's
        let first_errs = errs.iter().filter(|e| usize::from(e.range.start()) == first.range.start_offset && usize::from(e.range.end()) == first.range.end_offset()).count();
        let chars = c.text[first.range.start_offset..first.range.end_offset()].chars().count();
        let imp = format!("ok {:?} {} {}", first.kind, chars, if first_errs > 0 { 1 } else { 0 });
        if &imp != m {
            report.mismatch(json!({"input": num_input(c), "model": m, "impl": imp, "tie": "climb.numlex vs LuaLexer (kind, chars, error)"}));
        } else {
            report.traces_validated += 1;
        }
        if seen.insert(format!("num|{}|{}", c.level, c.text)) && c.text.len() > 1 {
            report.distinct_nontrivial += 1;
        }
        // oracle
        match c.valid {
            Some(true) => {
                let want_kind = if c.kind == "Int" { LuaTokenKind::TkInt } else { LuaTokenKind::TkFloat };
                if first.kind != want_kind || first.range.length != c.len || first_errs != 0 {
                    oracle_fail(report, json!({"input": num_input(c), "class": null,
                        "what": format!("numeral {:?} of the manual's grammar lexed as {:?} of {} bytes with {} error(s); expected one {:?} token of {} bytes, no error",
                            &c.text[..c.len], first.kind, first.range.length, first_errs, want_kind, c.len)}));
                }
            }
            Some(false) => {
                let src = format!("{EXPR_PREFIX}{}", c.text);
                let d = diag.syntax_errors(c.level, &src);
                if d.is_empty() {
                    let class = malformed_class(&c.text);
                    oracle_fail(report, json!({"input": num_input(c), "class": class,
                        "what": format!("malformed numeral {:?} (rejected by the reference lexer: malformed number) produces no syntax-error diagnostic at {}", c.text, c.level)}));
                }
            }
            None => {}
        }
    }
}

/// classifier of malformed numerals (computed from the input text only)
pub fn malformed_class(text: &str) -> Value {
    let t = text.trim();
    let lower = t.to_ascii_lowercase();
    let is_hex = lower.starts_with("0x");
    let body = if is_hex { &lower[2..] } else { &lower[..] };
    let expo = if is_hex { 'p' } else { 'e' };
    if let Some(pos) = body.find(expo) {
        let after = body[pos + 1..].trim_start_matches(['+', '-']);
        if !after.starts_with(|c: char| c.is_ascii_digit()) {
            return json!("numeral-exponent-without-digits");
        }
    }
    if is_hex && !body.starts_with(|c: char| c.is_ascii_hexdigit()) && !(body.starts_with('.') && body[1..].starts_with(|c: char| c.is_ascii_hexdigit())) {
        return json!("hex-numeral-without-digits");
    }
    Value::Null
}

// ------------------------------------------------------------------------------------------ strings / comments

struct StrCase {
    level: &'static str,
    text: String,
    valid: Option<bool>,
    why: &'static str,
}

fn str_input(c: &StrCase) -> Value {
    json!({"kind": "literal", "level": c.level, "text": c.text, "text_hex": hex(&c.text), "expect": match c.valid { Some(true) => "accept", Some(false) => "reject", None => "" }})
}

fn check_strs(cases: &[StrCase], report: &mut Report, diag: &mut Diag, r55: &mut Ref55, seen: &mut HashSet<String>) {
    let mut reqs: Vec<String> = Vec::new();
    for c in cases {
        reqs.push(format!("climb.strlex {} {}", level_of(c.level) as usize, hex(&c.text)));
    }
    let resps = run_driver(&reqs);
    let mut chk_reqs: Vec<String> = Vec::new();
    let mut chk_idx: Vec<(usize, bool)> = Vec::new();
    for (ci, (c, m)) in cases.iter().zip(resps.iter()).enumerate() {
        report.evaluations += 1;
        report.count(match c.valid { Some(true) => "lit_valid", Some(false) => "lit_invalid", None => "lit_tie_only" });
        let level = level_of(c.level);
        let mut errs = Vec::new();
        let toks = LuaLexer::new(Reader::new(&c.text), LexerConfig::new(level), Some(&mut errs)).tokenize();
        let Some(first) = toks.first() else { continue };
        let first_errs = errs.iter().filter(|e| usize::from(e.range.start()) == first.range.start_offset).count();
        let chars = c.text[first.range.start_offset..first.range.end_offset()].chars().count();
        let kind = match first.kind {
            LuaTokenKind::TkString => "string",
            LuaTokenKind::TkLongString => "longstring",
            LuaTokenKind::TkLeftBracket => "leftbracket",
            LuaTokenKind::TkShortComment => "shortcomment",
            LuaTokenKind::TkLongComment => "longcomment",
            _ => "other",
        };
        let imp = format!("ok {kind} {chars} {}", if first_errs > 0 { 1 } else { 0 });
        if &imp != m {
            report.mismatch(json!({"input": str_input(c), "model": m, "impl": imp, "tie": "climb.strlex vs LuaLexer (kind, chars, error)"}));
        } else {
            report.traces_validated += 1;
        }
        if seen.insert(format!("lit|{}|{}", c.level, c.text)) && c.text.chars().count() > 3 {
            report.distinct_nontrivial += 1;
        }
        if first.kind == LuaTokenKind::TkString && first_errs == 0 {
            // escape check of the syntax-error checker on the complete token
            let tok = &c.text[first.range.start_offset..first.range.end_offset()];
            let src = format!("{EXPR_PREFIX}{tok}");
            let d = diag.syntax_errors(c.level, &src);
            let real = d.iter().any(|m| m.contains("escape sequence"));
            chk_reqs.push(format!("climb.strcheck {} {}", level_of(c.level) as usize, hex(tok)));
            chk_idx.push((ci, real));
        }
        // ---- oracle
        if let Some(valid) = c.valid {
            let src = format!("{EXPR_PREFIX}{}", c.text);
            let d = diag.syntax_errors(c.level, &src);
            let mut valid = valid;
            if c.level == "Lua55" {
                // the reference compiler decides at 5.5
                match r55.compile(&src) {
                    Ok(()) => {
                        if !valid {
                            report.count("lit_ref55_accepts_generator_invalid");
                        }
                        valid = true;
                    }
                    Err(msg) => {
                        if valid {
                            report.count("lit_ref55_rejects_generator_valid");
                            if report.notes.len() < 12 {
                                report.notes.push(format!("5.5 reference rejects a literal the generator calls valid ({msg}): {:?}", c.text));
                            }
                        }
                        valid = false;
                    }
                }
            }
            if valid && !d.is_empty() {
                oracle_fail(report, json!({"input": str_input(c), "class": null,
                    "what": format!("valid {} literal ({}) reported as syntax error: {}", c.level, c.why, d[0])}));
            } else if !valid && d.is_empty() {
                oracle_fail(report, json!({"input": str_input(c), "class": null,
                    "what": format!("invalid {} literal ({}) produces no syntax-error diagnostic", c.level, c.why)}));
            }
        }
        if report.samples.len() < 8 && ci % 997 == 3 {
            report.sample(json!({"literal": c.text, "level": c.level, "model": m}));
        }
    }
    if !chk_reqs.is_empty() {
        let r = run_driver(&chk_reqs);
        for ((ci, real), m) in chk_idx.iter().zip(r.iter()) {
            let want = if *real { "ok 1" } else { "ok 0" };
            if m != want {
                report.mismatch(json!({"input": str_input(&cases[*ci]), "model": m, "impl": want, "tie": "climb.strcheck vs check_normal_string_error (escape diagnostics)"}));
            } else {
                report.traces_validated += 1;
            }
        }
    }
}

fn gen_str_cases(rng: &mut Rng, n: usize, out: &mut Vec<StrCase>) {
    for i in 0..n {
        let (lname, lv) = STD_LEVELS[i % STD_LEVELS.len()];
        let follow = *rng.pick(&["", " ", "\n", ")", " .. x", ":len()"]);
        match rng.below(10) {
            0..=5 => {
                let l = strgen::short_string(rng, lv);
                out.push(StrCase { level: lname, text: l.text, valid: l.valid, why: l.why });
            }
            6..=8 => {
                let l = strgen::long_bracket(rng);
                let valid = l.valid;
                out.push(StrCase { level: lname, text: if valid == Some(true) && follow != ")" { format!("{}{}", l.text, if follow == " .. x" || follow == ":len()" { "" } else { follow }) } else { l.text }, valid, why: l.why });
            }
            _ => out.push(StrCase { level: lname, text: strgen::comment(rng), valid: None, why: "comment" }),
        }
    }
}

// ------------------------------------------------------------------------------------------ programs

fn prog_input(level: &str, text: &str, expect: &str) -> Value {
    json!({"kind": "program", "level": level, "text": text, "text_hex": hex(text), "expect": expect})
}

fn check_program(level: &'static str, text: &str, expect: &str, why: &str, use_diag: bool, report: &mut Report, diag: &mut Diag, r55: &mut Ref55) {
    report.evaluations += 1;
    let lvl = level_of(level);
    let t2 = text.to_string();
    let parsed = vh_common::catch(move || {
        let tree = LuaParser::parse(&t2, ParserConfig::with_level(lvl));
        tree.get_errors().iter().map(|e| e.message.clone()).collect::<Vec<_>>()
    });
    let mut errors = match parsed {
        Ok(e) => e,
        Err(p) => {
            oracle_fail(report, json!({"input": prog_input(level, text, expect), "what": format!("parser panicked: {p}"), "class": null}));
            return;
        }
    };
    if use_diag {
        let d = diag.syntax_errors(level, text);
        report.count("program_diagnosed");
        if errors.is_empty() {
            errors = d;
        }
    }
    // the reference compiler cross-checks the generator at 5.5 ("reject!" = certain by the manuals: luars, which
    // e.g. accepts `function <reserved word>() end`, is not asked)
    let sure_reject = expect == "reject!";
    let mut expect = if sure_reject { "reject".to_string() } else { expect.to_string() };
    if level == "Lua55" && sure_reject {
        if r55.compile(text).is_ok() {
            report.count("program_ref55_accepts_a_certainly_invalid_program");
        }
    } else if level == "Lua55" {
        match r55.compile(text) {
            Ok(()) => {
                if expect == "reject" {
                    report.count("program_ref55_accepts_mutant");
                    expect = "accept".into(); // the mutation happened to keep the program valid
                }
            }
            Err(msg) => {
                if expect == "accept" {
                    if semantic_rejection(&msg) {
                        report.count("program_ref55_semantic_rejection_skipped");
                        return;
                    }
                    report.count("program_generator_vs_ref55_disagree");
                    report.notes.push(format!("generator emitted a program the 5.5 reference rejects ({msg}): {}", text.replace('\n', "\\n")));
                    return;
                } else if expect == "maybe" {
                    if semantic_rejection(&msg) {
                        return;
                    }
                    expect = "reject".into();
                }
            }
        }
        if expect == "maybe" {
            expect = "accept".into();
        }
    }
    match expect.as_str() {
        "accept" => {
            report.count(&format!("program_valid_{level}"));
            if let Some(e) = errors.first() {
                oracle_fail(report, json!({"input": prog_input(level, text, "accept"), "class": null,
                    "what": format!("valid {level} program ({why}) reported as syntax error: {e}")}));
            }
        }
        "reject" => {
            report.count(&format!("program_invalid_{level}"));
            if errors.is_empty() {
                oracle_fail(report, json!({"input": prog_input(level, text, "reject"), "class": null,
                    "what": format!("invalid {level} program ({why}) produces no syntax error")}));
            }
        }
        _ => {
            report.count("program_unknown_validity_skipped");
        }
    }
}

/// one replayable input (`--replay` file or corpus entry)
fn run_input(input: &Value, report: &mut Report, diag: &mut Diag, r55: &mut Ref55, seen: &mut HashSet<String>) {
    let level: &'static str = STD_LEVELS.iter().map(|x| x.0).chain(["LuaJIT2", "LuaJIT", "LuaJIT3"]).find(|l| Some(*l) == input.get("level").and_then(|x| x.as_str())).unwrap_or("Lua55");
    let text = input.get("text").and_then(|x| x.as_str()).unwrap_or("").to_string();
    let expect = input.get("expect").and_then(|x| x.as_str()).unwrap_or("").to_string();
    match input.get("kind").and_then(|x| x.as_str()) {
        Some("expr") => check_exprs(&[ExprCase { level, text, intended: None, origin: "replay" }], report, r55, seen),
        Some("numeral") => {
            let malformed = expect == "reject" || !malformed_class(&text).is_null();
            let valid = if malformed { Some(false) } else { None };
            check_nums(&[NumCase { level, text, valid, len: 0, kind: "" }], report, diag, seen);
        }
        Some("literal") => {
            let valid = match expect.as_str() { "accept" => Some(true), "reject" => Some(false), _ => None };
            check_strs(&[StrCase { level, text, valid, why: "replay" }], report, diag, r55, seen);
        }
        Some("program") => {
            let expect = if expect.is_empty() { "accept".to_string() } else { expect };
            check_program(level, &text, &expect, "replay", true, report, diag, r55);
        }
        _ => report.notes.push("replay input has no recognised kind".into()),
    }
}

pub fn run(args: &Args, report: &mut Report) {
    let thorough = args.thorough();
    let mut rng = Rng::new(args.seed);
    let mut diag = Diag::new();
    let mut r55 = Ref55::new();
    let mut seen = HashSet::new();
    report.rule = "expression cases: distinct (level, non-trivia token-kind sequence) with more than 2 tokens; numerals: distinct texts of more than one char; programs are counted in evaluations only".into();

    if let Some(path) = &args.replay {
        let v: Value = serde_json::from_str(&std::fs::read_to_string(path).expect("replay file")).expect("replay json");
        run_input(&v.get("input").cloned().unwrap_or(Value::Null), report, &mut diag, &mut r55, &mut seen);
        return;
    }

    // 0. corpus: inputs of past (fixed) failures, replayed first
    let mut corpus: Vec<_> = std::fs::read_dir("/verif/corpus/C03").map(|d| d.filter_map(|e| e.ok()).map(|e| e.path()).collect()).unwrap_or_default();
    corpus.sort();
    for path in corpus {
        if let Ok(text) = std::fs::read_to_string(&path) {
            if let Ok(v) = serde_json::from_str::<Value>(&text) {
                run_input(&v.get("input").cloned().unwrap_or(Value::Null), report, &mut diag, &mut r55, &mut seen);
                report.count("corpus_cases");
            }
        }
    }

    // 1. expressions
    let mut cases = Vec::new();
    exhaustive_pairs(&mut cases);
    gen_expr_cases(&mut rng, if thorough { 40_000 } else { 1_000 }, &mut cases);
    for chunk in cases.chunks(5_000) {
        check_exprs(chunk, report, &mut r55, &mut seen);
    }

    // 2. numerals
    let mut nums = Vec::new();
    gen_num_cases(&mut rng, if thorough { 100_000 } else { 5_000 }, &mut nums);
    for chunk in nums.chunks(10_000) {
        check_nums(chunk, report, &mut diag, &mut seen);
    }

    // 2b. string literals, long brackets, comments
    let mut strs = Vec::new();
    gen_str_cases(&mut rng, if thorough { 60_000 } else { 3_000 }, &mut strs);
    for chunk in strs.chunks(5_000) {
        check_strs(chunk, report, &mut diag, &mut r55, &mut seen);
    }

    // 3. whole programs (search only: the statement grammar is not modelled)
    let n_prog = if thorough { 6_000 } else { 400 };
    for i in 0..n_prog {
        let (lname, lv) = STD_LEVELS[i % STD_LEVELS.len()];
        let p = progen::gen_program(&mut rng, lv);
        let use_diag = i % 4 == 0;
        check_program(lname, &p, "accept", "grammar-generated", use_diag, report, &mut diag, &mut r55);
        if report.samples.len() < 5 && i % 97 == 0 {
            report.sample(json!({"program": p, "level": lname}));
        }
        // injected errors
        for (m, why, sure) in progen::inject(&p, &mut rng, lv) {
            let expect = if sure { "reject" } else { "maybe" };
            check_program(lname, &m, expect, why, false, report, &mut diag, &mut r55);
        }
        // constructs of later versions must be rejected at this level
        for (m, why) in progen::too_new(&mut rng, lv) {
            check_program(lname, &m, "reject", why, false, report, &mut diag, &mut r55);
        }
    }
    // 3b. words that are reserved at some level and identifiers at another, in every name position
    for (lname, lv) in STD_LEVELS.iter().copied() {
        for (text, expect, why) in progen::soft_word_cases(lv) {
            report.count(&format!("softword_{}", expect.trim_end_matches('!')));
            check_program(lname, &text, expect, &why, true, report, &mut diag, &mut r55);
        }
    }
    // 3c. the bundled standard-library annotation files must stay free of syntax-error diagnostics at every level
    fn lua_files(dir: &std::path::Path, out: &mut Vec<std::path::PathBuf>) {
        if let Ok(rd) = std::fs::read_dir(dir) {
            let mut es: Vec<_> = rd.filter_map(|e| e.ok()).map(|e| e.path()).collect();
            es.sort();
            for p in es {
                if p.is_dir() {
                    lua_files(&p, out);
                } else if p.extension().map(|x| x == "lua").unwrap_or(false) {
                    out.push(p);
                }
            }
        }
    }
    let mut std_files = Vec::new();
    lua_files(std::path::Path::new("/repo/crates/emmylua_code_analysis/resources/std"), &mut std_files);
    for path in &std_files {
        let Ok(text) = std::fs::read_to_string(path) else { continue };
        for level in ["Lua51", "Lua52", "Lua53", "Lua54", "Lua55", "LuaJIT2", "LuaJIT", "LuaJIT3"] {
            report.evaluations += 1;
            report.count("std_annotation_file_x_level");
            let d = diag.syntax_errors(level, &text);
            if let Some(first) = d.first() {
                oracle_fail(report, json!({"input": {"kind": "std-file", "level": level, "path": path.to_string_lossy()}, "class": null,
                    "what": format!("bundled std annotation file {} gets a syntax-error diagnostic at {level}: {first}", path.display())}));
            }
        }
    }
    report.notes.push("reference acceptor: luars (Lua 5.5 compiler, compile only) for level 5.5; for 5.1-5.4 no reference binary exists in the sandbox, the generator emits only constructs of that level and injected errors are limited to mutations that are invalid in every version".into());
    report.extra.insert("exhaustive".into(), json!(false));
}
