//! C37 — doc-comment markup highlighting is total and in bounds.
//!
//! Oracle (implementation only): `emmylua_parser_desc::parse` under `catch_unwind` on generated comment
//! bodies × 3 flavours × cursor positions: no panic, every item range inside the description, on char
//! boundaries, output sorted by `sort_result`'s key.
//! Tie: the Lean `Markup` model vs the real `desc_to_lines`, `ResultContainer::emit_range`, `sort_result`
//! (hook `emmylua_parser_desc::verif`).
use emmylua_parser::{
    LuaAstNode, LuaDocDescription, LuaKind, LuaParser, LuaSyntaxElement, LuaTokenKind, ParserConfig, SourceRange,
};
use emmylua_parser_desc::{
    CodeBlockHighlightKind, DescItem, DescItemKind, DescParserType, ResultContainer, parse,
    verif::{desc_to_lines, sort_result},
};
use rowan::{Direction, TextRange, TextSize};
use serde_json::{Value, json};
use std::collections::HashSet;
use vh_common::{Args, Report, Rng, hex, run_driver};

const PIECES: &[&str] = &[
    "```lua", "```", "~~~", "````", "local x = 1", "print('hi') -- c", ":::{note}", ":::", "```{code-block} lua",
    "{lua:func}`a.b`", "{func}`a.b.c`", ":lua:func:`a.b`", ":func:`x`", ":obj:`~a.b`", "`code`", "``x``", "`unterminated",
    "*em*", "**strong**", "***both***", "_x_", "__y__", "**unterminated", "*a **b* c**", "[link](http://x.y)",
    "[ref][1]", "<http://x>", "![img](a.png)", "| a | b |", "|---|---|", "> quote", ">> nested", "- item", "* item",
    "1. item", "    indented code", "\tTabbed", ".. code-block:: lua", ".. note::", ".. lua:function:: f(x)", "   :param: x",
    "   :type x: int", "Title", "=====", "-----", "~~~~~", "$x^2$", "$$", "\\*esc\\*", "@see a.b", "{@link foo.bar}",
    "{@link foo.bar|text}", "a.b.c", "foo:bar()", "中文 文本", "😀 emoji 😀", "é ß ñ", "\u{a0}nbsp\u{a0}", "x\u{2028}y", "  ",
    "\t", "#", "## Heading", "Setext", "<div>html</div>", "&amp;", "term\n---    : definition", "|", "`", "*", "_", "[", "](",
    ".. _target:", "`link`_", "`text <http://x>`__", "|subst|", "::", "text::", "+---+---+", "| x | y |", "======= =====",
    "[^1]", "[^1]: note", "{#id .class}", "$", "\\", "--", "---", "----",
    // nested emphasis and emphasis around code spans
    "*outer **inner** outer*", "**bold `code` bold**", "*`code`*", "_a *b* c_", "**a *b `c` d* e**", "***x** y*",
    "*a `b` c* d **e**", "__u _v_ w__", "**`x`**", "*em **strong `code`** em*", "`code *not em*`", "*a* **b** `c` *d*",
];

/// single-paragraph descriptions (no block construct, hence no Scope item): nested emphasis, emphasis around
/// code spans, several inline constructs in a row
const PARAGRAPHS: &[&str] = &[
    "*outer **inner** outer*", "**bold `code` bold** and *em*", "*`code`* then **`x`**", "**a *b `c` d* e**",
    "text *a `b` c* d **e** `f`", "_a *b* c_ __d__", "***x** y* z", "*a* **b** `c` *d* **e**", "**s *e `c` e* s** tail `t`",
    "{lua:obj}`a.b` *em* **st**", ":lua:obj:`a.b` *em* **st**", "see `a.b` and *`c`* [l](u) **x**",
];

const TAGS: &[&str] = &[
    "---@param x integer ", "---@return integer # ", "---@class A ", "---@field f string ", "---@type string ", "---@see a.b ",
    "---@deprecated ", "---@alias Al A|B ", "---@generic T ",
];

fn gen_source(rng: &mut Rng) -> String {
    let mut s = String::new();
    if rng.chance(1, 5) {
        // one or two plain paragraph lines only
        for _ in 0..rng.range(1, 2) {
            s.push_str("--- ");
            s.push_str(*rng.pick(PARAGRAPHS));
            if rng.chance(1, 2) {
                s.push(' ');
                s.push_str(*rng.pick(PARAGRAPHS));
            }
            s.push('\n');
        }
        s.push_str("local x = 1\n");
        return s;
    }
    if rng.chance(1, 6) {
        s.push_str("local a = 1\n");
    }
    let blocks = 1 + rng.below(2);
    for _ in 0..blocks {
        let n = 1 + rng.below(7);
        let indent = if rng.chance(1, 5) { "  " } else { "" };
        for _ in 0..n {
            s.push_str(indent);
            let start = match rng.below(14) {
                0 => "--",
                1 => "----",
                2 => "--- ",
                3 => "---\t",
                4 => "---  ",
                5 => *rng.pick(TAGS),
                6 => "---@",
                _ => "---",
            };
            s.push_str(start);
            let k = rng.below(5);
            for i in 0..k {
                if i > 0 || rng.chance(1, 2) {
                    s.push(' ');
                }
                s.push_str(*rng.pick(PIECES));
            }
            if rng.chance(1, 8) {
                s.push_str("   ");
            }
            s.push_str(if rng.chance(1, 10) { "\r\n" } else { "\n" });
        }
        match rng.below(4) {
            0 => s.push_str("local function f(x) end\n\n"),
            1 => s.push_str("M.field = 1\n"),
            2 => s.push('\n'),
            _ => s.push_str("local t = {}\n"),
        }
    }
    if rng.chance(1, 12) {
        // no trailing newline / comment at end of file
        while s.ends_with('\n') {
            s.pop();
        }
    }
    s
}

fn kind_num(k: &DescItemKind) -> usize {
    match k {
        DescItemKind::Scope => 0,
        DescItemKind::Ref => 1,
        DescItemKind::Em => 2,
        DescItemKind::Strong => 3,
        DescItemKind::Code => 4,
        DescItemKind::Link => 5,
        DescItemKind::JavadocLink => 6,
        DescItemKind::Markup => 7,
        DescItemKind::Arg => 8,
        DescItemKind::CodeBlock => 9,
        DescItemKind::CodeBlockHl(h) => 10 + *h as usize,
    }
}

fn num_kind(n: usize) -> DescItemKind {
    match n {
        0 => DescItemKind::Scope,
        1 => DescItemKind::Ref,
        2 => DescItemKind::Em,
        3 => DescItemKind::Strong,
        4 => DescItemKind::Code,
        5 => DescItemKind::Link,
        6 => DescItemKind::JavadocLink,
        7 => DescItemKind::Markup,
        8 => DescItemKind::Arg,
        9 => DescItemKind::CodeBlock,
        10 => DescItemKind::CodeBlockHl(CodeBlockHighlightKind::None),
        11 => DescItemKind::CodeBlockHl(CodeBlockHighlightKind::String),
        _ => DescItemKind::CodeBlockHl(CodeBlockHighlightKind::Keyword),
    }
}

fn flavours() -> Vec<(&'static str, DescParserType)> {
    vec![
        ("md", DescParserType::Md),
        ("myst", DescParserType::MySt { primary_domain: Some("lua".into()) }),
        ("rst", DescParserType::Rst { primary_domain: Some("lua".into()), default_role: Some("lua:obj".into()) }),
    ]
}

fn flavour_of(name: &str) -> DescParserType {
    flavours().into_iter().find(|f| f.0 == name).map(|f| f.1).unwrap_or(DescParserType::Md)
}

fn descs_of(text: &str) -> Vec<LuaDocDescription> {
    let tree = LuaParser::parse(text, ParserConfig::default());
    tree.get_chunk_node().descendants::<LuaDocDescription>().collect()
}

/// the tokens `desc_to_lines` looks at, in its order, encoded for the driver; and the extent of the
/// description: its node range extended by the comment-start token that precedes it
fn desc_tokens(desc: &LuaDocDescription) -> (String, usize, usize) {
    let mut toks: Vec<String> = Vec::new();
    let r = desc.syntax().text_range();
    let (mut lo, hi) = (usize::from(r.start()), usize::from(r.end()));
    let mut push = |el: &LuaSyntaxElement| {
        let LuaSyntaxElement::Token(t) = el else { return };
        let (s, l) = (usize::from(t.text_range().start()), usize::from(t.text_range().len()));
        match t.kind() {
            LuaKind::Token(LuaTokenKind::TkDocDetail) => toks.push(format!("d:{s}:{l}")),
            LuaKind::Token(LuaTokenKind::TkEndOfLine) => toks.push(format!("e:{s}:{l}")),
            LuaKind::Token(LuaTokenKind::TkNormalStart | LuaTokenKind::TkDocContinue) => {
                let m = t.text().chars().take_while(|c| *c == '-').count();
                toks.push(format!("s:{s}:{l}:{m}"))
            }
            _ => {}
        }
    };
    let prev = desc.syntax().siblings_with_tokens(Direction::Prev).skip(1).find(|tk| tk.kind() != LuaTokenKind::TkWhitespace.into());
    if let Some(p) = prev {
        if p.kind() == LuaTokenKind::TkNormalStart.into() {
            lo = lo.min(usize::from(p.text_range().start()));
            push(&p);
        }
    }
    for c in desc.syntax().children_with_tokens() {
        push(&c);
    }
    (if toks.is_empty() { "-".into() } else { toks.join(";") }, lo, hi)
}

fn show_ranges(rs: &[SourceRange]) -> String {
    if rs.is_empty() { "-".into() } else { rs.iter().map(|r| format!("{}:{}", r.start_offset, r.length)).collect::<Vec<_>>().join(",") }
}

fn show_items(is: &[DescItem]) -> String {
    if is.is_empty() {
        "-".into()
    } else {
        is.iter().map(|i| format!("{}:{}:{}", usize::from(i.range.start()), usize::from(i.range.len()), kind_num(&i.kind))).collect::<Vec<_>>().join(",")
    }
}

fn items_arg(is: &[DescItem]) -> String {
    show_items(is).replace(',', ";")
}

fn cur_arg(c: Option<usize>) -> String {
    c.map(|x| x.to_string()).unwrap_or_else(|| "-".into())
}

struct Box_ {
    items: Vec<DescItem>,
    cursor: Option<usize>,
}
impl ResultContainer for Box_ {
    fn results(&self) -> &Vec<DescItem> {
        &self.items
    }
    fn results_mut(&mut self) -> &mut Vec<DescItem> {
        &mut self.items
    }
    fn cursor_position(&self) -> Option<usize> {
        self.cursor
    }
}

fn key(i: &DescItem) -> (usize, usize, bool) {
    (usize::from(i.range.start()), usize::MAX - usize::from(i.range.len()), i.kind != DescItemKind::Scope)
}

/// the property's oracle on one call; returns failure descriptions
fn oracle(text: &str, desc: &LuaDocDescription, flavour: &str, cursor: Option<usize>, lo: usize, hi: usize) -> (Vec<String>, Option<Vec<DescItem>>) {
    let (t2, d2, k) = (text.to_string(), desc.clone(), flavour_of(flavour));
    let r = vh_common::catch(std::panic::AssertUnwindSafe(move || parse(k, &t2, d2, cursor)));
    let mut bad = Vec::new();
    match r {
        Err(p) => {
            bad.push(format!("panic: {p}"));
            (bad, None)
        }
        Ok(items) => {
            for (n, it) in items.iter().enumerate() {
                let (s, e) = (usize::from(it.range.start()), usize::from(it.range.end()));
                if s < lo || e > hi {
                    bad.push(format!("item {n} {:?} [{s},{e}) lies outside the description [{lo},{hi})", it.kind));
                    break;
                }
                if e > text.len() || !text.is_char_boundary(s) || !text.is_char_boundary(e) {
                    bad.push(format!("item {n} {:?} [{s},{e}) is not on char boundaries of the text", it.kind));
                    break;
                }
            }
            for w in items.windows(2) {
                if key(&w[0]) > key(&w[1]) {
                    bad.push(format!("items not sorted: {:?}@{:?} before {:?}@{:?}", w[0].kind, w[0].range, w[1].kind, w[1].range));
                    break;
                }
            }
            (bad, Some(items))
        }
    }
}

fn input_json(text: &str, desc_index: usize, flavour: &str, cursor: Option<usize>) -> Value {
    json!({"kind": "parse", "text": text, "text_hex": hex(text), "desc_index": desc_index, "flavour": flavour, "cursor": cursor})
}

fn run_source(text: &str, only: Option<(usize, &str, Option<usize>)>, rng: &mut Rng, report: &mut Report, seen: &mut HashSet<String>) {
    let descs = match vh_common::catch(|| descs_of(text)) {
        Ok(d) => d,
        Err(_) => return,
    };
    let mut reqs = Vec::new();
    let mut expect: Vec<(String, Value, &'static str)> = Vec::new();
    for (di, desc) in descs.iter().enumerate() {
        if let Some((odi, _, _)) = only {
            if odi != di {
                continue;
            }
        }
        let (toks, lo, hi) = desc_tokens(desc);
        let r = desc.syntax().text_range();
        let (ds, de) = (usize::from(r.start()), usize::from(r.end()));
        let mut cursors = vec![None, Some(ds), Some((ds + de) / 2), Some(de), Some(rng.below(text.len() + 1)), Some(text.len() + 5), Some(0)];
        if let Some((_, _, c)) = only {
            cursors = vec![c];
        }
        for cursor in cursors {
            // ---- tie: desc_to_lines
            let (t2, d2) = (text.to_string(), desc.clone());
            match vh_common::catch(std::panic::AssertUnwindSafe(move || desc_to_lines(&t2, d2, cursor))) {
                Ok(lines) => {
                    reqs.push(format!("markup.lines {} {} {}", hex(text), cur_arg(cursor), toks));
                    expect.push((format!("ok {}", show_ranges(&lines)), json!({"kind": "lines", "text": text, "text_hex": hex(text), "desc_index": di, "cursor": cursor, "tokens": toks}), "markup.lines vs desc_to_lines"));
                    for l in &lines {
                        if !(l.start_offset == 0 && l.length == 0) && (l.start_offset < lo || l.end_offset() > hi) {
                            report.oracle_failure(json!({"input": input_json(text, di, "md", cursor), "class": null,
                                "what": format!("desc_to_lines returns line [{},{}) outside the description [{lo},{hi})", l.start_offset, l.end_offset())}));
                        }
                    }
                    report.add("lines_total", lines.len() as u64);
                }
                Err(p) => report.oracle_failure(json!({"input": input_json(text, di, "md", cursor), "class": null, "what": format!("desc_to_lines panicked: {p}")})),
            }
            for (fname, _) in flavours() {
                if let Some((_, of, _)) = only {
                    if of != fname {
                        continue;
                    }
                }
                report.evaluations += 1;
                report.count(&format!("calls_{fname}"));
                report.count(if cursor.is_some() { "calls_with_cursor" } else { "calls_without_cursor" });
                let (bad, items) = oracle(text, desc, fname, cursor, lo, hi);
                for b in bad.iter().take(1) {
                    report.oracle_failure(json!({"input": input_json(text, di, fname, cursor), "class": null, "what": format!("{fname}: {b}")}));
                }
                if let Some(items) = items {
                    report.add("items_total", items.len() as u64);
                    if items.len() >= 2 && !items.iter().any(|i| i.kind == DescItemKind::Scope) {
                        report.count(if cursor.is_none() { "outputs_without_scope_2plus_items_no_cursor" } else { "outputs_without_scope_2plus_items_cursor" });
                        // does the order of this output depend on the final sort? (items not already in emission order
                        // cannot be observed from outside; count nesting instead)
                        if items.windows(2).any(|w| w[0].range.start() == w[1].range.start() || w[1].range.end() <= w[0].range.end()) {
                            report.count("outputs_without_scope_nested_or_same_start");
                        }
                    }
                    if !items.is_empty() {
                        for it in &items {
                            report.count(&format!("kind_{}", kind_num(&it.kind).min(10)));
                        }
                        if seen.insert(format!("{fname}|{}|{}", &text[lo..hi], cur_arg(cursor))) {
                            report.distinct_nontrivial += 1;
                        }
                        // ---- tie: the real output is a fixed point of the model's sort
                        reqs.push(format!("markup.sort {}", items_arg(&items)));
                        expect.push((format!("ok {}", show_items(&items)), json!({"kind": "sorted-output", "text": text, "text_hex": hex(text), "desc_index": di, "flavour": fname, "cursor": cursor}), "markup.sort is the identity on parse output"));
                        if report.samples.len() < 5 && items.len() > 3 {
                            report.sample(json!({"description": &text[lo..hi], "flavour": fname, "cursor": cursor, "items": show_items(&items)}));
                        }
                    }
                }
            }
        }
    }
    if reqs.is_empty() {
        return;
    }
    let resps = run_driver(&reqs);
    for ((want, input, tie), got) in expect.iter().zip(resps.iter()) {
        if want != got {
            report.mismatch(json!({"input": input, "model": got, "impl": want, "tie": tie}));
        } else {
            report.traces_validated += 1;
        }
    }
}

/// tie of `emit_range` and `sort_result` on synthetic item sequences
fn synthetic(rng: &mut Rng, n: usize, report: &mut Report) {
    let mut reqs = Vec::new();
    let mut expect: Vec<(String, Value, &'static str)> = Vec::new();
    for i in 0..n {
        let len = rng.below(10);
        let cursor = if rng.chance(1, 3) { Some(rng.below(40)) } else { None };
        let mut pos = 0usize;
        let mut seq: Vec<DescItem> = Vec::new();
        for _ in 0..len {
            let start = match rng.below(4) {
                0 => pos,
                1 => pos + rng.below(3),
                _ => rng.below(40),
            };
            let l = rng.below(6);
            pos = start + l;
            let kind = num_kind(*rng.pick(&[0usize, 0, 1, 1, 2, 4, 6, 7, 9, 10, 11]));
            seq.push(DescItem { range: TextRange::new(TextSize::new(start as u32), TextSize::new((start + l) as u32)), kind });
        }
        if i % 2 == 0 {
            let mut b = Box_ { items: Vec::new(), cursor };
            for it in &seq {
                b.emit_range(SourceRange::new(usize::from(it.range.start()), usize::from(it.range.len())), it.kind.clone());
            }
            reqs.push(format!("markup.emit {} {}", cur_arg(cursor), items_arg(&seq)));
            expect.push((format!("ok {}", show_items(&b.items)), json!({"kind": "emit", "cursor": cursor, "seq": items_arg(&seq)}), "markup.emit vs ResultContainer::emit_range"));
        } else {
            let mut sorted = seq.clone();
            sort_result(&mut sorted);
            reqs.push(format!("markup.sort {}", items_arg(&seq)));
            expect.push((format!("ok {}", show_items(&sorted)), json!({"kind": "sort", "seq": items_arg(&seq)}), "markup.sort vs sort_result"));
        }
        report.evaluations += 1;
        report.count("synthetic_emit_sort");
    }
    let resps = run_driver(&reqs);
    for ((want, input, tie), got) in expect.iter().zip(resps.iter()) {
        if want != got {
            report.mismatch(json!({"input": input, "model": got, "impl": want, "tie": tie}));
        } else {
            report.traces_validated += 1;
        }
    }
}

pub fn run(args: &Args, report: &mut Report) {
    let mut rng = Rng::new(args.seed);
    let mut seen = HashSet::new();
    report.rule = "distinct (flavour, description text, cursor) whose parse yields at least one item".into();
    if let Some(path) = &args.replay {
        let v: Value = serde_json::from_str(&std::fs::read_to_string(path).expect("replay file")).expect("replay json");
        let input = v.get("input").cloned().unwrap_or(Value::Null);
        let text = input.get("text").and_then(|x| x.as_str()).unwrap_or("").to_string();
        let di = input.get("desc_index").and_then(|x| x.as_u64()).unwrap_or(0) as usize;
        let fl = input.get("flavour").and_then(|x| x.as_str()).unwrap_or("md").to_string();
        let cursor = input.get("cursor").and_then(|x| x.as_u64()).map(|x| x as usize);
        let fl: &str = ["md", "myst", "rst"].into_iter().find(|f| *f == fl).unwrap_or("md");
        run_source(&text, Some((di, fl, cursor)), &mut rng, report, &mut seen);
        return;
    }
    let n = if args.thorough() { 12_000 } else { 400 };
    synthetic(&mut rng, if args.thorough() { 40_000 } else { 4_000 }, report);
    // fixed corner cases first
    for p in PARAGRAPHS {
        run_source(&format!("--- {p}\nlocal x"), None, &mut rng, report, &mut seen);
        run_source(&format!("---@param x integer {p}\nlocal function f(x) end"), None, &mut rng, report, &mut seen);
    }
    for t in [
        "--- a\n", "---", "--", "------\n--- x\n------\n", "---@param x integer `unterminated\nlocal x", "--- ```lua\n--- local x = 1", "---\t*a\n---\t *b",
        "--- 中文 `代码` **粗**\n", "---   indented\n---  less\n--- least\n", "--- :lua:func:`a.b", "--- {@link a", "----\n----\n", "--- x\r\n--- y\r\n",
    ] {
        run_source(t, None, &mut rng, report, &mut seen);
    }
    for _ in 0..n {
        let src = gen_source(&mut rng);
        run_source(&src, None, &mut rng, report, &mut seen);
    }
    report.notes.push("flavours: Md, MySt{primary_domain: lua}, Rst{primary_domain: lua, default_role: lua:obj}; cursors: none, description start / middle / end, a random file offset, past the end of the file, 0".into());
}
