//! String / long-bracket / comment literals: a seeded generator following the reference manuals per level,
//! with the reference verdict (valid / invalid at that level) computed here, independent of /repo.
use vh_common::Rng;

#[derive(Clone, Debug)]
pub struct Lit {
    pub text: String,
    /// Some(true): valid literal at the level per the manual; Some(false): the reference lexer rejects it;
    /// None: not judged (tie only)
    pub valid: Option<bool>,
    pub why: &'static str,
}

const PLAIN: &[&str] = &["abc", " ", "x y", "é", "中文", "😀", "--", "[[", "]]", "]=]", "\t", "0", "%d", "{}", "#"];

/// one item of a short string: (text, valid at level?)  level: 1 = 5.1 … 5 = 5.5
fn item(rng: &mut Rng, lv: u8, q: char) -> (String, bool, &'static str) {
    match rng.below(16) {
        0..=4 => (rng.pick(PLAIN).to_string(), true, "plain"),
        5 => (if q == '"' { "'".into() } else { "\"".into() }, true, "other quote"),
        6 => (format!("\\{}", rng.pick(&["a", "b", "f", "n", "r", "t", "v", "\\", "\"", "'"])), true, "simple escape"),
        7 => (format!("\\{}", rng.pick(&["\n", "\r", "\r\n", "\n\r"])), true, "escaped line break"),
        8 => {
            let n = *rng.pick(&[0u32, 7, 10, 65, 99, 100, 255, 256, 300, 999]);
            let s = match rng.below(3) {
                0 => format!("\\{n}~"),
                1 => format!("\\{n:03}~"),
                _ => format!("\\{n}x"),
            };
            (s, n <= 255, "decimal escape")
        }
        9 => {
            // \z skips all following white space incl. line breaks (5.2+); in 5.1 `\z` is just `z`
            let ws = *rng.pick(&["", " ", "  \t", "\n", " \n  ", "\r\n\t", " \x0C\n ", "\x0B \n", "\n\n"]);
            let valid = if lv >= 2 { true } else { !ws.contains('\n') && !ws.contains('\r') };
            (format!("\\z{ws}"), valid, "\\z")
        }
        10 => {
            let h = *rng.pick(&["41", "ff", "0A", "4", "G1", "", "1g"]);
            let ok = h.len() == 2 && h.chars().all(|c| c.is_ascii_hexdigit());
            (format!("\\x{h}~"), if lv >= 2 { ok } else { true }, "\\x escape")
        }
        11 | 12 => {
            let (h, max53, max54) = *rng.pick(&[
                ("{41}", true, true),
                ("{0}", true, true),
                ("{7FF}", true, true),
                ("{ffff}", true, true),
                ("{10FFFF}", true, true),
                ("{D800}", true, true),
                ("{DFFF}", true, true),
                ("{110000}", false, true),
                ("{7FFFFFFF}", false, true),
                ("{80000000}", false, false),
                ("{FFFFFFFFF}", false, false),
                ("{}", false, false),
                ("{12", false, false),
                ("41", false, false),
                ("{4G}", false, false),
                ("{ 41}", false, false),
            ]);
            let valid = match lv {
                1 => true, // unknown escapes are taken literally in 5.1
                2 => false,
                3 => max53,
                _ => max54,
            };
            (format!("\\u{h}~"), valid, "\\u escape")
        }
        13 => {
            let c = *rng.pick(&["q", "c", "%", "(", "é", "U", "X", " "]);
            (format!("\\{c}"), lv < 2, "unknown escape")
        }
        // a raw line break ends the string (the plain char in front keeps it from being swallowed by a preceding
        // `\z` or completing an escaped line break pair)
        14 => (format!("k{}", rng.pick(&["\n", "\r"])), false, "raw line break"),
        _ => (rng.pick(PLAIN).to_string(), true, "plain"),
    }
}

pub fn short_string(rng: &mut Rng, lv: u8) -> Lit {
    let q = if rng.chance(1, 2) { '"' } else { '\'' };
    let n = rng.below(5);
    let mut text = String::new();
    text.push(q);
    let mut valid = true;
    let mut why = "valid short string";
    for _ in 0..n {
        let (s, ok, w) = item(rng, lv, q);
        let s = if s.contains(q) && !s.starts_with('\\') { String::from("k") } else { s };
        if !ok && valid {
            valid = false;
            why = w;
        }
        text.push_str(&s);
    }
    // an invalid escape directly followed by more digits/letters may merge into something else: the verdict of
    // such glued cases is still right for the listed items because every escape item is self-delimiting,
    // except decimal escapes followed by digits: separate them
    match rng.below(12) {
        0 => {
            // unterminated
            if valid {
                why = "unfinished string";
            }
            valid = false;
        }
        _ => text.push(q),
    }
    Lit { text, valid: Some(valid), why }
}

pub fn long_bracket(rng: &mut Rng) -> Lit {
    if rng.chance(1, 12) {
        // bad delimiter: `[=` not followed by `[`
        let t = format!("[{}x", "=".repeat(1 + rng.below(3)));
        return Lit { text: t, valid: Some(false), why: "invalid long string delimiter" };
    }
    let level = rng.below(4);
    let eq = "=".repeat(level);
    let n = rng.below(5);
    let mut body = String::new();
    for _ in 0..n {
        body.push_str(*rng.pick(&["text", "\n", "]", "]]", "]=]", "]==]", "]=", "=]", "[[", "[=[", "--", "\"", "\\", "é", "]===", " "]));
    }
    let closer = format!("]{eq}]");
    let terminated = !rng.chance(1, 10);
    let full = format!("{body}{closer}");
    let ends_at_end = full.find(&closer) == Some(body.len());
    if terminated {
        // the literal ends at the first closer; judged only when that is the one we appended
        Lit { text: format!("[{eq}[{full}"), valid: if ends_at_end { Some(true) } else { None }, why: "valid long string" }
    } else {
        Lit { text: format!("[{eq}[{body}"), valid: if body.contains(&closer) { None } else { Some(false) }, why: "unfinished long string" }
    }
}

pub fn comment(rng: &mut Rng) -> String {
    match rng.below(6) {
        0 => format!("-- {}", rng.pick(&["plain", "[[ not long", "[==", "é 中", ""])),
        1 => format!("--[[ long\n ]] ]{}", ""),
        2 => "--[==[ a ]] ]=] \n ]==]".into(),
        3 => "--[=[ unterminated ]]".into(),
        4 => format!("--[{}x short after all\nlocal y", "=".repeat(rng.below(3))),
        _ => "--[[]]".into(),
    }
}
