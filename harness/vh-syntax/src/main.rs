//! Harness binary of the syntax-acceptance cluster: C03 (valid Lua is never a syntax error) and
//! C37 (doc-comment markup highlighting is total and in bounds); plus `gen-tables` (T-exec for C03).
mod c03;
mod c37;
mod exprgen;
mod progen;
mod strgen;
mod tables;

use vh_common::{Args, Report};

fn main() {
    let argv: Vec<String> = std::env::args().collect();
    if argv.len() >= 2 && argv[1] == "gen-tables" {
        // vh-syntax gen-tables <out-dir> <ternary_left>
        let dir = &argv[2];
        let ternary_left: i64 = argv[3].parse().expect("ternary_left");
        std::fs::write(format!("{dir}/ClimbTable.lean.new"), tables::climb_table(ternary_left)).expect("write");
        std::fs::write(format!("{dir}/FeaturesTable.lean.new"), tables::features_table()).expect("write");
        // vh-syntax gen-tables <out-dir> <ternary_left> [words from name_to_kind, comma separated]
        let mut words: Vec<String> = argv.get(4).map(|w| w.split(',').filter(|x| !x.is_empty()).map(|x| x.to_string()).collect()).unwrap_or_default();
        for w in tables::SOFT_WORDS {
            if !words.iter().any(|x| x == w) {
                words.push(w.to_string());
            }
        }
        std::fs::write(format!("{dir}/FeaturesKeywords.lean.new"), tables::keyword_table(&words)).expect("write");
        return;
    }
    let args = Args::parse();
    vh_common::silence_panics();
    let mut report = Report::default();
    match args.prop.as_str() {
        "C03" => c03::run(&args, &mut report),
        "C37" => c37::run(&args, &mut report),
        other => {
            eprintln!("vh-syntax: unknown property {other}");
            std::process::exit(2);
        }
    }
    report.write(&args.out);
}
