//! Grammar-directed generator of whole Lua programs that are valid at a given PUC-Rio level
//! (1 = 5.1 … 5 = 5.5), error injection, and "too new for this level" snippets.
//! Every statement form of the manual's grammar is covered; constructs are emitted only from the version
//! that introduced them.
use crate::exprgen;
use vh_common::Rng;

struct G<'a> {
    rng: &'a mut Rng,
    lv: u8,
    label: usize,
    out: String,
    indent: usize,
}

const LOCALS: &[&str] = &["a", "b", "x", "y1", "_z", "foo", "t", "self"];

impl G<'_> {
    fn line(&mut self, s: &str) {
        for _ in 0..self.indent {
            self.out.push_str("  ");
        }
        if s.starts_with('(') {
            // a statement starting with '(' would be read as call arguments of the previous expression
            self.out.push_str("local _ = 0; ");
        }
        self.out.push_str(s);
        // line ends: mostly \n, sometimes \r\n, and trailing comments
        match self.rng.below(12) {
            0 => self.out.push_str(" -- trailing comment\n"),
            1 => self.out.push_str("\r\n"),
            2 => self.out.push_str(" --[[ inline ]]\n"),
            3 if self.lv >= 2 && !s.starts_with("return") => self.out.push_str(" ;\n"),
            _ => self.out.push('\n'),
        }
    }

    fn numeral(&mut self) -> String {
        // the manual's numeral grammar (hex floats from 5.2)
        let r = &mut *self.rng;
        let hexn = r.chance(1, 3);
        let pool: &[u8] = if hexn { b"0123456789abcdefABCDEF" } else { b"0123456789" };
        let d = |r: &mut Rng, min: usize| -> String { (0..r.range(min, min + 2)).map(|_| *r.pick(pool) as char).collect() };
        let mut s = String::new();
        if hexn {
            s.push_str("0x");
        }
        let shape = if hexn && self.lv < 2 { 0 } else { r.below(3) };
        match shape {
            0 => s.push_str(&d(r, 1)),
            1 => {
                s.push_str(&d(r, 1));
                s.push('.');
                s.push_str(&d(r, 0));
            }
            _ => {
                s.push('.');
                s.push_str(&d(r, 1));
            }
        }
        if (!hexn || self.lv >= 2) && r.chance(1, 3) {
            s.push(if hexn { 'p' } else { *r.pick(&['e', 'E']) });
            if r.chance(1, 2) {
                s.push(*r.pick(&['+', '-']));
            }
            s.push_str(&(0..r.range(1, 2)).map(|_| *r.pick(b"0123456789") as char).collect::<String>());
        }
        s
    }

    fn string(&mut self) -> String {
        let lv = self.lv;
        let r = &mut *self.rng;
        match r.below(6) {
            0 => "\"plain\"".into(),
            1 => "'single \"q\"'".into(),
            2 => {
                let mut s = String::from("\"esc \\n \\t \\\\ \\\" \\' \\a \\b \\f \\r \\v \\065 \\10 \\\n continued");
                if lv >= 2 {
                    s.push_str(" \\x41 \\z   \n   after");
                }
                if lv >= 3 {
                    s.push_str(" \\u{48} \\u{10FFFF}");
                }
                s.push('"');
                s
            }
            3 => "[[long\nstring ] ]]".into(),
            4 => "[==[ level 2 ]] ]=] \n ]==]".into(),
            _ => "\"ünï 中文 😀\"".into(),
        }
    }

    fn table(&mut self, depth: usize) -> String {
        let n = self.rng.below(4);
        let mut s = String::from("{");
        for i in 0..n {
            if i > 0 {
                s.push_str(if self.rng.chance(1, 3) { "; " } else { ", " });
            }
            match self.rng.below(3) {
                0 => s.push_str(&self.expr(depth)),
                1 => s.push_str(&format!("{} = {}", self.rng.pick(LOCALS), self.expr(depth))),
                _ => s.push_str(&format!("[ {} ] = {}", self.expr(depth), self.expr(depth))),
            }
        }
        if n > 0 && self.rng.chance(1, 4) {
            s.push(',');
        }
        s.push('}');
        s
    }

    fn closure(&mut self, depth: usize) -> String {
        let save = std::mem::take(&mut self.out);
        let ind = self.indent;
        self.indent += 1;
        self.block(depth, false, true);
        self.indent = ind;
        let body = std::mem::replace(&mut self.out, save);
        format!("function({})\n{}{}end", self.params(), body, "  ".repeat(ind))
    }

    /// every generated function is vararg so `...` is usable anywhere
    fn params(&mut self) -> String {
        match self.rng.below(4) {
            0 => "...".into(),
            1 => "a, ...".into(),
            2 if self.lv >= 5 => "a, b, ...".into(),
            _ => "a, b, ...".into(),
        }
    }

    fn expr(&mut self, depth: usize) -> String {
        if depth == 0 {
            return match self.rng.below(4) {
                0 => self.numeral(),
                1 => self.string(),
                2 => self.rng.pick(LOCALS).to_string(),
                _ => self.rng.pick(&["nil", "true", "false", "..."]).to_string(),
            };
        }
        match self.rng.below(10) {
            0 => self.table(depth - 1),
            1 => self.closure(depth - 1),
            2 => self.numeral(),
            3 => self.string(),
            4 => format!("{}{}", self.prefix(depth - 1), self.string_or_table_arg(depth - 1)),
            _ => {
                let d = 1 + self.rng.below(3);
                let e = exprgen::gen_expr(self.rng, d, self.lv);
                let mode = if self.rng.chance(1, 3) { 2 } else { 0 };
                e.print(mode, self.rng)
            }
        }
    }

    fn string_or_table_arg(&mut self, depth: usize) -> String {
        match self.rng.below(3) {
            0 => " \"strarg\"".into(),
            1 => " [[longarg]]".into(),
            _ => self.table(depth),
        }
    }

    fn prefix(&mut self, depth: usize) -> String {
        match self.rng.below(5) {
            0 => format!("{}.{}", self.rng.pick(LOCALS), self.rng.pick(LOCALS)),
            1 => format!("{}[ {} ]", self.rng.pick(LOCALS), self.expr(depth)),
            2 => format!("({})", self.expr(depth)),
            3 => format!("{}:{}()", self.rng.pick(LOCALS), self.rng.pick(LOCALS)),
            _ => self.rng.pick(LOCALS).to_string(),
        }
    }

    fn call(&mut self, depth: usize) -> String {
        let p = self.prefix(depth);
        match self.rng.below(4) {
            0 => format!("{p}({})", self.exprlist(depth, 0)),
            1 => format!("{p}:{}({})", self.rng.pick(LOCALS), self.exprlist(depth, 0)),
            2 => format!("{p}{}", self.string_or_table_arg(depth)),
            _ => format!("{p}:{}{}", self.rng.pick(LOCALS), self.string_or_table_arg(depth)),
        }
    }

    fn exprlist(&mut self, depth: usize, min: usize) -> String {
        let n = self.rng.range(min, min + 2);
        (0..n).map(|_| self.expr(depth)).collect::<Vec<_>>().join(", ")
    }

    fn var(&mut self, depth: usize) -> String {
        match self.rng.below(3) {
            0 => self.rng.pick(LOCALS).to_string(),
            1 => format!("{}.{}", self.prefix(depth), self.rng.pick(LOCALS)),
            _ => format!("{}[ {} ]", self.prefix(depth), self.expr(depth)),
        }
    }

    fn attnamelist(&mut self) -> String {
        let n = self.rng.range(1, 3);
        (0..n)
            .map(|i| {
                let name = LOCALS[i % LOCALS.len()];
                if self.lv >= 4 && self.rng.chance(1, 4) { format!("{name} <const>") } else { name.to_string() }
            })
            .collect::<Vec<_>>()
            .join(", ")
    }

    fn block(&mut self, depth: usize, in_loop: bool, in_func: bool) {
        let n = self.rng.below(4);
        for _ in 0..n {
            self.stat(depth, in_loop);
        }
        // last statement
        match self.rng.below(6) {
            0 if in_func || self.indent == 0 => {
                let l = self.exprlist(depth.min(1), 0);
                let semi = if self.rng.chance(1, 4) { ";" } else { "" };
                self.line(&format!("return {l}{semi}"));
            }
            1 if in_loop => self.line("break"),
            _ => {}
        }
    }

    fn nested(&mut self, depth: usize, in_loop: bool) {
        self.indent += 1;
        self.block(depth, in_loop, false);
        self.indent -= 1;
    }

    fn stat(&mut self, depth: usize, in_loop: bool) {
        let d = depth.saturating_sub(1);
        let choice = self.rng.below(if depth == 0 { 6 } else { 19 });
        match choice {
            0 => {
                let names = self.attnamelist();
                if self.rng.chance(1, 4) {
                    self.line(&format!("local {names}"));
                } else {
                    let l = self.exprlist(d, 1);
                    self.line(&format!("local {names} = {l}"));
                }
            }
            1 => {
                let n = self.rng.range(1, 2);
                let vars = (0..n).map(|_| self.var(d)).collect::<Vec<_>>().join(", ");
                let l = self.exprlist(d, 1);
                self.line(&format!("{vars} = {l}"));
            }
            2 | 3 => {
                let c = self.call(d);
                self.line(&c);
            }
            4 => self.line("-- a comment line"),
            5 => self.line("--[==[ long\n comment ]] ]==]"),
            6 => {
                self.line("do");
                self.nested(d, in_loop);
                self.line("end");
            }
            7 => {
                let c = self.expr(d);
                self.line(&format!("while {c} do"));
                self.nested(d, true);
                self.line("end");
            }
            8 => {
                self.line("repeat");
                self.nested(d, true);
                let c = self.expr(d);
                self.line(&format!("until {c}"));
            }
            9 => {
                let c = self.expr(d);
                self.line(&format!("if {c} then"));
                self.nested(d, in_loop);
                for _ in 0..self.rng.below(3) {
                    let c = self.expr(d);
                    self.line(&format!("elseif {c} then"));
                    self.nested(d, in_loop);
                }
                if self.rng.chance(1, 2) {
                    self.line("else");
                    self.nested(d, in_loop);
                }
                self.line("end");
            }
            10 => {
                let (a, b) = (self.expr(d), self.expr(d));
                let step = if self.rng.chance(1, 2) { format!(", {}", self.expr(d)) } else { String::new() };
                self.line(&format!("for i = {a}, {b}{step} do"));
                self.nested(d, true);
                self.line("end");
            }
            11 => {
                let l = self.exprlist(d, 1);
                let names = if self.rng.chance(1, 2) { "k, v" } else { "_" };
                self.line(&format!("for {names} in {l} do"));
                self.nested(d, true);
                self.line("end");
            }
            12 => {
                let mut name = self.rng.pick(LOCALS).to_string();
                for _ in 0..self.rng.below(3) {
                    name.push('.');
                    name.push_str(*self.rng.pick(LOCALS));
                }
                if self.rng.chance(1, 3) {
                    name.push(':');
                    name.push_str(*self.rng.pick(LOCALS));
                }
                let ps = self.params();
                self.line(&format!("function {name}({ps})"));
                self.indent += 1;
                self.block(d, false, true);
                self.indent -= 1;
                self.line("end");
            }
            13 => {
                let ps = self.params();
                let fname = *self.rng.pick(LOCALS);
                self.line(&format!("local function {fname}({ps})"));
                self.indent += 1;
                self.block(d, false, true);
                self.indent -= 1;
                self.line("end");
            }
            14 if self.lv >= 2 => {
                // backward goto: always in scope
                self.label += 1;
                let l = format!("lbl{}", self.label);
                self.line(&format!("::{l}::"));
                let c = self.expr(0);
                self.line(&format!("if {c} then goto {l} end"));
            }
            15 if self.lv >= 2 => {
                self.label += 1;
                let l = format!("lbl{}", self.label);
                self.line("do");
                self.indent += 1;
                self.line(&format!("goto {l}"));
                self.line(&format!(":: {l} ::"));
                self.indent -= 1;
                self.line("end");
            }
            16 if self.lv >= 4 => {
                self.line("do");
                self.indent += 1;
                let e = self.expr(0);
                self.line(&format!("local c1 <const>, c2 <close> = {e}, nil"));
                self.indent -= 1;
                self.line("end");
            }
            17 if self.lv >= 5 => {
                // Lua 5.5: global declarations (kept in their own block with only declared names used)
                self.line("do");
                self.indent += 1;
                match self.rng.below(4) {
                    0 => {
                        self.line("global g1, g2");
                        self.line("g1 = 1");
                    }
                    1 => self.line("global g1 <const> = 1"),
                    2 => self.line("global function gf(...) return ... end"),
                    _ => {
                        self.line("global <const> *");
                        self.line("local v = print");
                    }
                }
                self.indent -= 1;
                self.line("end");
            }
            18 if self.lv >= 5 => {
                self.line("local function nv(a, ...rest) return rest, ... end");
            }
            _ => {
                let c = self.call(d);
                self.line(&c);
            }
        }
    }
}

pub fn gen_program(rng: &mut Rng, lv: u8) -> String {
    let shebang = rng.chance(1, 10);
    let depth = 1 + rng.below(3);
    let mut g = G { rng, lv, label: 0, out: String::new(), indent: 0 };
    if shebang {
        g.out.push_str("#!/usr/bin/env lua\n");
    }
    g.block(depth, false, true);
    g.out
}

/// injected syntax errors: (text, why, sure) — `sure` mutations are invalid in every Lua version
pub fn inject(p: &str, rng: &mut Rng, _lv: u8) -> Vec<(String, &'static str, bool)> {
    let mut out = Vec::new();
    let body = p.trim_end();
    match rng.below(5) {
        0 => out.push((format!("{body}\nend\n"), "stray 'end' appended", true)),
        1 => out.push((format!("{body}\n)\n"), "stray ')' appended", true)),
        2 => out.push((format!("{body}\nlocal\n"), "'local' without a name appended", true)),
        3 => out.push((format!("{body}\nx = = 1\n"), "'x = = 1' appended", true)),
        _ => out.push((format!("{body}\nuntil x\n"), "stray 'until' appended", true)),
    }
    // token-level damage somewhere inside: validity decided by the 5.5 reference only
    let pieces: Vec<&str> = p.split(' ').collect();
    if pieces.len() > 3 {
        let i = rng.below(pieces.len());
        let mut q: Vec<String> = pieces.iter().map(|s| s.to_string()).collect();
        match rng.below(3) {
            0 => {
                q.remove(i);
            }
            1 => q[i] = rng.pick(&["end", "(", ")", "=", "then", "do", ",", "local", "..", "]"]).to_string(),
            _ => q.insert(i, rng.pick(&["end", "(", ")", "=", "then", "do", ",", "function", "}", "::"]).to_string()),
        }
        out.push((q.join(" "), "one token deleted / replaced / inserted", false));
    }
    out
}

/// syntax of later Lua versions, invalid at level `lv`
pub fn too_new(rng: &mut Rng, lv: u8) -> Vec<(String, &'static str)> {
    let mut all: Vec<(u8, &str, &str)> = vec![
        (2, "goto done\n::done::\n", "goto/labels need 5.2"),
        (2, "do ::top:: end\n", "labels need 5.2"),
        (3, "local a = 7 // 2\n", "floor division needs 5.3"),
        (3, "local a = 7 & 2\n", "bitwise and needs 5.3"),
        (3, "local a = 7 | 2\n", "bitwise or needs 5.3"),
        (3, "local a = 7 ~ 2\n", "bitwise xor needs 5.3"),
        (3, "local a = ~7\n", "bitwise not needs 5.3"),
        (3, "local a = 1 << 2\n", "shift needs 5.3"),
        (3, "local a = 1 >> 2\n", "shift needs 5.3"),
        (4, "local x <const> = 1\n", "attribs need 5.4"),
        (4, "local x <close> = nil\n", "attribs need 5.4"),
        (5, "global gx\n", "global needs 5.5"),
        (5, "global function gf() end\n", "global function needs 5.5"),
        (5, "local function nv(...rest) end\n", "named vararg needs 5.5"),
    ];
    all.retain(|x| x.0 > lv);
    if all.is_empty() {
        return vec![];
    }
    let (_, t, w) = *rng.pick(&all);
    vec![(t.to_string(), w)]
}

/// Words that are reserved at some level / in some dialect and identifiers elsewhere (and a few words that are
/// reserved everywhere), each used in every syntactic position of a name. Returns (program, expectation, why):
/// "accept" where the word is an ordinary identifier at level `lv` (1 = 5.1 … 5 = 5.5), "reject!" (certain: the manuals reserve
/// the word, the 5.5 reference is not asked) where it is reserved, "maybe" where only the 5.5 reference can tell.
pub fn soft_word_cases(lv: u8) -> Vec<(String, &'static str, String)> {
    // (word, status at this level)
    let words: Vec<(&str, &'static str)> = vec![
        ("goto", if lv == 1 { "accept" } else { "reject!" }), // reserved from 5.2 on
        ("global", if lv <= 4 { "accept" } else { "maybe" }), // 5.5 declarations; a name before
        ("const", "accept"),                                  // attribute name / dialect word: contextual
        ("close", "accept"),
        ("continue", "accept"), // dialect word (non-standard `continue`): a name in every PUC-Rio version
        ("end", "reject!"),
        ("nil", "reject!"),
        ("while", "reject!"),
        ("local", "reject!"),
        ("not", "reject!"),
    ];
    let mut out = Vec::new();
    for (w, status) in words {
        let mut t: Vec<(String, &str)> = vec![
            (format!("local {w} = 1\n"), "local name"),
            (format!("local a, {w} = 1, 2\n"), "second local name"),
            (format!("{w} = 5\n"), "global assignment"),
            (format!("x, {w} = 1, 2\n"), "assignment target"),
            (format!("local t = {{ {w} = 1 }}\n"), "field key in a constructor"),
            (format!("local t = {{ 1, {w} = 1; 2 }}\n"), "field key after other fields"),
            (format!("local t = {{}}\nlocal x = t.{w}\n"), "t.name"),
            (format!("local t = {{}}\nt.{w} = 1\n"), "t.name as assignment target"),
            (format!("local t = {{}}\nlocal x = t.a.{w}.b\n"), "t.a.name.b"),
            (format!("local nav = {{}}\nfunction nav.{w}() end\n"), "function t.name"),
            (format!("local nav = {{}}\nfunction nav:{w}() end\nnav:{w}(3)\n"), "method name"),
            (format!("local nav = {{}}\nlocal y = nav:{w}(3):{w} \"s\"\n"), "method call chain"),
            (format!("for {w} = 1, 3 do end\n"), "numeric loop variable"),
            (format!("for {w} in pairs({{}}) do end\n"), "generic loop variable"),
            (format!("for k, {w} in pairs({{}}) do end\n"), "second generic loop variable"),
            (format!("local function f({w}) return {w} end\n"), "parameter"),
            (format!("local function f(a, {w}, ...) return a end\n"), "middle parameter"),
            (format!("function {w}() end\n"), "global function name"),
            (format!("local function {w}() end\n"), "local function name"),
            (format!("local x = {w}\n"), "name in an expression"),
            (format!("local x = {w} + {w}.y\n"), "name as operand"),
            (format!("{w}()\n"), "call statement"),
            (format!("{w}.x = 1\n"), "statement starting with the name"),
            (format!("{w}[1] = 2\n"), "indexed assignment statement"),
            (format!("local x = function({w}) end\n"), "closure parameter"),
            (format!("return {w}\n"), "return value"),
        ];
        if lv >= 2 {
            t.push((format!("do\n  goto {w}\n  ::{w}::\nend\n"), "label name"));
        }
        if lv >= 4 {
            t.push((format!("local {w} <const> = 1\n"), "local name with attribute"));
            t.push((format!("local a <const>, {w} <close> = 1, nil\n"), "second attributed name"));
        }
        for (text, pos) in t {
            if w == "nil" && (pos == "name in an expression" || pos == "return value") {
                continue; // `nil` is an expression
            }
            out.push((text, status, format!("'{w}' as {pos}")));
        }
    }
    out
}
