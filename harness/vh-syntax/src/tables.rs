//! T-exec for C03: evaluate the real operator tables and `LexerConfig::support` on their whole (finite)
//! domains and print them as Lean source (`Gen/ClimbTable.lean`, `Gen/FeaturesTable.lean`).
//! Every enumeration below is guarded by an exhaustive `match` without wildcard plus a contiguity check
//! on the discriminants, so a variant added to / removed from the Rust enums breaks this build or this run.
use emmylua_parser::{
    BinaryOperator, LexerConfig, LuaFeatures, LuaKind, LuaLanguageLevel, LuaLexer, LuaOpKind, LuaTokenKind, Reader,
    UNARY_PRIORITY, UnaryOperator,
};

pub fn all_token_kinds() -> Vec<LuaTokenKind> {
    let last = LuaTokenKind::TkDocAttributeUse as u16;
    (0..=last).map(|r| LuaKind::from_raw(r).to_token()).collect()
}

pub fn all_binops() -> Vec<BinaryOperator> {
    use BinaryOperator::*;
    let v = vec![
        OpAdd, OpSub, OpMul, OpDiv, OpIDiv, OpMod, OpPow, OpBAnd, OpBOr, OpBXor, OpShl, OpShr,
        OpShrAthrimetic, OpConcat, OpLt, OpLe, OpGt, OpGe, OpEq, OpNe, OpAnd, OpOr, OpNilCoalescing,
        OpNop,
    ];
    for (i, b) in v.iter().enumerate() {
        assert_eq!(*b as usize, i, "BinaryOperator discriminants are no longer contiguous");
        match b {
            OpAdd | OpSub | OpMul | OpDiv | OpIDiv | OpMod | OpPow | OpBAnd | OpBOr | OpBXor | OpShl
            | OpShr | OpShrAthrimetic | OpConcat | OpLt | OpLe | OpGt | OpGe | OpEq | OpNe | OpAnd
            | OpOr | OpNilCoalescing | OpNop => {}
        }
    }
    v
}

pub fn all_unops() -> Vec<UnaryOperator> {
    use UnaryOperator::*;
    let v = vec![OpNot, OpLen, OpUnm, OpBNot, OpNop];
    for (i, b) in v.iter().enumerate() {
        assert_eq!(*b as usize, i, "UnaryOperator discriminants are no longer contiguous");
        match b {
            OpNot | OpLen | OpUnm | OpBNot | OpNop => {}
        }
    }
    v
}

pub fn all_levels() -> Vec<LuaLanguageLevel> {
    use LuaLanguageLevel::*;
    let v = vec![Lua51, LuaJIT2, LuaJIT, LuaJIT3, Lua52, Lua53, Lua54, Lua55];
    for (i, b) in v.iter().enumerate() {
        assert_eq!(*b as usize, i, "LuaLanguageLevel discriminants are no longer contiguous");
        match b {
            Lua51 | LuaJIT2 | LuaJIT | LuaJIT3 | Lua52 | Lua53 | Lua54 | Lua55 => {}
        }
    }
    v
}

pub fn all_features() -> Vec<LuaFeatures> {
    use LuaFeatures::*;
    let v = vec![
        Goto, BitwiseOperation, IntegerFloorDivision, LocalAttrib, GlobalDeclaration, NamedVararg,
        DoubleSlash, SlashStar, ComplexNumber, LLInteger, BinaryInteger, PlusAssign, MinusAssign,
        StarAssign, SlashAssign, PercentAssign, CaretAssign, DoubleSlashAssign, PipeAssign, AmpAssign,
        ShiftLeftAssign, ShiftRightAssign, ShrArithmeticAssign, ConcatAssign, XorAssign, DoublePipeOr,
        DoubleAmpAnd, Exclamation, NotEqual, Continue, ShiftRightArithmetic, Ternary,
        SafeNavigationOperator, NilCoalescingOperator, ConstDeclaration, UnderscoreNumber, ShortFunction,
        StringInterpolation,
    ];
    for (i, b) in v.iter().enumerate() {
        assert_eq!(*b as u64, i as u64 + 1, "LuaFeatures discriminants are no longer contiguous from 1");
        match b {
            Goto | BitwiseOperation | IntegerFloorDivision | LocalAttrib | GlobalDeclaration
            | NamedVararg | DoubleSlash | SlashStar | ComplexNumber | LLInteger | BinaryInteger
            | PlusAssign | MinusAssign | StarAssign | SlashAssign | PercentAssign | CaretAssign
            | DoubleSlashAssign | PipeAssign | AmpAssign | ShiftLeftAssign | ShiftRightAssign
            | ShrArithmeticAssign | ConcatAssign | XorAssign | DoublePipeOr | DoubleAmpAnd
            | Exclamation | NotEqual | Continue | ShiftRightArithmetic | Ternary
            | SafeNavigationOperator | NilCoalescingOperator | ConstDeclaration | UnderscoreNumber
            | ShortFunction | StringInterpolation => {}
        }
    }
    v
}

fn ctor_list<T: std::fmt::Debug>(xs: &[T]) -> String {
    let mut s = String::new();
    let mut line = String::from(" ");
    for x in xs {
        let piece = format!(" | {:?}", x);
        if line.len() + piece.len() > 100 {
            s.push_str(&line);
            s.push('\n');
            line = String::from(" ");
        }
        line.push_str(&piece);
    }
    s.push_str(&line);
    s.push('\n');
    s
}

fn list_of<T: std::fmt::Debug>(xs: &[T]) -> String {
    let mut s = String::from("[");
    let mut col = 1;
    for (i, x) in xs.iter().enumerate() {
        let piece = format!("{}.{:?}", if i == 0 { "" } else { ", " }, x);
        if col + piece.len() > 100 {
            s.push_str("\n  ");
            col = 2;
        }
        col += piece.len();
        s.push_str(&piece);
    }
    s.push(']');
    s
}

/// Lean source of Gen/ClimbTable.lean. `ternary_left` comes from the python generator (T-src: the local
/// constant `TERNARY_LEFT` in `parse_sub_expr` cannot be evaluated from outside).
pub fn climb_table(ternary_left: i64) -> String {
    let toks = all_token_kinds();
    let bins = all_binops();
    let uns = all_unops();
    let mut s = String::new();
    s.push_str("/-! GENERATED by `vh-syntax gen-tables` (checklib/gen/syntax_tables.py) by evaluating the real\n");
    s.push_str("`LuaKind::from_raw`, `LuaOpKind::to_unary_operator`, `LuaOpKind::to_binary_operator`,\n");
    s.push_str("`BinaryOperator::get_priority` (= `PRIORITY[op as usize]`) and `UNARY_PRIORITY` of /repo on their whole\n");
    s.push_str("domains. Do not edit. -/\nnamespace Gen.Climb\n\n");
    s.push_str("/-- every `LuaTokenKind`, in discriminant order -/\ninductive Tok\n");
    s.push_str(&ctor_list(&toks));
    s.push_str("  deriving DecidableEq, Repr, Inhabited\n\n");
    s.push_str(&format!("def Tok.all : List Tok := {}\n\n", list_of(&toks)));
    s.push_str("inductive UnOp\n");
    s.push_str(&ctor_list(&uns));
    s.push_str("  deriving DecidableEq, Repr, Inhabited\n\n");
    s.push_str(&format!("def UnOp.all : List UnOp := {}\n\n", list_of(&uns)));
    s.push_str("inductive BinOp\n");
    s.push_str(&ctor_list(&bins));
    s.push_str("  deriving DecidableEq, Repr, Inhabited\n\n");
    s.push_str(&format!("def BinOp.all : List BinOp := {}\n\n", list_of(&bins)));
    s.push_str("/-- `LuaOpKind::to_unary_operator` evaluated on every token kind (rows ≠ OpNop listed) -/\n");
    s.push_str("def unaryOf : Tok → UnOp\n");
    for t in &toks {
        let u = LuaOpKind::to_unary_operator(*t);
        if u != UnaryOperator::OpNop {
            s.push_str(&format!("  | .{:?} => .{:?}\n", t, u));
        }
    }
    s.push_str("  | _ => .OpNop\n\n");
    s.push_str("/-- `LuaOpKind::to_binary_operator` evaluated on every token kind (rows ≠ OpNop listed) -/\n");
    s.push_str("def binaryOf : Tok → BinOp\n");
    for t in &toks {
        let b = LuaOpKind::to_binary_operator(*t);
        if b != BinaryOperator::OpNop {
            s.push_str(&format!("  | .{:?} => .{:?}\n", t, b));
        }
    }
    s.push_str("  | _ => .OpNop\n\n");
    s.push_str("/-- `BinaryOperator::get_priority().left` for every operator -/\ndef prioLeft : BinOp → Int\n");
    for b in &bins {
        s.push_str(&format!("  | .{:?} => {}\n", b, b.get_priority().left));
    }
    s.push_str("\n/-- `BinaryOperator::get_priority().right` for every operator -/\ndef prioRight : BinOp → Int\n");
    for b in &bins {
        s.push_str(&format!("  | .{:?} => {}\n", b, b.get_priority().right));
    }
    s.push_str(&format!("\ndef unaryPriority : Int := {}\n", UNARY_PRIORITY));
    s.push_str(&format!(
        "\n/-- T-src: `const TERNARY_LEFT: i32` inside `parse_sub_expr` (grammar/lua/expr.rs) -/\ndef ternaryLeft : Int := {}\n",
        ternary_left
    ));
    s.push_str("\nend Gen.Climb\n");
    s
}

pub fn features_table() -> String {
    let levels = all_levels();
    let feats = all_features();
    let mut s = String::new();
    s.push_str("/-! GENERATED by `vh-syntax gen-tables` (checklib/gen/syntax_tables.py): `LexerConfig::new(level).support(f)`\n");
    s.push_str("of /repo evaluated for every `LuaLanguageLevel` × every `LuaFeatures`. Do not edit. -/\nnamespace Gen.Features\n\n");
    s.push_str("inductive Level\n");
    s.push_str(&ctor_list(&levels));
    s.push_str("  deriving DecidableEq, Repr, Inhabited\n\n");
    s.push_str(&format!("def Level.all : List Level := {}\n\n", list_of(&levels)));
    s.push_str("inductive Feature\n");
    s.push_str(&ctor_list(&feats));
    s.push_str("  deriving DecidableEq, Repr, Inhabited\n\n");
    s.push_str(&format!("def Feature.all : List Feature := {}\n\n", list_of(&feats)));
    s.push_str("/-- the features `LexerConfig::new(level)` supports -/\ndef supported : Level → List Feature\n");
    for l in &levels {
        let cfg = LexerConfig::new(*l);
        let on: Vec<LuaFeatures> = feats.iter().copied().filter(|f| cfg.support(*f)).collect();
        s.push_str(&format!("  | .{:?} => {}\n", l, list_of(&on)));
    }
    s.push_str("\ndef support (l : Level) (f : Feature) : Bool := (supported l).contains f\n");
    s.push_str("\nend Gen.Features\n");
    s
}

/// words that are a keyword at some level / in some dialect but may be an identifier elsewhere, plus one
/// ordinary identifier; the python generator adds every string literal matched in `name_to_kind`
pub const SOFT_WORDS: &[&str] = &["goto", "global", "const", "close", "continue", "foo"];

/// Lean source of Gen/FeaturesKeywords.lean: the token kind the real lexer gives to every word at every
/// language level (`LuaLexer::tokenize` on the word alone = `name_to_kind`).
pub fn keyword_table(words: &[String]) -> String {
    let levels = all_levels();
    let mut s = String::new();
    s.push_str("import EmmyVerif.Gen.ClimbTable\nimport EmmyVerif.Gen.FeaturesTable\n");
    s.push_str("/-! GENERATED by `vh-syntax gen-tables` (checklib/gen/syntax_tables.py): the token kind `LuaLexer` gives to\n");
    s.push_str("each word (every string matched in `name_to_kind`, read from the source, plus the soft words) at every\n");
    s.push_str("`LuaLanguageLevel`, by executing the real lexer. Do not edit. -/\nnamespace Gen.Keywords\nopen Gen.Climb (Tok)\nopen Gen.Features (Level)\n\n");
    s.push_str("inductive Word\n ");
    for w in words {
        s.push_str(&format!(" | w_{w}"));
    }
    s.push_str("\n  deriving DecidableEq, Repr, Inhabited\n\n");
    s.push_str(&format!("def Word.all : List Word := [{}]\n\n", words.iter().map(|w| format!(".w_{w}")).collect::<Vec<_>>().join(", ")));
    s.push_str("/-- rows whose kind is not `TkName` are listed -/\ndef kindOf : Level → Word → Tok\n");
    for l in &levels {
        for w in words {
            let toks = LuaLexer::new(Reader::new(w), LexerConfig::new(*l), None).tokenize();
            assert_eq!(toks.len(), 1, "word {w} is not one token");
            if toks[0].kind != LuaTokenKind::TkName {
                s.push_str(&format!("  | .{:?}, .w_{w} => .{:?}\n", l, toks[0].kind));
            }
        }
    }
    s.push_str("  | _, _ => .TkName\n\nend Gen.Keywords\n");
    s
}
