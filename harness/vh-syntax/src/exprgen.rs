//! Abstract Lua expressions, a seeded generator, reference printers written from the Lua manual's
//! precedence table (independent of /repo and of the Lean model), and the rendering of the real syntax tree
//! into the model's S-expression.
use emmylua_parser::{LuaOpKind, LuaSyntaxKind, LuaSyntaxNode, LuaTokenKind};
use vh_common::Rng;

#[derive(Clone, Debug)]
pub enum E {
    Lit(&'static str, &'static str), // (token kind name, text)
    Name(&'static str),
    Paren(Box<E>),
    Un(usize, Box<E>),
    Bin(usize, Box<E>, Box<E>),
    Dot(Box<E>, &'static str),
    Idx(Box<E>, Box<E>),
    Call(Box<E>, Vec<E>),
    MCall(Box<E>, &'static str, Vec<E>),
    /// `f "s"` / `f [[s]]`: (base, token kind, text)
    CallS(Box<E>, &'static str, &'static str),
    /// `f{…}`
    CallT(Box<E>, Vec<Fd>),
    Table(Vec<Fd>),
    /// `function(a, b, ...) end`: number of names, vararg
    Closure(usize, bool),
}

#[derive(Clone, Debug)]
pub enum Fd {
    Pos(E),
    Named(&'static str, E),
    Keyed(E, E),
}

/// (Debug name of the BinaryOperator, text, manual precedence level, right associative, minimal level index)
/// Levels from §3.4.8 of the 5.4 manual, lowest first: or < and < comparison < | < ~ < & < shift < .. < + - <
/// * / // % < unary < ^.  Level index: 0 = every PUC version, 3 = needs 5.3+.
pub const BINOPS: &[(&str, &str, u8, bool, u8)] = &[
    ("OpOr", "or", 1, false, 0),
    ("OpAnd", "and", 2, false, 0),
    ("OpLt", "<", 3, false, 0),
    ("OpGt", ">", 3, false, 0),
    ("OpLe", "<=", 3, false, 0),
    ("OpGe", ">=", 3, false, 0),
    ("OpNe", "~=", 3, false, 0),
    ("OpEq", "==", 3, false, 0),
    ("OpBOr", "|", 4, false, 3),
    ("OpBXor", "~", 5, false, 3),
    ("OpBAnd", "&", 6, false, 3),
    ("OpShl", "<<", 7, false, 3),
    ("OpShr", ">>", 7, false, 3),
    ("OpConcat", "..", 8, true, 0),
    ("OpAdd", "+", 9, false, 0),
    ("OpSub", "-", 9, false, 0),
    ("OpMul", "*", 10, false, 0),
    ("OpDiv", "/", 10, false, 0),
    ("OpIDiv", "//", 10, false, 3),
    ("OpMod", "%", 10, false, 0),
    ("OpPow", "^", 12, true, 0),
];
pub const UNARY_LEVEL: u8 = 11;
pub const UNOPS: &[(&str, &str, u8)] = &[("OpNot", "not", 0), ("OpLen", "#", 0), ("OpUnm", "-", 0), ("OpBNot", "~", 3)];

const NAMES: &[&str] = &["a", "b", "x", "y1", "_z", "foo", "require", "type", "self", "t"];
const FIELDS: &[&str] = &["x", "n", "len", "_f", "next"];
const LITS: &[(&str, &str)] = &[
    ("TkInt", "42"),
    ("TkInt", "0xFF"),
    ("TkFloat", "1.5"),
    ("TkFloat", "3e10"),
    ("TkFloat", ".5"),
    ("TkNil", "nil"),
    ("TkTrue", "true"),
    ("TkFalse", "false"),
    ("TkDots", "..."),
    ("TkString", "\"s\\n\""),
    ("TkString", "'q'"),
    ("TkLongString", "[[long]]"),
    ("TkLongString", "[==[a]]b]==]"),
];

/// `std_level`: 1 = 5.1, 2 = 5.2, 3 = 5.3, 4 = 5.4, 5 = 5.5
pub fn gen_expr(rng: &mut Rng, depth: usize, std_level: u8) -> E {
    if depth == 0 || rng.chance(1, 6) {
        return if rng.chance(1, 2) {
            E::Name(*rng.pick(NAMES))
        } else {
            let (k, t) = *rng.pick(LITS);
            E::Lit(k, t)
        };
    }
    match rng.below(12) {
        10 => {
            let n = rng.below(4);
            return E::Table((0..n).map(|_| gen_field(rng, depth - 1, std_level)).collect());
        }
        11 => return E::Closure(rng.below(3), rng.chance(1, 2)),
        _ => {}
    }
    match rng.below(10) {
        0..=4 => {
            let ops: Vec<usize> = (0..BINOPS.len()).filter(|i| BINOPS[*i].4 <= std_level).collect();
            let op = *rng.pick(&ops);
            E::Bin(op, Box::new(gen_expr(rng, depth - 1, std_level)), Box::new(gen_expr(rng, depth - 1, std_level)))
        }
        5 | 6 => {
            let ops: Vec<usize> = (0..UNOPS.len()).filter(|i| UNOPS[*i].2 <= std_level).collect();
            E::Un(*rng.pick(&ops), Box::new(gen_expr(rng, depth - 1, std_level)))
        }
        7 => E::Paren(Box::new(gen_expr(rng, depth - 1, std_level))),
        _ => {
            let base = gen_prefix(rng, depth - 1, std_level);
            match rng.below(6) {
                4 => {
                    let (k, t) = *rng.pick(&[("TkString", "\"arg\""), ("TkString", "'a'"), ("TkLongString", "[[long arg]]")]);
                    E::CallS(Box::new(base), k, t)
                }
                5 => {
                    let n = rng.below(3);
                    E::CallT(Box::new(base), (0..n).map(|_| gen_field(rng, depth - 1, std_level)).collect())
                }
                0 => E::Dot(Box::new(base), *rng.pick(FIELDS)),
                1 => E::Idx(Box::new(base), Box::new(gen_expr(rng, depth - 1, std_level))),
                2 => {
                    let n = rng.below(4);
                    E::Call(Box::new(base), (0..n).map(|_| gen_expr(rng, depth - 1, std_level)).collect())
                }
                _ => {
                    let n = rng.below(3);
                    E::MCall(Box::new(base), *rng.pick(FIELDS), (0..n).map(|_| gen_expr(rng, depth - 1, std_level)).collect())
                }
            }
        }
    }
}

fn gen_field(rng: &mut Rng, depth: usize, std_level: u8) -> Fd {
    match rng.below(3) {
        0 => Fd::Pos(gen_expr(rng, depth, std_level)),
        1 => Fd::Named(*rng.pick(FIELDS), gen_expr(rng, depth, std_level)),
        _ => Fd::Keyed(gen_expr(rng, depth, std_level), gen_expr(rng, depth, std_level)),
    }
}

/// a `prefixexp`: Name | ( exp ) | prefixexp suffix
fn gen_prefix(rng: &mut Rng, depth: usize, std_level: u8) -> E {
    let e = gen_expr(rng, depth, std_level);
    match e {
        E::Name(_) | E::Paren(_) | E::Dot(..) | E::Idx(..) | E::Call(..) | E::MCall(..) | E::CallS(..) | E::CallT(..) => e,
        other => E::Paren(Box::new(other)),
    }
}

impl Fd {
    pub fn erase(&self) -> Fd {
        match self {
            Fd::Pos(e) => Fd::Pos(e.erase()),
            Fd::Named(n, e) => Fd::Named(n, e.erase()),
            Fd::Keyed(k, e) => Fd::Keyed(k.erase(), e.erase()),
        }
    }
    pub fn sexpr(&self) -> String {
        match self {
            Fd::Pos(e) => format!("(pos {})", e.sexpr()),
            Fd::Named(_, e) => format!("(named {})", e.sexpr()),
            Fd::Keyed(k, e) => format!("(keyed {} {})", k.sexpr(), e.sexpr()),
        }
    }
}

impl E {
    #[allow(dead_code)]
    pub fn size(&self) -> usize {
        match self {
            E::Lit(..) | E::Name(_) => 1,
            E::Paren(e) | E::Un(_, e) | E::Dot(e, _) => 1 + e.size(),
            E::Bin(_, l, r) | E::Idx(l, r) => 1 + l.size() + r.size(),
            E::Call(f, a) | E::MCall(f, _, a) => 1 + f.size() + a.iter().map(|x| x.size()).sum::<usize>(),
            E::CallS(f, ..) => 1 + f.size(),
            E::CallT(f, _) => 2 + f.size(),
            E::Table(fs) => 1 + fs.len(),
            E::Closure(..) => 1,
        }
    }

    /// remove every Paren node
    pub fn erase(&self) -> E {
        match self {
            E::Paren(e) => e.erase(),
            E::Lit(..) | E::Name(_) => self.clone(),
            E::Un(o, e) => E::Un(*o, Box::new(e.erase())),
            E::Bin(o, l, r) => E::Bin(*o, Box::new(l.erase()), Box::new(r.erase())),
            E::Dot(e, n) => E::Dot(Box::new(e.erase()), n),
            E::Idx(e, k) => E::Idx(Box::new(e.erase()), Box::new(k.erase())),
            E::Call(f, a) => E::Call(Box::new(f.erase()), a.iter().map(|x| x.erase()).collect()),
            E::MCall(f, n, a) => E::MCall(Box::new(f.erase()), n, a.iter().map(|x| x.erase()).collect()),
            E::CallS(f, k, t) => E::CallS(Box::new(f.erase()), k, t),
            E::CallT(f, fs) => E::CallT(Box::new(f.erase()), fs.iter().map(|x| x.erase()).collect()),
            E::Table(fs) => E::Table(fs.iter().map(|x| x.erase()).collect()),
            E::Closure(..) => self.clone(),
        }
    }

    /// the model's S-expression
    pub fn sexpr(&self) -> String {
        match self {
            E::Lit(k, _) => format!("(lit {k})"),
            E::Name(_) => "name".into(),
            E::Paren(e) => format!("(paren {})", e.sexpr()),
            E::Un(o, e) => format!("(un {} {})", UNOPS[*o].0, e.sexpr()),
            E::Bin(o, l, r) => format!("(bin {} {} {})", BINOPS[*o].0, l.sexpr(), r.sexpr()),
            E::Dot(e, _) => format!("(dot {})", e.sexpr()),
            E::Idx(e, k) => format!("(idx {} {})", e.sexpr(), k.sexpr()),
            E::Call(f, a) => format!("(call {}{})", f.sexpr(), a.iter().map(|x| format!(" {}", x.sexpr())).collect::<String>()),
            E::MCall(f, _, a) => {
                format!("(call (colon {}){})", f.sexpr(), a.iter().map(|x| format!(" {}", x.sexpr())).collect::<String>())
            }
            E::CallS(f, k, _) => format!("(call {} (lit {k}))", f.sexpr()),
            E::CallT(f, fs) => format!("(call {} (table{}))", f.sexpr(), fs.iter().map(|x| format!(" {}", x.sexpr())).collect::<String>()),
            E::Table(fs) => format!("(table{})", fs.iter().map(|x| format!(" {}", x.sexpr())).collect::<String>()),
            E::Closure(n, va) => format!("(closure {n} {})", if *va { 1 } else { 0 }),
        }
    }

    fn is_prefixexp(&self) -> bool {
        matches!(self, E::Name(_) | E::Paren(_) | E::Dot(..) | E::Idx(..) | E::Call(..) | E::MCall(..) | E::CallS(..) | E::CallT(..))
    }

    fn pr_fields(fs: &[Fd], mode: u8, rng: &mut Rng, out: &mut Vec<String>) {
        out.push("{".into());
        for (i, f) in fs.iter().enumerate() {
            if i > 0 {
                out.push(if rng.chance(1, 3) { ";".into() } else { ",".into() });
            }
            match f {
                Fd::Pos(e) => e.pr(mode, rng, out),
                Fd::Named(n, e) => {
                    out.push(n.to_string());
                    out.push("=".into());
                    e.pr(mode, rng, out);
                }
                Fd::Keyed(k, e) => {
                    out.push("[".into());
                    k.pr(mode, rng, out);
                    out.push("]".into());
                    out.push("=".into());
                    e.pr(mode, rng, out);
                }
            }
        }
        if !fs.is_empty() && rng.chance(1, 4) {
            out.push(if rng.chance(1, 2) { ";".into() } else { ",".into() });
        }
        out.push("}".into());
    }

    /// Reference printer. `mode` 0: only the parentheses the manual's precedence/associativity require
    /// (plus explicit Paren nodes); 1: every operand of an operator parenthesised; 2: minimal + seeded
    /// redundant parentheses. Tokens are separated by single spaces (so `- -x` never becomes a comment).
    pub fn print(&self, mode: u8, rng: &mut Rng) -> String {
        let mut out = Vec::new();
        self.pr(mode, rng, &mut out);
        out.join(" ")
    }

    fn wrapped(&self, need: bool, mode: u8, rng: &mut Rng, out: &mut Vec<String>) {
        let atom = matches!(self, E::Lit(..) | E::Name(_) | E::Paren(_) | E::Table(_) | E::Closure(..));
        let extra = match mode {
            1 => !atom,
            2 => rng.chance(1, 8),
            _ => false,
        };
        if need || extra {
            out.push("(".into());
            self.pr(mode, rng, out);
            out.push(")".into());
        } else {
            self.pr(mode, rng, out);
        }
    }

    fn pr(&self, mode: u8, rng: &mut Rng, out: &mut Vec<String>) {
        match self {
            E::Lit(_, t) => out.push(t.to_string()),
            E::Name(n) => out.push(n.to_string()),
            E::Paren(e) => {
                out.push("(".into());
                e.pr(mode, rng, out);
                out.push(")".into());
            }
            E::Un(o, e) => {
                out.push(UNOPS[*o].1.into());
                // operand: a binary operator below the unary level needs parentheses (everything but ^)
                let need = matches!(**e, E::Bin(o2, ..) if BINOPS[o2].2 < UNARY_LEVEL);
                e.wrapped(need, mode, rng, out);
            }
            E::Bin(o, l, r) => {
                let (_, text, prec, rassoc, _) = BINOPS[*o];
                let need_l = match **l {
                    E::Bin(o2, ..) => BINOPS[o2].2 < prec || (BINOPS[o2].2 == prec && rassoc),
                    E::Un(..) => UNARY_LEVEL < prec,
                    _ => false,
                };
                l.wrapped(need_l, mode, rng, out);
                out.push(text.into());
                let need_r = match **r {
                    E::Bin(o2, ..) => BINOPS[o2].2 < prec || (BINOPS[o2].2 == prec && !rassoc),
                    _ => false,
                };
                r.wrapped(need_r, mode, rng, out);
            }
            E::Dot(e, n) => {
                e.wrapped(!e.is_prefixexp(), mode, rng, out);
                out.push(".".into());
                out.push(n.to_string());
            }
            E::Idx(e, k) => {
                e.wrapped(!e.is_prefixexp(), mode, rng, out);
                out.push("[".into());
                k.pr(mode, rng, out);
                out.push("]".into());
            }
            E::Call(f, a) => {
                f.wrapped(!f.is_prefixexp(), mode, rng, out);
                out.push("(".into());
                for (i, x) in a.iter().enumerate() {
                    if i > 0 {
                        out.push(",".into());
                    }
                    x.pr(mode, rng, out);
                }
                out.push(")".into());
            }
            E::CallS(f, _, t) => {
                f.wrapped(!f.is_prefixexp(), mode, rng, out);
                out.push(t.to_string());
            }
            E::CallT(f, fs) => {
                f.wrapped(!f.is_prefixexp(), mode, rng, out);
                E::pr_fields(fs, mode, rng, out);
            }
            E::Table(fs) => E::pr_fields(fs, mode, rng, out),
            E::Closure(n, va) => {
                out.push("function".into());
                out.push("(".into());
                let mut first = true;
                for i in 0..*n {
                    if !first {
                        out.push(",".into());
                    }
                    first = false;
                    out.push(["a", "b", "c"][i % 3].into());
                }
                if *va {
                    if !first {
                        out.push(",".into());
                    }
                    out.push("...".into());
                }
                out.push(")".into());
                out.push("end".into());
            }
            E::MCall(f, n, a) => {
                f.wrapped(!f.is_prefixexp(), mode, rng, out);
                out.push(":".into());
                out.push(n.to_string());
                out.push("(".into());
                for (i, x) in a.iter().enumerate() {
                    if i > 0 {
                        out.push(",".into());
                    }
                    x.pr(mode, rng, out);
                }
                out.push(")".into());
            }
        }
    }
}

fn first_token(node: &LuaSyntaxNode) -> Option<LuaTokenKind> {
    node.children_with_tokens().filter_map(|c| c.into_token()).map(|t| t.kind().to_token()).find(|k| {
        !matches!(k, LuaTokenKind::TkWhitespace | LuaTokenKind::TkEndOfLine | LuaTokenKind::TkShortComment | LuaTokenKind::TkLongComment)
    })
}

fn is_expr_kind(k: LuaSyntaxKind) -> bool {
    matches!(
        k,
        LuaSyntaxKind::LiteralExpr
            | LuaSyntaxKind::NameExpr
            | LuaSyntaxKind::ParenExpr
            | LuaSyntaxKind::UnaryExpr
            | LuaSyntaxKind::BinaryExpr
            | LuaSyntaxKind::IndexExpr
            | LuaSyntaxKind::CallExpr
            | LuaSyntaxKind::RequireCallExpr
            | LuaSyntaxKind::AssertCallExpr
            | LuaSyntaxKind::ErrorCallExpr
            | LuaSyntaxKind::TypeCallExpr
            | LuaSyntaxKind::SetmetatableCallExpr
            | LuaSyntaxKind::TableEmptyExpr
            | LuaSyntaxKind::TableArrayExpr
            | LuaSyntaxKind::TableObjectExpr
            | LuaSyntaxKind::ClosureExpr
            | LuaSyntaxKind::TernaryExpr
            | LuaSyntaxKind::SafeIndexExpr
    )
}

pub fn expr_children(node: &LuaSyntaxNode) -> Vec<LuaSyntaxNode> {
    node.children().filter(|c| is_expr_kind(c.kind().to_syntax())).collect()
}

/// the real syntax tree of an expression in the model's S-expression form; with `erase` ParenExpr nodes
/// are dropped
pub fn render(node: &LuaSyntaxNode, erase: bool) -> String {
    let kind = node.kind().to_syntax();
    let kids = expr_children(node);
    let r = |i: usize| kids.get(i).map(|n| render(n, erase)).unwrap_or_else(|| "?".to_string());
    match kind {
        LuaSyntaxKind::LiteralExpr => format!("(lit {:?})", first_token(node).unwrap_or(LuaTokenKind::None)),
        LuaSyntaxKind::NameExpr => "name".into(),
        LuaSyntaxKind::ParenExpr => {
            if erase {
                r(0)
            } else {
                format!("(paren {})", r(0))
            }
        }
        LuaSyntaxKind::UnaryExpr => {
            let op = LuaOpKind::to_unary_operator(first_token(node).unwrap_or(LuaTokenKind::None));
            format!("(un {:?} {})", op, r(0))
        }
        LuaSyntaxKind::BinaryExpr => {
            let op = LuaOpKind::to_binary_operator(first_token(node).unwrap_or(LuaTokenKind::None));
            format!("(bin {:?} {} {})", op, r(0), r(1))
        }
        LuaSyntaxKind::IndexExpr => match first_token(node) {
            Some(LuaTokenKind::TkDot) => format!("(dot {})", r(0)),
            Some(LuaTokenKind::TkLeftBracket) => format!("(idx {} {})", r(0), r(1)),
            Some(LuaTokenKind::TkColon) => format!("(colon {})", r(0)),
            other => format!("(index? {:?} {})", other, r(0)),
        },
        LuaSyntaxKind::CallExpr
        | LuaSyntaxKind::RequireCallExpr
        | LuaSyntaxKind::AssertCallExpr
        | LuaSyntaxKind::ErrorCallExpr
        | LuaSyntaxKind::TypeCallExpr
        | LuaSyntaxKind::SetmetatableCallExpr => {
            let args = node.children().find(|c| c.kind().to_syntax() == LuaSyntaxKind::CallArgList);
            let mut s = format!("(call {}", r(0));
            if let Some(a) = args {
                for x in expr_children(&a) {
                    s.push(' ');
                    s.push_str(&render(&x, erase));
                }
            } else {
                s.push_str(" ?noargs");
            }
            s.push(')');
            s
        }
        LuaSyntaxKind::TableEmptyExpr | LuaSyntaxKind::TableArrayExpr | LuaSyntaxKind::TableObjectExpr => {
            let mut s = String::from("(table");
            for f in node.children() {
                match f.kind().to_syntax() {
                    LuaSyntaxKind::TableFieldValue => {
                        let ks = expr_children(&f);
                        s.push_str(&format!(" (pos {})", ks.first().map(|n| render(n, erase)).unwrap_or_else(|| "?".into())));
                    }
                    LuaSyntaxKind::TableFieldAssign => {
                        let ks = expr_children(&f);
                        let g = |i: usize| ks.get(i).map(|n| render(n, erase)).unwrap_or_else(|| "?".to_string());
                        if first_token(&f) == Some(LuaTokenKind::TkLeftBracket) {
                            s.push_str(&format!(" (keyed {} {})", g(0), g(1)));
                        } else {
                            s.push_str(&format!(" (named {})", g(0)));
                        }
                    }
                    _ => {}
                }
            }
            s.push(')');
            s
        }
        LuaSyntaxKind::ClosureExpr => {
            let mut n = 0;
            let mut va = 0;
            let mut body = "";
            for c in node.children() {
                match c.kind().to_syntax() {
                    LuaSyntaxKind::ParamList => {
                        for p in c.children().filter(|p| p.kind().to_syntax() == LuaSyntaxKind::ParamName) {
                            if first_token(&p) == Some(LuaTokenKind::TkDots) {
                                va = 1;
                            } else {
                                n += 1;
                            }
                        }
                    }
                    LuaSyntaxKind::Block => body = " body",
                    _ => {}
                }
            }
            format!("(closure {n} {va}{body})")
        }
        other => format!("(other {:?})", other),
    }
}
