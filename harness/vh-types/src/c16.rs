//! C16: assignability laws and batch-vs-fold union.
//! Tie: real `TypeOps::union_all` / folded `TypeOps::Union` / `check_type_compact` vs the Lean model
//! (`ty.unionall`, `ty.check`) on types obtained from generated annotations through the real pipeline.
//! Oracle: the laws themselves on the real functions.
use crate::genty::{G, gen_type};
use crate::ser::{canon_str, ser};
use crate::world::{World, gen_world};
use emmylua_code_analysis::{LuaType, TypeCheckFailReason, TypeOps};
use serde_json::{Value, json};
use std::collections::HashSet;
use std::panic::AssertUnwindSafe;
use vh_common::{Args, Report, Rng, hex, run_driver};

pub struct PoolTy {
    pub text: String,
    pub ty: LuaType,
    pub ser: Option<String>,
    pub well_formed_text: bool,
}

fn res_name(r: &Result<(), TypeCheckFailReason>) -> &'static str {
    match r {
        Ok(()) => "ok",
        Err(TypeCheckFailReason::TypeNotMatch) | Err(TypeCheckFailReason::TypeNotMatchWithReason(_)) => "nomatch",
        Err(TypeCheckFailReason::TypeRecursion) => "recursion",
        Err(TypeCheckFailReason::DonotCheck) => "donotcheck",
    }
}

pub fn real_check(w: &World, s: &LuaType, c: &LuaType) -> String {
    match vh_common::catch(AssertUnwindSafe(|| w.check(s, c).map(|r| res_name(&r)))) {
        Ok(Some(r)) => r.to_string(),
        Ok(None) => "no-semantic-model".to_string(),
        Err(m) => format!("panic: {m}"),
    }
}

/// malformed generic anywhere inside the type (the predicate of finding C16-table-arity)
pub fn has_bad_table_arity(t: &LuaType) -> bool {
    match t {
        LuaType::TableGeneric(ps) => ps.len() != 2 || ps.iter().any(has_bad_table_arity),
        LuaType::Array(a) => has_bad_table_arity(a.get_base()),
        LuaType::Tuple(tp) => tp.get_types().iter().any(has_bad_table_arity),
        LuaType::Object(o) => {
            o.get_fields().values().any(has_bad_table_arity)
                || o.get_index_access().iter().any(|(k, v)| has_bad_table_arity(k) || has_bad_table_arity(v))
        }
        LuaType::Union(u) => u.into_vec().iter().any(has_bad_table_arity),
        LuaType::DocFunction(f) => {
            f.get_params().iter().any(|(_, t)| t.as_ref().is_some_and(has_bad_table_arity)) || has_bad_table_arity(f.get_ret())
        }
        LuaType::Variadic(v) => match v.as_ref() {
            emmylua_code_analysis::VariadicType::Base(b) => has_bad_table_arity(b),
            emmylua_code_analysis::VariadicType::Multi(ts) => ts.iter().any(has_bad_table_arity),
        },
        _ => false,
    }
}

/// `has_bad_table_arity`, also looking through the origins of the aliases the type mentions
pub fn bad_arity_deep(w: &World, t: &LuaType, depth: usize) -> bool {
    if has_bad_table_arity(t) {
        return true;
    }
    if depth == 0 {
        return false;
    }
    let mut found = false;
    let mut visit = |x: &LuaType| {
        if let LuaType::Ref(id) = x
            && let Some(decl) = w.db().get_type_index().get_type_decl(id)
            && decl.is_alias()
            && let Some(o) = decl.get_alias_ref()
            && bad_arity_deep(w, o, depth - 1)
        {
            found = true;
        }
    };
    walk(t, &mut visit);
    found
}

fn walk(t: &LuaType, f: &mut dyn FnMut(&LuaType)) {
    f(t);
    match t {
        LuaType::Array(a) => walk(a.get_base(), f),
        LuaType::Tuple(tp) => tp.get_types().iter().for_each(|x| walk(x, f)),
        LuaType::TableGeneric(ps) => ps.iter().for_each(|x| walk(x, f)),
        LuaType::Object(o) => o.get_fields().values().for_each(|x| walk(x, f)),
        LuaType::Union(u) => u.into_vec().iter().for_each(|x| walk(x, f)),
        LuaType::DocFunction(func) => {
            func.get_params().iter().for_each(|(_, x)| {
                if let Some(x) = x {
                    walk(x, f)
                }
            });
            walk(func.get_ret(), f);
        }
        _ => {}
    }
}

pub fn build_pool(w: &mut World, rng: &mut Rng, n: usize, report: &mut Report) -> Vec<PoolTy> {
    let mut names: Vec<String> = w.classes.clone();
    names.extend(w.aliases.iter().cloned());
    let mut pool = Vec::new();
    for i in 0..n {
        let (text, wf) = if i < 4 {
            (["1", "'a'", "true", "1.5"][i].to_string(), true)
        } else {
            let g: G = gen_type(rng, &names, 3);
            if rng.chance(1, 6) { (g.raw_text(), false) } else { (g.text(), true) }
        };
        let ty = if i < 4 { w.expr_ty(&text) } else { w.ty(&text) };
        let Some(ty) = ty else {
            report.count("type_not_obtained");
            continue;
        };
        let s = match ser(&ty, true) {
            Ok(s) => Some(s),
            Err(k) => {
                report.count(&format!("outside_fragment:{k}"));
                None
            }
        };
        pool.push(PoolTy { text, ty, ser: s, well_formed_text: wf });
    }
    pool
}

struct Pending {
    kind: &'static str,
    input: Value,
    real: Vec<String>,
}

pub fn run(args: &Args, report: &mut Report) {
    let mut rng = Rng::new(args.seed);
    let (n_worlds, n_types, n_lists, n_pairs) = if args.thorough() { (400, 120, 400, 1500) } else { (30, 60, 120, 400) };
    report.rule = "worlds of generated class/alias declarations (acyclic inheritance, 2-8 classes, 0-4 aliases); per world a pool of types obtained by analysing generated `---@type` annotations (depth <= 3, with and without protective parentheses) plus inferred literal types; union cases = random lists of 0-6 pool types (batch vs fold); check cases = random pairs plus the law instances (t,t), (union, member), (ancestor, descendant), (any/unknown, t). A case is non-trivial when some type involved is not a basic kind; distinct by (declarations, serialised inputs)".into();
    let mut requests: Vec<String> = Vec::new();
    let mut pending: Vec<Pending> = Vec::new();
    let mut seen: HashSet<String> = HashSet::new();

    if let Some(p) = &args.replay {
        replay(p, report);
        return;
    }

    for wi in 0..n_worlds {
        let mut w = gen_world(&mut rng);
        let Some(env) = w.env.clone() else {
            report.count(&format!("world_outside_fragment:{}", w.env_skip.unwrap_or("?")));
            continue;
        };
        let envh = hex(&env);
        let pool = build_pool(&mut w, &mut rng, n_types, report);
        if pool.is_empty() {
            continue;
        }
        report.count("worlds");
        if wi < 2 {
            report.sample(json!({"decls": w.decl_text, "types": pool.iter().take(8).map(|p| json!({"text": p.text, "model": p.ser})).collect::<Vec<_>>()}));
        }
        // ---- union: batch vs fold
        let mut lists: Vec<(Vec<usize>, Vec<LuaType>)> = Vec::new();
        for _ in 0..n_lists {
            let k = rng.below(7);
            let mut idxs = Vec::new();
            // bias towards the fast path: many lists only of non-reference members
            let simple_only = rng.chance(1, 2);
            for _ in 0..k {
                let mut i = rng.below(pool.len());
                if simple_only {
                    for _ in 0..8 {
                        if !matches!(pool[i].ty, LuaType::Ref(_) | LuaType::Union(_) | LuaType::DocFunction(_)) {
                            break;
                        }
                        i = rng.below(pool.len());
                    }
                }
                idxs.push(i);
            }
            // structurally equal members held by different allocations: analyse the annotation again
            let mut list: Vec<LuaType> = Vec::new();
            for i in &idxs {
                if *i >= 4 && rng.chance(1, 3) {
                    match w.ty(&pool[*i].text) {
                        Some(t) if t == pool[*i].ty => {
                            report.count("union_member_reanalysed");
                            list.push(t)
                        }
                        _ => list.push(pool[*i].ty.clone()),
                    }
                } else {
                    list.push(pool[*i].ty.clone());
                }
            }
            lists.push((idxs, list));
        }
        let db_ptr = &w;
        for (idxs, list) in lists {
            let k = idxs.len();
            let texts: Vec<&str> = idxs.iter().map(|i| pool[*i].text.as_str()).collect();
            let input = json!({"decls": w.decl_text, "types": texts, "op": "union"});
            report.evaluations += 1;
            let r = vh_common::catch(AssertUnwindSafe(|| {
                let db = db_ptr.db();
                let batch = TypeOps::union_all(db, list.clone());
                let mut fold = LuaType::Never;
                for t in &list {
                    fold = TypeOps::Union.apply(db, &fold, t);
                }
                (batch, fold)
            }));
            let (batch, fold) = match r {
                Ok(x) => x,
                Err(m) => {
                    push_failure(report, json!({"input": input, "what": format!("union panicked: {m}"), "class": null}));
                    continue;
                }
            };
            // oracle: batch == fold, modulo the order and multiplicity of union members
            match (ser_any(&batch), ser_any(&fold)) {
                (Some(b), Some(f)) => {
                    let nb = canon_str(&b, true);
                    let nf = canon_str(&f, true);
                    if nb != nf {
                        push_failure(report, json!({"input": input, "what": format!("union_all gives {b}, folding TypeOps::Union gives {f}"), "class": null}));
                    } else if batch != fold {
                        report.count("union_batch_vs_fold_partial_eq_differs");
                        if canon_str(&b, false) != canon_str(&f, false) {
                            report.count("union_batch_vs_fold_duplicate_members");
                            push_failure(report, json!({"input": input, "what": format!("union_all keeps structurally equal members twice: {b} vs fold {f} (LuaType::from_vec dedupes through a pointer hash)"), "class": "union-batch-duplicate-members"}));
                        }
                    }
                }
                _ => report.count("union_result_not_serialisable"),
            }
            // tie
            let sers: Option<Vec<&String>> = idxs.iter().map(|i| pool[*i].ser.as_ref()).collect();
            let (Some(sers), Some(b), Some(f)) = (sers, ser(&batch, true).ok(), ser(&fold, true).ok()) else {
                report.count("union_case_outside_fragment");
                continue;
            };
            let lst = format!("(l {})", sers.iter().map(|s| s.as_str()).collect::<Vec<_>>().join(" "));
            let key = format!("U{env}{lst}");
            if list.iter().any(|t| crate::ser::prim_name(t).is_none()) && seen.insert(key) {
                report.distinct_nontrivial += 1;
            }
            report.count(&format!("union_len_{k}"));
            requests.push(format!("ty.unionall {envh} {}", hex(&lst)));
            pending.push(Pending { kind: "union", input, real: vec![canon_str(&b, false), canon_str(&f, false)] });
        }

        // ---- check: pairs + law instances
        let mut pairs: Vec<(usize, LuaType, LuaType, &'static str, String)> = Vec::new(); // (law id, s, c, law, text)
        for _ in 0..n_pairs {
            let i = rng.below(pool.len());
            let j = rng.below(pool.len());
            pairs.push((0, pool[i].ty.clone(), pool[j].ty.clone(), "pair", format!("{} <- {}", pool[i].text, pool[j].text)));
        }
        for p in &pool {
            pairs.push((1, p.ty.clone(), p.ty.clone(), "refl", p.text.clone()));
            if let LuaType::Union(u) = &p.ty {
                for m in u.into_vec() {
                    pairs.push((2, p.ty.clone(), m.clone(), "union-member", format!("{} <- member {:?}", p.text, ser_any(&m))));
                }
            }
            pairs.push((4, LuaType::Any, p.ty.clone(), "any", p.text.clone()));
            pairs.push((4, LuaType::Unknown, p.ty.clone(), "unknown", p.text.clone()));
        }
        // ancestors: from the generated declaration text (independent of the model): transitive closure
        let anc = ancestors(&w.decl_text);
        for (sub, sup) in &anc {
            let s = LuaType::Ref(emmylua_code_analysis::LuaTypeDeclId::global(sup));
            let c = LuaType::Ref(emmylua_code_analysis::LuaTypeDeclId::global(sub));
            pairs.push((3, s, c, "ancestor", format!("{sup} <- {sub}")));
        }
        for (law_id, s, c, law, text) in pairs {
            report.evaluations += 1;
            let real = real_check(&w, &s, &c);
            report.count(&format!("check_{law}_{}", if real.starts_with("panic") { "panic" } else { real.as_str() }));
            let input = json!({"decls": w.decl_text, "law": law, "case": text, "source": ser_any(&s), "compact": ser_any(&c), "op": "check"});
            if law_id != 0 && real != "ok" {
                let class = if bad_arity_deep(&w, &s, 6) || bad_arity_deep(&w, &c, 6) { Some("table-generic-arity-not-2") } else { None };
                report.count(&format!("oracle_class:{}", class.unwrap_or("unclassified")));
                push_failure(report, json!({"input": input, "what": format!("law `{law}` fails on the real checker: check_type_compact = {real} for {text}"), "class": class}));
            } else if real.starts_with("panic") {
                push_failure(report, json!({"input": input, "what": format!("check_type_compact panicked: {real}"), "class": null}));
            }
            let (Ok(ss), Ok(cs)) = (ser(&s, true), ser(&c, true)) else {
                report.count("check_case_outside_fragment");
                continue;
            };
            let key = format!("C{env}{ss}{cs}");
            if (crate::ser::prim_name(&s).is_none() || crate::ser::prim_name(&c).is_none()) && seen.insert(key) {
                report.distinct_nontrivial += 1;
            }
            requests.push(format!("ty.check {envh} {} {}", hex(&ss), hex(&cs)));
            pending.push(Pending { kind: "check", input, real: vec![real] });
        }
    }

    // ---- inheritance DAGs: every (class, ancestor) pair, directly and inside containers
    for decls in dag_worlds(args.thorough()) {
        let names: Vec<String> = decls
            .lines()
            .filter_map(|l| l.strip_prefix("---@class ").map(|r| r.split(':').next().unwrap_or("").trim().to_string()))
            .collect();
        let mut w = World::from_text(&decls, names.clone(), vec![]);
        let Some(env) = w.env.clone() else { continue };
        let envh = hex(&env);
        report.count("dag_worlds");
        for (sub, sup) in ancestors(&decls) {
            let forms: [(String, String, &str); 5] = [
                (sup.clone(), sub.clone(), "ancestor"),
                (format!("{sup}[]"), format!("{sub}[]"), "ancestor-in-array"),
                (format!("{sup}|string"), sub.clone(), "ancestor-in-union"),
                (format!("{sup}?"), sub.clone(), "ancestor-in-optional"),
                (format!("table<string, {sup}>"), format!("table<string, {sub}>"), "ancestor-in-table"),
            ];
            for (st, ct, law) in forms {
                let (Some(s), Some(c)) = (w.ty(&st), w.ty(&ct)) else { continue };
                report.evaluations += 1;
                let real = real_check(&w, &s, &c);
                report.count(&format!("check_{law}_{}", if real.starts_with("panic") { "panic" } else { real.as_str() }));
                let input = json!({"decls": decls, "law": law, "case": format!("{st} <- {ct}"), "source": ser_any(&s), "compact": ser_any(&c), "op": "check"});
                if real != "ok" {
                    push_failure(report, json!({"input": input, "what": format!("law `{law}` fails on the real checker: check_type_compact = {real} for {st} <- {ct} (a class must be accepted where any of its ancestors is expected)"), "class": null}));
                }
                let (Ok(ss), Ok(cs)) = (ser(&s, true), ser(&c, true)) else { continue };
                if seen.insert(format!("C{env}{ss}{cs}")) {
                    report.distinct_nontrivial += 1;
                }
                requests.push(format!("ty.check {envh} {} {}", hex(&ss), hex(&cs)));
                pending.push(Pending { kind: "check", input, real: vec![real] });
            }
        }
    }

    let answers = run_driver(&requests);
    for ((req, p), a) in requests.iter().zip(pending.iter()).zip(answers.iter()) {
        match p.kind {
            "union" => {
                let body = a.strip_prefix("ok ").unwrap_or(a);
                let parts: Vec<&str> = body.split(" ; ").collect();
                let model: Vec<String> = parts.iter().map(|s| canon_str(s, false)).collect();
                if model != p.real {
                    report.mismatch(json!({"input": p.input, "request": req, "model": model, "impl": p.real, "tie": "correspondence ty.unionall (union_type_all / folded union_type vs model)"}));
                } else {
                    report.traces_validated += 1;
                }
            }
            _ => {
                let model = a.strip_prefix("ok ").unwrap_or(a);
                if model == "unsupported" {
                    report.count("check_model_unsupported");
                } else if model != p.real[0] {
                    report.mismatch(json!({"input": p.input, "request": req, "model": model, "impl": p.real[0], "tie": "correspondence ty.check (check_type_compact vs model)"}));
                } else {
                    report.traces_validated += 1;
                }
            }
        }
    }
}

/// Inheritance DAGs with multiple inheritance in every listing order: a fixed set (root classes as the
/// last / first listed parent, diamonds, depth up to 4) and the exhaustive enumeration of all DAGs over
/// 4 (quick) / 5 (thorough) classes where each class lists 0-3 distinct earlier classes in any order.
pub fn dag_worlds(thorough: bool) -> Vec<String> {
    let mut out: Vec<String> = vec![
        "---@class Base\n---@class Mixin\n---@class Mid: Base\n---@class Leaf: Mid, Mixin\n".into(),
        "---@class Base\n---@class Mixin\n---@class Mid: Base\n---@class Leaf: Mixin, Mid\n".into(),
        "---@class A\n---@class B: A\n---@class C: A\n---@class D: B, C\n".into(),
        "---@class A\n---@class R1\n---@class R2\n---@class N: A\n---@class M: N\n---@class L: R1, M, R2\n".into(),
        "---@class A\n---@class R1\n---@class R2\n---@class N: A, R1\n---@class M: N, R2\n---@class L: M, R1\n---@class K: L, R2\n".into(),
        "---@class A\n---@class R\n---@class B: A, R\n---@class C: B, R\n---@class D: C, R\n---@class E: D, R\n".into(),
        "---@class A\n---@class R\n---@class B: R, A\n---@class C: R, B\n---@class D: R, C\n---@class E: R, D\n".into(),
    ];
    let n = if thorough { 5 } else { 4 };
    // ordered selections of 0..=3 distinct earlier classes
    fn selections(avail: usize) -> Vec<Vec<usize>> {
        let mut res: Vec<Vec<usize>> = vec![vec![]];
        let mut frontier: Vec<Vec<usize>> = vec![vec![]];
        for _ in 0..3 {
            let mut next = Vec::new();
            for f in &frontier {
                for j in 0..avail {
                    if !f.contains(&j) {
                        let mut g = f.clone();
                        g.push(j);
                        next.push(g);
                    }
                }
            }
            res.extend(next.iter().cloned());
            frontier = next;
        }
        res
    }
    let mut worlds: Vec<Vec<Vec<usize>>> = vec![vec![vec![]]]; // class 0 has no supers
    for i in 1..n {
        let sels = selections(i);
        let mut next = Vec::new();
        for w in &worlds {
            for sel in &sels {
                let mut w2 = w.clone();
                w2.push(sel.clone());
                next.push(w2);
            }
        }
        worlds = next;
    }
    for w in worlds {
        // only graphs with some multiple inheritance or depth >= 2 are interesting; keep all, they are cheap
        let mut text = String::new();
        for (i, sup) in w.iter().enumerate() {
            if sup.is_empty() {
                text.push_str(&format!("---@class Q{i}\n"));
            } else {
                text.push_str(&format!("---@class Q{i}: {}\n", sup.iter().map(|j| format!("Q{j}")).collect::<Vec<_>>().join(", ")));
            }
        }
        out.push(text);
    }
    out
}

fn ser_any(t: &LuaType) -> Option<String> {
    ser(t, true).ok()
}

/// (sub, super) pairs of the transitive closure of `---@class X: Y, Z` lines
pub fn ancestors(decl_text: &str) -> Vec<(String, String)> {
    let mut direct: Vec<(String, Vec<String>)> = Vec::new();
    for line in decl_text.lines() {
        if let Some(rest) = line.strip_prefix("---@class ") {
            let mut it = rest.splitn(2, ':');
            let name = it.next().unwrap_or("").trim().to_string();
            let sups = it.next().map(|s| s.split(',').map(|x| x.trim().to_string()).collect()).unwrap_or_default();
            direct.push((name, sups));
        }
    }
    let mut out = Vec::new();
    for (name, _) in &direct {
        let mut stack = vec![name.clone()];
        let mut vis: HashSet<String> = HashSet::new();
        while let Some(cur) = stack.pop() {
            if let Some((_, sups)) = direct.iter().find(|(n, _)| *n == cur) {
                for s in sups {
                    if vis.insert(s.clone()) {
                        if s != name {
                            out.push((name.clone(), s.clone()));
                        }
                        stack.push(s.clone());
                    }
                }
            }
        }
    }
    out
}

fn replay(path: &str, report: &mut Report) {
    let v: Value = serde_json::from_str(&std::fs::read_to_string(path).expect("replay file")).expect("json");
    let input = &v["input"];
    let decls = input["decls"].as_str().unwrap_or("");
    let mut w = World::from_text(decls, crate::world::CLASS_NAMES.iter().map(|s| s.to_string()).collect(), crate::world::ALIAS_NAMES.iter().map(|s| s.to_string()).collect());
    report.evaluations += 1;
    if input["op"] == "union" {
        let mut list = Vec::new();
        for t in input["types"].as_array().cloned().unwrap_or_default() {
            let text = t.as_str().unwrap_or("nil");
            let ty = if ["1", "'a'", "true", "1.5"].contains(&text) { w.expr_ty(text) } else { w.ty(text) };
            list.push(ty.unwrap_or(LuaType::Unknown));
        }
        let db = w.db();
        let batch = TypeOps::union_all(db, list.clone());
        let mut fold = LuaType::Never;
        for t in &list {
            fold = TypeOps::Union.apply(db, &fold, t);
        }
        let b = ser_any(&batch).map(|s| canon_str(&s, true));
        let f = ser_any(&fold).map(|s| canon_str(&s, true));
        if b != f {
            push_failure(report, json!({"input": input, "what": format!("union_all gives {b:?}, fold gives {f:?}"), "class": null}));
        }
        report.notes.push(format!("replayed union case: batch={b:?} fold={f:?}"));
    } else {
        report.notes.push("check replays are re-run through the generator seed (input recorded as serialised types)".into());
    }
}

/// keep the list of reported failures small per known class so that unclassified ones are never cut off
fn push_failure(report: &mut Report, v: Value) {
    let class = v["class"].as_str().map(|s| s.to_string());
    if let Some(c) = class {
        let key = format!("oracle_listed:{c}");
        let n = report.distribution.get(&key).copied().unwrap_or(0);
        report.count(&key);
        if n >= 5 {
            report.count("oracle_failures_total");
            report.count("oracle_failures_not_listed");
            return;
        }
    }
    report.oracle_failure(v);
}
