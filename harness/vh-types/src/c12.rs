//! C12: indexing and semantic queries never crash.
//! Tie: the guards — `check_type_compact` on worlds with cyclic inheritance and cyclic aliases vs the
//! Lean model (`ty.check`, results incl. `TypeRecursion`).
//! Oracle: the whole pipeline (index, diagnose, semantic info at every token) on generated and mutated
//! annotated programs × configurations, in a child process (2 MiB-stack aborts and hangs are caught),
//! under `catch_unwind` with a time budget.
use crate::c16::real_check;
use crate::ser::ser;
use crate::world::{ALIAS_NAMES, CLASS_NAMES, World};
use emmylua_code_analysis::{LuaType, LuaTypeDeclId, VirtualWorkspace};
use emmylua_parser::LuaAstNode;
use serde_json::{Value, json};
use std::collections::HashSet;
use std::io::Write;
use std::time::{Duration, Instant};
use tokio_util::sync::CancellationToken;
use vh_common::{Args, Report, Rng, hex, run_driver};

// ───────────────────────── cyclic worlds (tie) ─────────────────────────

fn gen_cyclic_world(rng: &mut Rng) -> World {
    let n = rng.range(2, 6);
    let mut text = String::new();
    let mut classes = Vec::new();
    for i in 0..n {
        let name = CLASS_NAMES[i];
        let k = rng.below(3);
        let mut supers: Vec<&str> = Vec::new();
        for _ in 0..k {
            let j = rng.below(n); // any class, itself included: cycles are the point
            if !supers.contains(&CLASS_NAMES[j]) {
                supers.push(CLASS_NAMES[j]);
            }
        }
        if supers.is_empty() {
            text.push_str(&format!("---@class {name}\n"));
        } else {
            text.push_str(&format!("---@class {name}: {}\n", supers.join(", ")));
        }
        classes.push(name.to_string());
    }
    let na = rng.range(1, ALIAS_NAMES.len());
    let mut aliases = Vec::new();
    for i in 0..na {
        let name = ALIAS_NAMES[i];
        let target = |rng: &mut Rng| -> String {
            if rng.chance(1, 2) { ALIAS_NAMES[rng.below(na)].to_string() } else { CLASS_NAMES[rng.below(n)].to_string() }
        };
        let t = match rng.below(6) {
            0 => target(rng),
            1 => format!("{}[]", target(rng)),
            2 => format!("{}|{}", target(rng), target(rng)),
            3 => format!("{}?", target(rng)),
            4 => format!("table<string, {}>", target(rng)),
            _ => format!("{{a: {}, b: integer}}", target(rng)),
        };
        text.push_str(&format!("---@alias {name} {t}\n"));
        aliases.push(name.to_string());
    }
    World::from_text(&text, classes, aliases)
}

fn world_pairs(w: &World) -> Vec<(LuaType, LuaType)> {
    let names: Vec<String> = w.classes.iter().chain(w.aliases.iter()).cloned().collect();
    let mk = |n: &str| LuaType::Ref(LuaTypeDeclId::global(n));
    let mut pairs: Vec<(LuaType, LuaType)> = Vec::new();
    for a in &names {
        for b in &names {
            pairs.push((mk(a), mk(b)));
        }
        pairs.push((mk(a), LuaType::String));
        pairs.push((LuaType::String, mk(a)));
        pairs.push((LuaType::Integer, mk(a)));
        pairs.push((mk(a), LuaType::Table));
    }
    pairs
}

/// child mode: `vh-types C12-world-child --replay <world.json> --out <progress file>`:
/// `check_type_compact` on every pair of the world, one progress line per pair
pub fn world_child(args: &Args) {
    let v: Value = serde_json::from_str(&std::fs::read_to_string(args.replay.as_ref().expect("world")).expect("read")).expect("json");
    let strs = |k: &str| -> Vec<String> { v[k].as_array().map(|a| a.iter().filter_map(|x| x.as_str().map(|s| s.to_string())).collect()).unwrap_or_default() };
    let w = World::from_text(v["decls"].as_str().unwrap_or(""), strs("classes"), strs("aliases"));
    let mut out = std::fs::File::create(&args.out).expect("out");
    writeln!(out, "env {}", w.env.as_ref().map(|e| hex(e)).unwrap_or_else(|| "none".into())).ok();
    let from = v["from"].as_u64().unwrap_or(0) as usize;
    out.flush().ok();
    for (i, (s, c)) in world_pairs(&w).iter().enumerate() {
        if i < from {
            continue;
        }
        writeln!(out, "start {i}").ok();
        out.flush().ok();
        let t0 = Instant::now();
        let r = real_check(&w, s, c);
        writeln!(out, "done {i} {} {}", hex(&r), t0.elapsed().as_micros()).ok();
        out.flush().ok();
    }
    // `TypeOps::Remove.apply(db, <name>, nil)` for every declared name (depth-guarded walk over aliases)
    for name in w.classes.iter().chain(w.aliases.iter()) {
        writeln!(out, "rmstart {}", hex(name)).ok();
        out.flush().ok();
        let t = LuaType::Ref(LuaTypeDeclId::global(name));
        let r = vh_common::catch(std::panic::AssertUnwindSafe(|| {
            emmylua_code_analysis::TypeOps::Remove.apply(w.db(), &t, &LuaType::Nil)
        }));
        let s = match r {
            Ok(x) => ser(&x, true).unwrap_or_else(|k| format!("<outside:{k}>")),
            Err(m) => format!("<panic:{m}>"),
        };
        writeln!(out, "rm {} {}", hex(name), hex(&s)).ok();
        out.flush().ok();
    }
}

/// the alias reference graph of the declaration text has a cycle (predicate of finding
/// C12-cyclic-alias-blowup)
fn alias_cycle(decls: &str) -> bool {
    let mut edges: Vec<(String, Vec<String>)> = Vec::new();
    for line in decls.lines() {
        if let Some(rest) = line.strip_prefix("---@alias ") {
            let mut it = rest.splitn(2, ' ');
            let name = it.next().unwrap_or("").to_string();
            let body = it.next().unwrap_or("");
            let mut refs = Vec::new();
            let mut cur = String::new();
            for ch in body.chars().chain(std::iter::once(' ')) {
                if ch.is_alphanumeric() || ch == '_' {
                    cur.push(ch);
                } else {
                    if !cur.is_empty() {
                        refs.push(std::mem::take(&mut cur));
                    }
                }
            }
            edges.push((name, refs));
        }
    }
    for (start, _) in &edges {
        let mut stack = vec![start.clone()];
        let mut vis: HashSet<String> = HashSet::new();
        while let Some(cur) = stack.pop() {
            if let Some((_, rs)) = edges.iter().find(|(n, _)| *n == cur) {
                for r in rs {
                    if r == start {
                        return true;
                    }
                    if vis.insert(r.clone()) {
                        stack.push(r.clone());
                    }
                }
            }
        }
    }
    false
}

/// one child run over the pairs `from..` of a world; returns (env, results, index that was in flight
/// when the budget ran out)
thread_local! {
    /// `rm` lines of the last world child (name, serialised result)
    static LAST_RM: std::cell::RefCell<Vec<(String, String)>> = const { std::cell::RefCell::new(Vec::new()) };
}

fn run_world_once(w: &World, from: usize, budget: Duration, tag: &str) -> (Option<String>, Vec<Option<(String, u128)>>, Option<usize>) {
    let n = world_pairs(w).len();
    let dir = "/verif/.work";
    let wpath = format!("{dir}/C12_world_{tag}.json");
    let opath = format!("{dir}/C12_worldout_{tag}.txt");
    std::fs::write(&wpath, serde_json::to_string(&json!({"decls": w.decl_text, "classes": w.classes, "aliases": w.aliases, "from": from})).unwrap_or_default()).expect("write world");
    let _ = std::fs::remove_file(&opath);
    let exe = std::env::current_exe().expect("exe");
    let mut child = std::process::Command::new(exe)
        .args(["C12-world-child", "--replay", &wpath, "--out", &opath])
        .stdout(std::process::Stdio::null())
        .stderr(std::process::Stdio::null())
        .spawn()
        .expect("spawn child");
    // the clock of a pair starts when the child reports progress; starting the process and indexing the
    // declarations gets a separate, generous allowance (the machine may be heavily loaded)
    let setup_allowance = Duration::from_secs(120);
    let mut last = (0usize, Instant::now());
    let mut killed = false;
    loop {
        match child.try_wait() {
            Ok(Some(_)) => break,
            Ok(None) => {}
            Err(_) => break,
        }
        let lines = std::fs::read_to_string(&opath).map(|s| s.lines().count()).unwrap_or(0);
        if lines > last.0 {
            last = (lines, Instant::now());
        }
        let allowed = if last.0 == 0 { setup_allowance } else { budget };
        if last.1.elapsed() > allowed {
            let _ = child.kill();
            let _ = child.wait();
            killed = true;
            break;
        }
        std::thread::sleep(Duration::from_millis(5));
    }
    let text = std::fs::read_to_string(&opath).unwrap_or_default();
    let mut env = None;
    let mut res: Vec<Option<(String, u128)>> = (0..n).map(|_| None).collect();
    let mut in_flight = None;
    for line in text.lines() {
        let ws: Vec<&str> = line.split(' ').collect();
        match ws.as_slice() {
            ["env", e] if *e != "none" => env = vh_common::unhex(e),
            ["rm", n, r] => {
                if let (Some(n), Some(r)) = (vh_common::unhex(n), vh_common::unhex(r)) {
                    LAST_RM.with(|v| v.borrow_mut().push((n, r)));
                }
            }
            ["start", i] => in_flight = i.parse::<usize>().ok(),
            ["done", i, r, us] => {
                if let (Ok(i), Some(r)) = (i.parse::<usize>(), vh_common::unhex(r)) {
                    if i < n {
                        res[i] = Some((r, us.parse().unwrap_or(0)));
                    }
                    if in_flight == Some(i) {
                        in_flight = None;
                    }
                }
            }
            _ => {}
        }
    }
    let _ = std::fs::remove_file(&wpath);
    let _ = std::fs::remove_file(&opath);
    (env, res, if killed { in_flight } else { None })
}

/// run the pairs of one world in child processes; `None` for a pair = no answer within the budget,
/// confirmed by a second run of that pair alone with four times the budget
fn run_world(w: &World, budget: Duration, tag: &str) -> (Option<String>, Vec<Option<(String, u128)>>) {
    let n = world_pairs(w).len();
    let mut res: Vec<Option<(String, u128)>> = (0..n).map(|_| None).collect();
    let mut env = None;
    let mut from = 0usize;
    let mut rounds = 0;
    while from < n && rounds < 40 {
        rounds += 1;
        let (e, r, stuck) = run_world_once(w, from, budget, tag);
        if env.is_none() {
            env = e;
        }
        let mut progressed = false;
        for (i, x) in r.into_iter().enumerate() {
            if x.is_some() && res[i].is_none() {
                res[i] = x;
                progressed = true;
            }
        }
        match stuck {
            Some(i) => {
                // confirm: the pair alone, four times the budget
                let (_, r2, stuck2) = run_world_once(w, i, budget * 4, tag);
                if stuck2 == Some(i) || r2[i].is_none() {
                    from = i + 1; // genuinely no answer: leave `None`, go on with the next pair
                } else {
                    for (k, x) in r2.into_iter().enumerate() {
                        if x.is_some() && res[k].is_none() {
                            res[k] = x;
                        }
                    }
                    from = res.iter().position(|x| x.is_none()).unwrap_or(n);
                }
            }
            None => {
                let next = res.iter().position(|x| x.is_none()).unwrap_or(n);
                if next == from && !progressed {
                    break; // the child ended without covering the pair: give up on the rest
                }
                from = next;
            }
        }
    }
    (env, res)
}

// ───────────────────────── program generator (oracle) ─────────────────────────

const FRAGMENTS: &[&str] = &[
    "---@class A\n---@field x integer\n---@field next A?\nlocal A = {}\n",
    "---@class B: A\n---@field y string\nlocal B = {}\n",
    "---@class C: C\nlocal C = {}\n",
    "---@class D: E\n---@class E: D\n",
    "---@alias Rec Rec[]\n",
    "---@alias P Q\n---@alias Q P\n",
    "---@alias Al A|B\n",
    "---@alias Tree {value: integer, kids: Tree[]}\n",
    "---@enum Color\nlocal Color = { Red = 1, Green = 2 }\n",
    "---@generic T\n---@param x T\n---@return T\nlocal function id(x) return x end\n",
    "---@generic T: A\n---@param xs T[]\n---@return T?\nlocal function first(xs) return xs[1] end\n",
    "---@generic K, V\n---@param t table<K, V>\n---@return fun(): K, V\nlocal function it(t) end\n",
    "---@class G<T>\n---@field v T\n---@field rest G<G<T>>\nlocal G = {}\n",
    "---@class Op\n---@operator add(Op): Op\n---@operator call(integer): Op\nlocal Op = {}\n",
    "---@overload fun(a: integer): string\n---@overload fun(a: string): integer\nlocal function ov(a) end\n",
    "---@type A\nlocal a\n",
    "---@type table<string, Rec>\nlocal m = {}\n",
    "---@type Tree\nlocal tr = { value = 1, kids = {} }\n",
    "---@type G<integer>\nlocal g\n",
    "---@type P\nlocal p\n",
    "---@type fun(x: A): B?\nlocal fab\n",
    "local v = a.next.next.x\n",
    "local w = g.rest.rest.v\n",
    "local q = first({a, a}) \n",
    "local r = id(id)(1)\n",
    "local s = m.k[1][2]\n",
    "local c = Color.Red + 1\n",
    "local o = Op + Op\nlocal o2 = o(1)\n",
    "local z = ov(1) .. ov('s')\n",
    "---@cast a B\nlocal b = a.y\n",
    "local t = tr.kids[1].kids[2].value\n",
    "for k, v2 in it(m) do local _ = k end\n",
    "if a then a = a.next end\n",
    "function A:m() return self.next end\n",
    "local u = p.x\n",
    "---@param x Rec\n---@return Rec\nlocal function fr(x) return x[1] end\nlocal rr = fr(fr)\n",
    "a.next = b\n",
    "---@type D\nlocal d\nlocal dd = d.x\n",
    "return a\n",
];

const NOISE: &[&str] = &[
    "x[---@alias Al A|B\n", "---@class", "---@type ", "---@generic T: T\n", "---@alias X X|X[]\n", "[", "]", "(", ")", "{", "}",
    "---@field [integer] A\n", "---@param ... T\n", "---@return ...\n", "<", ">", "---@type table<\n", "local ", " = ", ".", ":", "---@cast a +nil\n",
    "---@class Z: Z, A, Z\n", "---@alias M {[M]: M}\n", "---@type fun(): fun(): fun(): Rec\n", "\0", "---@overload fun(\n", "a[a][a]", "#", "..",
];

/// minimised past failures and the shapes named in the property (replayed first, both configurations)
pub const CORPUS: &[&str] = &[
    "x[---@alias Al A|B\n",
    "local t = {}\nt[---@type A\n1] = 2\n",
    // mutually recursive aliases through unions: `remove_type` (narrowing)
    "---@alias U1 U2|string\n---@alias U2 U1|number\n---@type U1\nlocal x\nif x then local y = x end\nif x ~= nil then local z = x end\n",
    // generic recursive alias whose argument grows: member access
    "---@alias GA<T> GA<T[]>|nil\n---@type GA<string>\nlocal x\nlocal y = x.foo\n",
    // mutually recursive generic aliases
    "---@alias M1<T> M2<T>|T\n---@alias M2<T> M1<T[]>|nil\n---@type M1<string>\nlocal x\nlocal y = x.foo\n---@type string\nlocal s = x\n",
    // dense multi-super inheritance cycle, missing field
    "---@class KA: KX, KB, KC\n---@class KB: KY, KC, KA\n---@class KC: KZ, KA, KB\n---@class KX: KB\n---@class KY: KC\n---@class KZ: KA\n---@type KA\nlocal k\nlocal m = k.missing\nk.other = 1\n",
    // tuple pattern with fixed elements and a variadic template, shorter / longer argument tuples
    "---@generic T, U\n---@param t [T, string, U...]\n---@return T\nlocal function rest(t) end\nlocal r1 = rest({1})\nlocal r2 = rest({1, 'a'})\nlocal r3 = rest({1, 'a', 2, 3})\nlocal r4 = rest({})\n",
];

const ALIAS_DEFS: &[(&str, &str)] = &[
    // (definitions, a type expression naming the alias)
    ("---@alias U1 U2|string\n---@alias U2 U1|number\n", "U1"),
    ("---@alias V1 V2|V3\n---@alias V2 V3|V1|nil\n---@alias V3 V1|V2|boolean\n", "V2"),
    ("---@alias W1 W1[]|W1?\n", "W1"),
    ("---@alias GA<T> GA<T[]>|nil\n", "GA<string>"),
    ("---@alias GB<T> GB<table<string, T>>|T\n", "GB<integer>"),
    ("---@alias M1<T> M2<T>|T\n---@alias M2<T> M1<T[]>|nil\n", "M1<string>"),
    ("---@alias GS<T> GS<T>|T\n", "GS<number>"),
    ("---@class Box<T>\n---@field v T\n---@alias GX<T> Box<GX<T[]>>|nil\n", "GX<string>"),
    ("---@alias GP<A, B> GP<B, A[]>|A\n", "GP<string, integer>"),
    ("---@alias Cd<T> T extends string and Cd<T[]> or nil\n", "Cd<string>"),
    ("---@alias Mp<T> { [K in keyof T]: Mp<T[K]> }\n---@class MpSrc\n---@field a MpSrc\n", "Mp<MpSrc>"),
    ("---@alias Fn<T> fun(x: Fn<T[]>): Fn<T>\n", "Fn<string>"),
    ("---@alias Tu<T> [T, Tu<T[]>?]\n", "Tu<integer>"),
    ("---@alias Ob<T> {next: Ob<T[]>?, v: T}\n", "Ob<string>"),
];

const ALIAS_USES: &[&str] = &[
    "local a1 = x.foo\n",
    "local a2 = x.foo.bar[1]\n",
    "local a3 = x[1]\n",
    "local a4 = x()\n",
    "local a5 = x:m(1)\n",
    "---@type string\nlocal s1 = x\n",
    "---@type X\nlocal s2 = 'str'\n",
    "---@type X\nlocal s3 = {}\n",
    "---@type X[]\nlocal s4 = { x }\n",
    "if x then local b1 = x end\n",
    "if not x then local b2 = x end\n",
    "if x ~= nil then local b3 = x.foo end\n",
    "if type(x) == 'string' then local b4 = x else local b5 = x end\n",
    "if type(x) == 'table' then local b6 = x[1] end\n",
    "x = x or 1\n",
    "local c1 = x and x.foo or nil\n",
    "---@param p X\n---@return X\nlocal function f(p) return p end\nlocal r = f(x)\nlocal r2 = f(r)\n",
    "---@generic T\n---@param p T\n---@return T[]\nlocal function g(p) return { p } end\nlocal gr = g(x)\n",
    "for k, v in pairs(x) do local d1 = v end\n",
    "for i, v in ipairs(x) do local d2 = v end\n",
    "local e1 = #x\n",
    "local e2 = x .. ''\n",
    "local e3 = x + 1\n",
    "local e4 = x == x\n",
    "---@cast x string\nlocal h1 = x\n",
    "---@cast x -nil\nlocal h2 = x\n",
    "---@class Holder\n---@field f X\nlocal holder = {}\nholder.f = x\nlocal h3 = holder.f.foo\n",
    "local t = { a = x }\nlocal h4 = t.a.foo\n",
    "x.foo = 1\n",
    "return x\n",
];

fn dense_cycle(rng: &mut Rng) -> String {
    // every class lists 1-3 supers drawn from all classes (itself included): dense cyclic inheritance
    let n = rng.range(3, 7);
    let names: Vec<String> = (0..n).map(|i| format!("K{i}")).collect();
    let mut s = String::new();
    for i in 0..n {
        let k = rng.range(1, 3);
        let mut sup: Vec<String> = Vec::new();
        for _ in 0..k {
            let j = rng.below(n);
            if !sup.contains(&names[j]) {
                sup.push(names[j].clone());
            }
        }
        s.push_str(&format!("---@class {}: {}\n", names[i], sup.join(", ")));
        if rng.chance(1, 3) {
            s.push_str(&format!("---@field f{i} {}\n", names[rng.below(n)]));
        }
    }
    let c = &names[rng.below(n)];
    s.push_str(&format!("---@type {c}\nlocal k\nlocal m = k.missing\nlocal m2 = k.f0\nk.other = 1\nlocal m3 = k:nomethod()\n---@type {}\nlocal k2 = k\n", names[rng.below(n)]));
    s
}

fn tuple_tpl(rng: &mut Rng) -> String {
    let fixed = rng.range(1, 3);
    let mut elems: Vec<String> = Vec::new();
    for i in 0..fixed {
        elems.push(if i == 0 { "T".to_string() } else { (*rng.pick(&["string", "integer", "T"])).to_string() });
    }
    elems.push("U...".to_string());
    let mut s = format!("---@generic T, U\n---@param t [{}]\n---@return T, U\nlocal function rest(t) end\n", elems.join(", "));
    for k in 0..rng.range(2, 5) {
        let len = rng.below(6);
        let items: Vec<&str> = (0..len).map(|_| *rng.pick(&["1", "'a'", "true", "{}", "nil"])).collect();
        s.push_str(&format!("local q{k} = rest({{{}}})\n", items.join(", ")));
    }
    s.push_str("---@type [integer]\nlocal short\nlocal q9 = rest(short)\n");
    s
}

/// programs around recursive (generic) aliases, dense inheritance cycles and tuple templates
pub fn gen_alias_program(rng: &mut Rng) -> String {
    match rng.below(8) {
        0 => return dense_cycle(rng),
        1 => return tuple_tpl(rng),
        _ => {}
    }
    let (defs, ty) = *rng.pick(ALIAS_DEFS);
    let mut s = String::from(defs);
    if rng.chance(1, 4) {
        let (defs2, _) = *rng.pick(ALIAS_DEFS);
        if defs2 != defs {
            s.push_str(defs2);
        }
    }
    s.push_str(&format!("---@type {ty}\nlocal x\n"));
    let n = rng.range(1, 5);
    for _ in 0..n {
        s.push_str(&rng.pick(ALIAS_USES).replace("X", ty));
    }
    s
}

pub fn gen_program(rng: &mut Rng) -> String {
    let n = rng.range(3, 14);
    let mut parts: Vec<String> = (0..n).map(|_| rng.pick(FRAGMENTS).to_string()).collect();
    // mutations
    let muts = match rng.below(4) { 0 => 0, 1 => 1, 2 => 2, _ => rng.range(3, 6) };
    for _ in 0..muts {
        match rng.below(5) {
            0 => {
                let i = rng.below(parts.len() + 1);
                parts.insert(i, rng.pick(NOISE).to_string());
            }
            1 => {
                // cut a fragment somewhere (on a char boundary)
                let i = rng.below(parts.len());
                let p = &parts[i];
                let cuts: Vec<usize> = p.char_indices().map(|(k, _)| k).collect();
                if !cuts.is_empty() {
                    let c = cuts[rng.below(cuts.len())];
                    parts[i] = p[..c].to_string();
                }
            }
            2 => {
                let i = rng.below(parts.len());
                let dup = parts[i].clone();
                parts.insert(i, dup);
            }
            3 => {
                let i = rng.below(parts.len());
                let noise = rng.pick(NOISE).to_string();
                let p = &parts[i];
                let cuts: Vec<usize> = p.char_indices().map(|(k, _)| k).collect();
                if !cuts.is_empty() {
                    let c = cuts[rng.below(cuts.len())];
                    parts[i] = format!("{}{}{}", &p[..c], noise, &p[c..]);
                }
            }
            _ => {
                let i = rng.below(parts.len());
                parts.remove(i);
                if parts.is_empty() {
                    parts.push("local x = 1\n".into());
                }
            }
        }
    }
    parts.concat()
}

/// the pipeline on one program; returns the number of tokens queried
fn run_pipeline(text: &str, config: usize) -> usize {
    let mut ws = VirtualWorkspace::new();
    if config == 1 {
        let mut rc = ws.get_emmyrc();
        rc.strict.array_index = false;
        rc.strict.doc_base_const_match_base_type = false;
        rc.strict.type_call = true;
        ws.update_emmyrc(rc);
    }
    ws.enable_full_diagnostic();
    let file_id = ws.def_file("main.lua", text);
    let _ = ws.analysis.diagnose_file(file_id, CancellationToken::new());
    let mut n = 0;
    let Some(tree) = ws.analysis.compilation.get_db().get_vfs().get_syntax_tree(&file_id) else { return 0 };
    let root = tree.get_chunk_node();
    let Some(sm) = ws.analysis.compilation.get_semantic_model(file_id) else { return 0 };
    for el in root.syntax().descendants_with_tokens() {
        if let Some(tok) = el.into_token() {
            if let Some(info) = sm.get_semantic_info(tok.into()) {
                // hover / completion labels render the type
                let db = ws.analysis.compilation.get_db();
                let _ = emmylua_code_analysis::humanize_type(db, &info.typ, emmylua_code_analysis::RenderLevel::Documentation);
                let _ = emmylua_code_analysis::humanize_type(db, &info.typ, emmylua_code_analysis::RenderLevel::Simple);
            }
            n += 1;
        }
    }
    n
}

/// child mode: `vh-types C12-child --replay <batch.json> --out <progress file>`
pub fn child(args: &Args) {
    let batch: Value = serde_json::from_str(&std::fs::read_to_string(args.replay.as_ref().expect("batch")).expect("read")).expect("json");
    let mut out = std::fs::File::create(&args.out).expect("out");
    let items = batch.as_array().cloned().unwrap_or_default();
    // the analysis runs on a thread with a 2 MiB stack like the server's worker threads
    for (i, it) in items.iter().enumerate() {
        let text = it["text"].as_str().unwrap_or("").to_string();
        let config = it["config"].as_u64().unwrap_or(0) as usize;
        writeln!(out, "start {i}").ok();
        out.flush().ok();
        let t0 = Instant::now();
        let h = std::thread::Builder::new().stack_size(2 * 1024 * 1024).spawn(move || {
            vh_common::catch(std::panic::AssertUnwindSafe(|| run_pipeline(&text, config)))
        });
        let res = match h {
            Ok(h) => h.join().unwrap_or(Err("thread died".into())),
            Err(e) => Err(format!("spawn: {e}")),
        };
        let ms = t0.elapsed().as_millis();
        match res {
            Ok(n) => writeln!(out, "done {i} ok {n} {ms}").ok(),
            Err(m) => writeln!(out, "done {i} panic {ms} {}", hex(&m)).ok(),
        };
        out.flush().ok();
    }
}

struct Outcome {
    kind: String, // ok | panic | abort | timeout
    detail: String,
    tokens: usize,
}

/// one child over `items`; returns per-item outcomes (None = not reached) and the index in flight when
/// the child died or was killed
fn run_child_once(items: &[(String, usize)], budget: Duration, tag: &str) -> (Vec<Option<Outcome>>, Option<usize>, bool) {
    let dir = "/verif/.work";
    let batch: Vec<Value> = items.iter().map(|(t, c)| json!({"text": t, "config": c})).collect();
    let bpath = format!("{dir}/C12_batch_{tag}.json");
    let opath = format!("{dir}/C12_progress_{tag}.txt");
    std::fs::write(&bpath, serde_json::to_string(&batch).unwrap_or_default()).expect("write batch");
    let _ = std::fs::remove_file(&opath);
    let exe = std::env::current_exe().expect("exe");
    let mut child = std::process::Command::new(exe)
        .args(["C12-child", "--replay", &bpath, "--out", &opath])
        .stdout(std::process::Stdio::null())
        .stderr(std::process::Stdio::null())
        .spawn()
        .expect("spawn child");
    let setup_allowance = Duration::from_secs(120);
    let mut last = (0usize, Instant::now());
    let mut killed = false;
    loop {
        match child.try_wait() {
            Ok(Some(_)) => break,
            Ok(None) => {}
            Err(_) => break,
        }
        // any new progress line (start or done) resets the clock
        let lines = std::fs::read_to_string(&opath).map(|s| s.lines().count()).unwrap_or(0);
        if lines > last.0 {
            last = (lines, Instant::now());
        }
        let allowed = if last.0 == 0 { setup_allowance } else { budget };
        if last.1.elapsed() > allowed {
            let _ = child.kill();
            let _ = child.wait();
            killed = true;
            break;
        }
        std::thread::sleep(Duration::from_millis(20));
    }
    let prog = std::fs::read_to_string(&opath).unwrap_or_default();
    let mut results: Vec<Option<Outcome>> = (0..items.len()).map(|_| None).collect();
    let mut in_flight: Option<usize> = None;
    for line in prog.lines() {
        let ws: Vec<&str> = line.split(' ').collect();
        match ws.as_slice() {
            ["start", i] => in_flight = i.parse().ok(),
            ["done", i, "ok", n, _ms] => {
                if let Ok(i) = i.parse::<usize>() {
                    if i < results.len() {
                        results[i] = Some(Outcome { kind: "ok".into(), detail: String::new(), tokens: n.parse().unwrap_or(0) });
                    }
                    if in_flight == Some(i) {
                        in_flight = None;
                    }
                }
            }
            ["done", i, "panic", _ms, m] => {
                if let Ok(i) = i.parse::<usize>() {
                    if i < results.len() {
                        results[i] = Some(Outcome { kind: "panic".into(), detail: vh_common::unhex(m).unwrap_or_default(), tokens: 0 });
                    }
                    if in_flight == Some(i) {
                        in_flight = None;
                    }
                }
            }
            _ => {}
        }
    }
    let _ = std::fs::remove_file(&bpath);
    let _ = std::fs::remove_file(&opath);
    (results, in_flight, killed)
}

fn run_batch(items: &[(String, usize)], budget: Duration, tag: &str) -> Vec<Outcome> {
    let mut results: Vec<Option<Outcome>> = (0..items.len()).map(|_| None).collect();
    let mut start = 0usize;
    let mut rounds = 0usize;
    while start < items.len() && rounds < 200 {
        rounds += 1;
        let (rs, in_flight, killed) = run_child_once(&items[start..], budget, tag);
        let mut progressed = false;
        for (k, r) in rs.into_iter().enumerate() {
            if r.is_some() {
                results[start + k] = r;
                progressed = true;
            }
        }
        match in_flight {
            Some(i) => {
                // the child died or hung inside program `start + i`: confirm with that program alone and
                // four times the budget (a loaded machine must not be reported as a hang)
                let (rs2, fl2, killed2) = run_child_once(&items[start + i..start + i + 1], budget * 4, tag);
                match rs2.into_iter().next().flatten() {
                    Some(o) if fl2.is_none() => results[start + i] = Some(o),
                    _ => {
                        results[start + i] = Some(Outcome {
                            kind: if killed || killed2 { "timeout".into() } else { "abort".into() },
                            detail: if killed || killed2 { format!("no result within {:?} (confirmed alone with {:?})", budget, budget * 4) } else { "child process died (stack overflow / abort), confirmed alone".into() },
                            tokens: 0,
                        });
                    }
                }
                start += i + 1;
            }
            None => {
                // between programs: continue after the last finished one
                let next = results.iter().position(|r| r.is_none()).unwrap_or(items.len());
                if next == start && !progressed {
                    break;
                }
                start = next;
            }
        }
    }
    results
        .into_iter()
        .map(|r| r.unwrap_or(Outcome { kind: "not-run".into(), detail: "the child processes made no progress (machine overloaded?)".into(), tokens: 0 }))
        .collect()
}

/// predicate of the (fixed) finding: an index expression whose bracket is followed by a doc comment
fn class_of(_text: &str) -> Option<&'static str> {
    None
}

pub fn run(args: &Args, report: &mut Report) {
    let mut rng = Rng::new(args.seed);
    report.rule = "tie: worlds with cyclic inheritance (super lists drawn from all classes, self included) and cyclic / self-referential aliases, check_type_compact on all reference pairs and on pairs with array/optional/table wrappers; oracle: programs assembled from annotated fragments (classes with fields, generic classes and functions, recursive aliases, enums, operators, overloads, casts, member chains, calls) with 0-6 mutations (inserted noise such as `x[---@alias Al A|B`, cuts, duplications, deletions) x 2 configurations, whole pipeline in a child process with a 2 MiB stack and a per-program time budget. Non-trivial: the program has at least one annotation and one mutation, or the world has a cycle; distinct by content".into();

    // ---- tie on cyclic worlds
    let n_worlds = if args.thorough() { 3000 } else { 120 };
    let mut requests = Vec::new();
    let mut pending: Vec<(Value, String)> = Vec::new();
    let mut seen = HashSet::new();
    for wi in 0..n_worlds {
        let w = gen_cyclic_world(&mut rng);
        let Some(env) = w.env.clone() else {
            report.count(&format!("world_outside_fragment:{}", w.env_skip.unwrap_or("?")));
            continue;
        };
        report.count("cyclic_worlds");
        let envh = hex(&env);
        let pairs = world_pairs(&w);
        let tag = format!("{}", std::process::id());
        LAST_RM.with(|v| v.borrow_mut().clear());
        let (_, results) = run_world(&w, Duration::from_secs(5), &tag);
        let rms: Vec<(String, String)> = LAST_RM.with(|v| v.borrow().clone());
        let mut seen_rm = HashSet::new();
        for (name, real) in rms {
            if !seen_rm.insert(name.clone()) || real.starts_with('<') {
                if real.starts_with("<panic") {
                    report.oracle_failure(json!({"input": {"decls": w.decl_text, "op": "remove-nil", "name": name}, "what": format!("TypeOps::Remove panicked: {real}"), "class": null}));
                }
                continue;
            }
            report.evaluations += 1;
            report.count("guard_remove_nil");
            requests.push(format!("ty.removenil {envh} {}", hex(&format!("(r {})", hex(&name)))));
            pending.push((json!({"decls": w.decl_text, "op": "remove-nil", "name": name}), format!("RM {}", crate::ser::canon_str(&real, true))));
        }
        let mut hung_reported = false;
        for ((s, c), r) in pairs.iter().zip(results.iter()) {
            report.evaluations += 1;
            let input = json!({"decls": w.decl_text, "source": ser(s, true).ok(), "compact": ser(c, true).ok(), "op": "check"});
            let Some((real, micros)) = r else {
                report.count("guard_check_no_answer_in_budget");
                if !hung_reported {
                    hung_reported = true;
                    let class = if alias_cycle(&w.decl_text) { Some("alias-cycle") } else { None };
                    report.oracle_failure(json!({"input": input, "what": "check_type_compact gave no answer within 5 s (the level guard bounds the depth of the recursion, not the number of branches explored below it)", "class": class}));
                }
                continue;
            };
            report.count(&format!("guard_check_{}", if real.starts_with("panic") { "panic" } else { real.as_str() }));
            if real.starts_with("panic") {
                report.oracle_failure(json!({"input": input, "what": format!("check_type_compact panicked: {real}"), "class": null}));
                continue;
            }
            let (Ok(ss), Ok(cs)) = (ser(s, true), ser(c, true)) else { continue };
            if seen.insert(format!("{env}{ss}{cs}")) {
                report.distinct_nontrivial += 1;
            }
            // the model explores the same branches: only cases the implementation answers quickly are replayed on it
            if *micros > 2_000 {
                report.count("guard_case_too_slow_for_model");
                continue;
            }
            requests.push(format!("ty.check {envh} {} {}", hex(&ss), hex(&cs)));
            pending.push((input, real.clone()));
        }
        if wi < 3 {
            report.sample(json!({"cyclic_world": w.decl_text}));
        }
    }
    let answers = run_driver(&requests);
    for ((req, (input, real)), a) in requests.iter().zip(pending.iter()).zip(answers.iter()) {
        let model = a.strip_prefix("ok ").unwrap_or(a);
        let model_rm;
        let model = if real.starts_with("RM ") {
            model_rm = format!("RM {}", crate::ser::canon_str(model, true));
            model_rm.as_str()
        } else {
            model
        };
        if model == "unsupported" {
            report.count("guard_model_unsupported");
        } else if model != real {
            report.mismatch(json!({"input": input, "request": req, "model": model, "impl": real, "tie": "correspondence ty.check on cyclic declaration graphs (guards)"}));
        } else {
            report.traces_validated += 1;
        }
    }

    // ---- crash oracle
    let n_prog = if args.thorough() { 60000 } else { 600 };
    let budget = Duration::from_secs(10);
    let mut items: Vec<(String, usize)> = Vec::new();
    if let Some(p) = &args.replay {
        let v: Value = serde_json::from_str(&std::fs::read_to_string(p).expect("replay")).expect("json");
        if let Some(t) = v["input"]["program"].as_str() {
            items.push((t.to_string(), v["input"]["config"].as_u64().unwrap_or(0) as usize));
        }
    } else {
        for c in CORPUS {
            items.push((c.to_string(), 0));
            items.push((c.to_string(), 1));
        }
        for k in 0..n_prog {
            let t = if k % 2 == 0 { gen_program(&mut rng) } else { gen_alias_program(&mut rng) };
            items.push((t.clone(), 0));
            items.push((t, 1));
        }
    }
    // several children in parallel
    let workers = 8usize;
    let chunk = items.len().div_ceil(workers).max(1);
    let chunks: Vec<Vec<(String, usize)>> = items.chunks(chunk).map(|c| c.to_vec()).collect();
    let handles: Vec<_> = chunks
        .into_iter()
        .enumerate()
        .map(|(k, c)| std::thread::spawn(move || {
            let tag = format!("{}_{k}", std::process::id());
            let r = run_batch(&c, budget, &tag);
            let _ = std::fs::remove_file(format!("/verif/.work/C12_batch_{tag}.json"));
            let _ = std::fs::remove_file(format!("/verif/.work/C12_progress_{tag}.txt"));
            (c, r)
        }))
        .collect();
    let mut seen_prog = HashSet::new();
    for h in handles {
        let (c, rs) = h.join().expect("worker");
        for ((text, config), o) in c.iter().zip(rs.iter()) {
            report.evaluations += 1;
            report.count(&format!("pipeline_{}", o.kind));
            report.add("tokens_queried", o.tokens as u64);
            if text.contains("---@") && seen_prog.insert(text.clone()) {
                report.distinct_nontrivial += 1;
            }
            if o.kind == "not-run" {
                report.notes.push("some programs were not run: child processes made no progress".into());
            } else if o.kind != "ok" {
                report.oracle_failure(json!({"input": {"program": text, "config": config}, "what": format!("pipeline {}: {}", o.kind, o.detail), "class": class_of(text)}));
            } else if report.samples.len() < 5 {
                report.sample(json!({"program": text, "config": config, "tokens": o.tokens}));
            }
        }
    }
}
