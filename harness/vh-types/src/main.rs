//! Harness binary for the types cluster (C16, C17, C18, C12).
mod c12;
mod c16;
mod c17;
mod c18;
mod genty;
mod ser;
mod world;

use vh_common::{Args, Report};

fn main() {
    let args = Args::parse();
    vh_common::silence_panics();
    let mut report = Report::default();
    match args.prop.as_str() {
        "C12" => c12::run(&args, &mut report),
        "C12-world-child" => {
            c12::world_child(&args);
            return;
        }
        "C12-child" => {
            c12::child(&args);
            return;
        }
        "C16" => c16::run(&args, &mut report),
        "C17" => c17::run(&args, &mut report),
        "C18" => c18::run(&args, &mut report),
        other => {
            eprintln!("vh-types: unknown property {other}");
            std::process::exit(2);
        }
    }
    report.write(&args.out);
}
