//! `LuaType` → model syntax (S-expression of `lean/EmmyVerif/Drv/Ty.lean`), and a small S-expression
//! reader used to canonicalise results (members of every union sorted, duplicates kept).
use emmylua_code_analysis::{LuaMemberKey, LuaType, LuaUnionType};
use vh_common::hex;

/// sort the members of nested unions (C16: structural equality = Rust `==`); C17 needs the real order
pub static SORT_NESTED: std::sync::atomic::AtomicBool = std::sync::atomic::AtomicBool::new(true);

/// C18: serialise parameterless doc functions structurally as `(fn <ret>)`
pub static FN_STRUCT: std::sync::atomic::AtomicBool = std::sync::atomic::AtomicBool::new(false);

pub fn prim_name(t: &LuaType) -> Option<&'static str> {
    Some(match t {
        LuaType::Unknown => "unknown",
        LuaType::Any => "any",
        LuaType::Nil => "nil",
        LuaType::Table => "table",
        LuaType::Userdata => "userdata",
        LuaType::Function => "function",
        LuaType::Thread => "thread",
        LuaType::Boolean => "boolean",
        LuaType::String => "string",
        LuaType::Integer => "integer",
        LuaType::Number => "number",
        LuaType::Io => "io",
        LuaType::SelfInfer => "self",
        LuaType::Global => "global",
        LuaType::Never => "never",
        _ => return None,
    })
}

/// Serialise a type of the fragment. `Err(kind)` names the first construct outside the fragment.
/// `top` = keep the member order of this (top-level) union; nested unions are sorted.
pub fn ser(t: &LuaType, top: bool) -> Result<String, &'static str> {
    if let Some(p) = prim_name(t) {
        return Ok(format!("(p {p})"));
    }
    Ok(match t {
        LuaType::BooleanConst(b) => format!("(bc {})", *b as u8),
        LuaType::StringConst(s) => format!("(sc {})", hex(s.as_ref())),
        LuaType::IntegerConst(i) => format!("(ic {i})"),
        LuaType::FloatConst(f) => format!("(fc {})", f.to_bits()),
        LuaType::DocStringConst(s) => format!("(ds {})", hex(s.as_ref())),
        LuaType::DocIntegerConst(i) => format!("(di {i})"),
        LuaType::DocBooleanConst(b) => format!("(db {})", *b as u8),
        LuaType::Ref(id) => format!("(r {})", hex(id.get_name())),
        LuaType::DocFunction(f)
            if FN_STRUCT.load(std::sync::atomic::Ordering::Relaxed) && f.get_params().is_empty() =>
        {
            format!("(fn {})", ser(f.get_ret(), false)?)
        }
        LuaType::DocFunction(f)
            if FN_STRUCT.load(std::sync::atomic::Ordering::Relaxed)
                && f.get_params().len() == 1
                && f.get_params()[0].1.is_some() =>
        {
            let p = f.get_params()[0].1.as_ref().map(|t| ser(t, false)).unwrap_or(Err("param"))?;
            format!("(fn1 {} {})", p, ser(f.get_ret(), false)?)
        }
        LuaType::DocFunction(f) => format!("(f {})", hex(&func_id(f))),
        LuaType::Array(a) => {
            if !matches!(a.get_len(), emmylua_code_analysis::LuaArrayLen::None) {
                return Err("array-with-len");
            }
            format!("(a {})", ser(a.get_base(), false)?)
        }
        LuaType::Tuple(tp) => {
            let mut s = String::from("(t");
            for x in tp.get_types() {
                if matches!(x, LuaType::Variadic(_)) {
                    return Err("tuple-variadic");
                }
                s.push(' ');
                s.push_str(&ser(x, false)?);
            }
            s.push(')');
            s
        }
        LuaType::TableGeneric(ps) => {
            let mut s = String::from("(g");
            for x in ps.iter() {
                s.push(' ');
                s.push_str(&ser(x, false)?);
            }
            s.push(')');
            s
        }
        LuaType::Object(o) => {
            if !o.get_index_access().is_empty() {
                return Err("object-index-access");
            }
            let mut fs: Vec<(String, String)> = Vec::new();
            for (k, v) in o.get_fields() {
                match k {
                    LuaMemberKey::Name(n) => fs.push((n.to_string(), ser(v, false)?)),
                    _ => return Err("object-non-name-key"),
                }
            }
            fs.sort();
            let mut s = String::from("(o");
            for (k, v) in fs {
                s.push_str(&format!(" ({} {})", hex(&k), v));
            }
            s.push(')');
            s
        }
        LuaType::Union(u) => {
            let mut ms: Vec<String> = Vec::new();
            for m in u.into_vec() {
                ms.push(ser(&m, false)?);
            }
            if !top && SORT_NESTED.load(std::sync::atomic::Ordering::Relaxed) {
                ms.sort();
            }
            let _ = LuaUnionType::Basic;
            format!("(u {})", ms.join(" "))
        }
        LuaType::Def(_) => return Err("def"),
        LuaType::Generic(_) => return Err("generic"),
        LuaType::TplRef(_) | LuaType::StrTplRef(_) => return Err("tpl"),
        LuaType::Variadic(_) => return Err("variadic"),
        LuaType::Signature(_) => return Err("signature"),
        LuaType::TableConst(_) => return Err("table-const"),
        LuaType::MultiLineUnion(_) => return Err("multi-line-union"),
        LuaType::Intersection(_) => return Err("intersection"),
        LuaType::Namespace(_) => return Err("namespace"),
        LuaType::Call(_) => return Err("call"),
        _ => return Err("other"),
    })
}

/// canonical identity of a doc function (its `Debug` output depends on hash-map order)
pub fn func_id(f: &emmylua_code_analysis::LuaFunctionType) -> String {
    let mut s = format!("fun[{:?},{},{}](", f.get_async_state(), f.is_colon_define(), f.is_variadic());
    for (n, t) in f.get_params() {
        s.push_str(n);
        s.push(':');
        match t {
            Some(t) => s.push_str(&opaque(t)),
            None => s.push('_'),
        }
        s.push(',');
    }
    s.push_str("):");
    s.push_str(&opaque(f.get_ret()));
    s
}

/// any type, deterministically (falls back to `Debug` for kinds that hold no hash maps)
pub fn opaque(t: &LuaType) -> String {
    if let Ok(s) = ser(t, false) {
        return s;
    }
    match t {
        LuaType::Variadic(v) => match v.as_ref() {
            emmylua_code_analysis::VariadicType::Base(b) => format!("(var {})", opaque(b)),
            emmylua_code_analysis::VariadicType::Multi(ts) => {
                format!("(multi {})", ts.iter().map(opaque).collect::<Vec<_>>().join(" "))
            }
        },
        LuaType::Array(a) => format!("(a {})", opaque(a.get_base())),
        LuaType::Tuple(tp) => format!("(t {})", tp.get_types().iter().map(opaque).collect::<Vec<_>>().join(" ")),
        LuaType::TableGeneric(ps) => format!("(g {})", ps.iter().map(opaque).collect::<Vec<_>>().join(" ")),
        LuaType::Union(u) => {
            let mut ms: Vec<String> = u.into_vec().iter().map(opaque).collect();
            ms.sort();
            format!("(u {})", ms.join(" "))
        }
        LuaType::Object(o) => {
            let mut fs: Vec<String> = o.get_fields().iter().map(|(k, v)| format!("({:?} {})", k, opaque(v))).collect();
            fs.sort();
            let ia: Vec<String> = o.get_index_access().iter().map(|(k, v)| format!("[{} {}]", opaque(k), opaque(v))).collect();
            format!("(o {} {})", fs.join(" "), ia.join(" "))
        }
        LuaType::DocFunction(f) => func_id(f),
        other => format!("{:?}", other),
    }
}

#[derive(Debug, Clone, PartialEq, Eq, PartialOrd, Ord)]
pub enum Sx {
    Atom(String),
    List(Vec<Sx>),
}

pub fn parse_sx(s: &str) -> Option<Sx> {
    let toks = tokenize(s);
    let mut pos = 0;
    let r = parse_at(&toks, &mut pos)?;
    if pos == toks.len() { Some(r) } else { None }
}

fn tokenize(s: &str) -> Vec<String> {
    let mut out = Vec::new();
    let mut cur = String::new();
    for c in s.chars() {
        match c {
            '(' | ')' => {
                if !cur.is_empty() {
                    out.push(std::mem::take(&mut cur));
                }
                out.push(c.to_string());
            }
            ' ' => {
                if !cur.is_empty() {
                    out.push(std::mem::take(&mut cur));
                }
            }
            _ => cur.push(c),
        }
    }
    if !cur.is_empty() {
        out.push(cur);
    }
    out
}

fn parse_at(t: &[String], pos: &mut usize) -> Option<Sx> {
    let tok = t.get(*pos)?;
    *pos += 1;
    if tok == "(" {
        let mut items = Vec::new();
        loop {
            let nx = t.get(*pos)?;
            if nx == ")" {
                *pos += 1;
                return Some(Sx::List(items));
            }
            items.push(parse_at(t, pos)?);
        }
    } else if tok == ")" {
        None
    } else {
        Some(Sx::Atom(tok.clone()))
    }
}

pub fn print_sx(s: &Sx) -> String {
    match s {
        Sx::Atom(a) => a.clone(),
        Sx::List(xs) => format!("({})", xs.iter().map(print_sx).collect::<Vec<_>>().join(" ")),
    }
}

/// sort the members of every union; `dedup` additionally removes structurally equal members and
/// collapses a one-member union (the normalisation under which results are compared by the oracle)
pub fn canon(s: &Sx, dedup: bool) -> Sx {
    match s {
        Sx::Atom(_) => s.clone(),
        Sx::List(xs) => {
            let mut ys: Vec<Sx> = xs.iter().map(|x| canon(x, dedup)).collect();
            if let Some(Sx::Atom(h)) = ys.first()
                && h == "u"
            {
                let mut ms: Vec<Sx> = ys.split_off(1);
                ms.sort();
                if dedup {
                    ms.dedup();
                    if ms.len() == 1 {
                        return ms.pop().unwrap_or(Sx::List(vec![]));
                    }
                }
                ys.extend(ms);
            }
            Sx::List(ys)
        }
    }
}

pub fn canon_str(s: &str, dedup: bool) -> String {
    match parse_sx(s) {
        Some(x) => print_sx(&canon(&x, dedup)),
        None => format!("<unparsable:{s}>"),
    }
}
