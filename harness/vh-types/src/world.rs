//! A "world": a set of class / alias declarations defined in a `VirtualWorkspace`, and its
//! serialisation (read back from the real type index, not from the generator) for the model.
use crate::ser::ser;
use emmylua_code_analysis::{DbIndex, FileId, LuaType, LuaTypeDeclId, TypeCheckResult, VirtualWorkspace};
use emmylua_parser::{LuaAstNode, LuaAstToken, LuaLocalName};
use vh_common::{Rng, hex};

pub struct World {
    pub ws: VirtualWorkspace,
    pub decl_file: FileId,
    pub classes: Vec<String>,
    pub aliases: Vec<String>,
    pub decl_text: String,
    /// serialised environment, `None` if some declaration is outside the fragment
    pub env: Option<String>,
    pub env_skip: Option<&'static str>,
}

pub const CLASS_NAMES: &[&str] = &["A", "B", "C", "D", "E", "F", "G", "H"];
pub const ALIAS_NAMES: &[&str] = &["AL0", "AL1", "AL2", "AL3"];

impl World {
    pub fn db(&self) -> &DbIndex {
        self.ws.analysis.compilation.get_db()
    }

    /// `check_type_compact` through the public `SemanticModel::type_check`
    pub fn check(&self, s: &LuaType, c: &LuaType) -> Option<TypeCheckResult> {
        let sm = self.ws.analysis.compilation.get_semantic_model(self.decl_file)?;
        Some(sm.type_check(s, c))
    }

    /// the type of `---@type <repr>`; `None` when the analysis produced no semantic info or panicked
    pub fn ty(&mut self, repr: &str) -> Option<LuaType> {
        let content = format!("---@type {}\nlocal t", repr);
        let file_id = self.ws.def_file("q.lua", &content);
        let tree = self.ws.analysis.compilation.get_db().get_vfs().get_syntax_tree(&file_id)?;
        let local_name = tree.get_chunk_node().descendants::<LuaLocalName>().next()?;
        let sm = self.ws.analysis.compilation.get_semantic_model(file_id)?;
        let token = local_name.get_name_token()?;
        let info = sm.get_semantic_info(token.syntax().clone().into())?;
        Some(info.typ)
    }

    pub fn expr_ty(&mut self, expr: &str) -> Option<LuaType> {
        let content = format!("local t = {}", expr);
        let file_id = self.ws.def_file("q.lua", &content);
        let tree = self.ws.analysis.compilation.get_db().get_vfs().get_syntax_tree(&file_id)?;
        let local_name = tree.get_chunk_node().descendants::<LuaLocalName>().next()?;
        let sm = self.ws.analysis.compilation.get_semantic_model(file_id)?;
        let token = local_name.get_name_token()?;
        let info = sm.get_semantic_info(token.syntax().clone().into())?;
        Some(info.typ)
    }

    pub fn from_text(decl_text: &str, classes: Vec<String>, aliases: Vec<String>) -> World {
        let mut ws = VirtualWorkspace::new();
        let decl_file = ws.def_file("decls.lua", decl_text);
        let mut w = World { ws, decl_file, classes, aliases, decl_text: decl_text.to_string(), env: None, env_skip: None };
        match w.ser_env() {
            Ok(e) => w.env = Some(e),
            Err(k) => w.env_skip = Some(k),
        }
        w
    }

    /// environment as the real type index holds it
    fn ser_env(&self) -> Result<String, &'static str> {
        let db = self.db();
        let emmyrc = db.get_emmyrc();
        let mut s = format!(
            "(env {} {}",
            emmyrc.strict.array_index as u8, emmyrc.strict.doc_base_const_match_base_type as u8
        );
        let ti = db.get_type_index();
        for name in self.classes.iter().chain(self.aliases.iter()) {
            let id = LuaTypeDeclId::global(name);
            let Some(decl) = ti.get_type_decl(&id) else { continue };
            let mut supers = Vec::new();
            for sup in ti.get_super_types_raw(&id).unwrap_or_default() {
                match sup {
                    LuaType::Ref(sid) => supers.push(hex(sid.get_name())),
                    _ => return Err("super-not-a-ref"),
                }
            }
            if decl.is_alias() {
                match decl.get_alias_ref() {
                    Some(o) => s.push_str(&format!(" (al {} {})", hex(name), ser(o, true)?)),
                    None => s.push_str(&format!(" (al0 {})", hex(name))),
                }
            } else if decl.is_enum() {
                return Err("enum");
            } else {
                s.push_str(&format!(" (c {}", hex(name)));
                for sp in supers {
                    s.push(' ');
                    s.push_str(&sp);
                }
                s.push(')');
            }
        }
        s.push(')');
        Ok(s)
    }
}

/// acyclic class hierarchy + aliases over it
pub fn gen_world(rng: &mut Rng) -> World {
    let n = rng.range(2, CLASS_NAMES.len());
    let mut text = String::new();
    let mut classes = Vec::new();
    for i in 0..n {
        let name = CLASS_NAMES[i];
        let mut supers: Vec<&str> = Vec::new();
        if i > 0 {
            let k = match rng.below(10) { 0..=2 => 0, 3..=7 => 1, _ => 2 };
            for _ in 0..k {
                // chains are likely: prefer the previous class
                let j = if rng.chance(1, 2) { i - 1 } else { rng.below(i) };
                if !supers.contains(&CLASS_NAMES[j]) {
                    supers.push(CLASS_NAMES[j]);
                }
            }
        }
        if supers.is_empty() {
            text.push_str(&format!("---@class {name}\n"));
        } else {
            text.push_str(&format!("---@class {name}: {}\n", supers.join(", ")));
        }
        classes.push(name.to_string());
    }
    let na = rng.below(ALIAS_NAMES.len() + 1);
    let mut aliases = Vec::new();
    for i in 0..na {
        let name = ALIAS_NAMES[i];
        let mut names: Vec<String> = classes.clone();
        names.extend(aliases.iter().cloned());
        let t = crate::genty::gen_type(rng, &names, 2).text();
        text.push_str(&format!("---@alias {name} {t}\n"));
        aliases.push(name.to_string());
    }
    World::from_text(&text, classes, aliases)
}
