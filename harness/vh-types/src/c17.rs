//! C17: rendered types read back as the same type.
//! Tie: `humanize_type(.., Documentation)` vs `ty.render` (text) and `ty.read` (annotation text → type)
//! vs the real analysis; oracle: render → `---@type <text>` → compare with the original type.
use crate::genty::{G, gen_atom};
use crate::ser::{canon_str, ser};
use crate::world::{World, gen_world};
use emmylua_code_analysis::{LuaType, RenderLevel, humanize_type};
use serde_json::{Value, json};
use std::collections::HashSet;
use std::panic::AssertUnwindSafe;
use vh_common::{Args, Report, Rng, hex, run_driver, unhex};

/// generator restricted to the sub-grammar whose display syntax is annotation syntax
pub fn gen_c17(rng: &mut Rng, names: &[String], depth: usize) -> G {
    if depth == 0 || rng.chance(1, 4) {
        loop {
            let a = gen_atom(rng, names);
            if let G::Prim(p) = &a
                && (*p == "unknown" || *p == "function")
            {
                continue;
            }
            return a;
        }
    }
    match rng.below(12) {
        0..=2 => G::Array(Box::new(gen_c17(rng, names, depth - 1))),
        3..=4 => G::Table(vec![gen_c17(rng, names, depth - 1), gen_c17(rng, names, depth - 1)]),
        5..=6 => {
            let n = rng.range(0, 3);
            let keys = ["a", "b", "c", "d"];
            G::Object((0..n).map(|i| (keys[i].to_string(), rng.chance(1, 3), gen_c17(rng, names, depth - 1))).collect())
        }
        7..=9 => {
            let n = rng.range(2, 4);
            G::Union((0..n).map(|_| gen_c17(rng, names, depth - 1)).collect())
        }
        _ => G::Opt(Box::new(gen_c17(rng, names, depth - 1))),
    }
}

/// the type contains a reference to an alias (reading `A?` back resolves the alias)
fn mentions(t: &LuaType, names: &[String]) -> bool {
    match t {
        LuaType::Ref(id) => names.iter().any(|n| n == id.get_name()),
        LuaType::Array(a) => mentions(a.get_base(), names),
        LuaType::TableGeneric(ps) => ps.iter().any(|p| mentions(p, names)),
        LuaType::Object(o) => o.get_fields().values().any(|p| mentions(p, names)),
        LuaType::Union(u) => u.into_vec().iter().any(|p| mentions(p, names)),
        _ => false,
    }
}

/// a string literal somewhere inside whose value satisfies `p`
fn has_str(t: &LuaType, p: &dyn Fn(&str) -> bool) -> bool {
    match t {
        LuaType::DocStringConst(s) | LuaType::StringConst(s) => p(s.as_ref()),
        LuaType::Array(a) => has_str(a.get_base(), p),
        LuaType::TableGeneric(ps) => ps.iter().any(|x| has_str(x, p)),
        LuaType::Object(o) => o.get_fields().values().any(|x| has_str(x, p)),
        LuaType::Union(u) => u.into_vec().iter().any(|x| has_str(x, p)),
        _ => false,
    }
}

/// a union with both `any` and `nil` somewhere inside (`any?` reads back as `any`)
fn has_any_nil_union(t: &LuaType) -> bool {
    match t {
        LuaType::Union(u) => {
            let ms = u.into_vec();
            (ms.iter().any(|m| m.is_any()) && ms.iter().any(|m| m.is_nil())) || ms.iter().any(has_any_nil_union)
        }
        LuaType::Array(a) => has_any_nil_union(a.get_base()),
        LuaType::TableGeneric(ps) => ps.iter().any(has_any_nil_union),
        LuaType::Object(o) => o.get_fields().values().any(has_any_nil_union),
        _ => false,
    }
}

fn esc_before_digit(s: &str) -> bool {
    let cs: Vec<char> = s.chars().collect();
    cs.windows(2).any(|w| w[0] == '\u{1b}' && w[1].is_ascii_digit())
}

fn in_subgrammar(t: &LuaType) -> bool {
    match t {
        LuaType::Array(a) => in_subgrammar(a.get_base()),
        LuaType::TableGeneric(ps) => ps.len() == 2 && ps.iter().all(in_subgrammar),
        LuaType::Object(o) => {
            o.get_index_access().is_empty()
                && o.get_fields().iter().all(|(k, v)| matches!(k, emmylua_code_analysis::LuaMemberKey::Name(_)) && in_subgrammar(v))
        }
        LuaType::Union(u) => u.into_vec().iter().all(in_subgrammar),
        LuaType::Ref(_) | LuaType::DocStringConst(_) | LuaType::DocIntegerConst(_) | LuaType::DocBooleanConst(_) => true,
        LuaType::Unknown | LuaType::Function | LuaType::SelfInfer | LuaType::Never => false,
        t => crate::ser::prim_name(t).is_some(),
    }
}

/// read a rendered text back; a top-level `table` is read through an alias because `---@type table`
/// denotes a table literal, not the type `table`
fn read_back(w: &mut World, text: &str) -> Option<LuaType> {
    if text.trim() == "table" {
        return Some(LuaType::Table);
    }
    w.ty(text)
}

struct Pending {
    kind: &'static str,
    input: Value,
    real: String,
}

pub fn run(args: &Args, report: &mut Report) {
    let mut rng = Rng::new(args.seed);
    crate::ser::SORT_NESTED.store(false, std::sync::atomic::Ordering::Relaxed);
    let (n_worlds, n_types) = if args.thorough() { (300, 300) } else { (30, 120) };
    report.rule = "worlds of generated class/alias declarations; per world types generated from the annotation sub-grammar of C17 (basic kinds, literals incl. escapes, class/alias references, nested unions / optionals / arrays, table<K,V>, records with optional fields; depth <= 4) obtained through the real analysis; each is rendered at RenderLevel::Documentation and read back through `---@type`. Non-trivial: the type is not a basic kind; distinct by (declarations, serialised type)".into();
    if args.replay.is_some() {
        report.notes.push("replay: the case is re-run from its annotation text".into());
    }
    let mut requests = Vec::new();
    let mut pending: Vec<Pending> = Vec::new();
    let mut seen = HashSet::new();
    for wi in 0..n_worlds {
        let mut w = gen_world(&mut rng);
        let Some(env) = w.env.clone() else {
            report.count("world_outside_fragment");
            continue;
        };
        let envh = hex(&env);
        let mut names: Vec<String> = w.classes.clone();
        names.extend(w.aliases.iter().cloned());
        let aliases = w.aliases.clone();
        let mut texts: Vec<String> = vec![
            "(boolean?)[]".into(), "table<(boolean?)[], string>".into(), "(A|B)?".into(), "((A|B)?)[]".into(),
            "\"\\0275\"".into(), "\"a\\tb\"".into(), "{ a: string?, b: A[] }".into(), "string?|A".into(),
        ];
        if let Some(p) = &args.replay {
            let v: Value = serde_json::from_str(&std::fs::read_to_string(p).expect("replay")).expect("json");
            texts = vec![v["input"]["annotation"].as_str().unwrap_or("nil").to_string()];
        } else {
            for _ in 0..n_types {
                let g = gen_c17(&mut rng, &names, 4);
                texts.push(if rng.chance(1, 8) { g.raw_text() } else { g.text() });
            }
        }
        for text in texts {
            let Some(ty) = w.ty(&text) else {
                report.count("type_not_obtained");
                continue;
            };
            if !in_subgrammar(&ty) {
                report.count("outside_subgrammar");
                continue;
            }
            report.evaluations += 1;
            let input = json!({"decls": w.decl_text, "annotation": text});
            let rendered = match vh_common::catch(AssertUnwindSafe(|| humanize_type(w.db(), &ty, RenderLevel::Documentation))) {
                Ok(r) => r,
                Err(m) => {
                    push_failure(report, json!({"input": input, "what": format!("humanize_type panicked: {m}"), "class": null}));
                    continue;
                }
            };
            let truncated = rendered.contains("...");
            if truncated {
                report.count("rendering_truncated");
            }
            // oracle: read the rendering back through the real pipeline
            let orig = ser(&ty, true).ok();
            if !truncated {
                let back = read_back(&mut w, &rendered);
                let back_s = back.as_ref().and_then(|b| ser(b, true).ok());
                match (&orig, &back_s) {
                    (Some(o), Some(b)) => {
                        if canon_str(o, true) != canon_str(b, true) {
                            let class = if has_str(&ty, &|s| s.contains('"')) {
                                Some("string-literal-contains-double-quote")
                            } else if has_str(&ty, &esc_before_digit) {
                                Some("string-literal-esc-before-digit")
                            } else if has_any_nil_union(&ty) {
                                Some("union-of-any-and-nil")
                            } else if mentions(&ty, &aliases) {
                                Some("optional-alias-reference")
                            } else {
                                None
                            };
                            report.count(&format!("oracle_class:{}", class.unwrap_or("unclassified")));
                            push_failure(report, json!({"input": input, "what": format!("`{text}` has type {o}, renders as `{rendered}`, which reads back as {b}"), "class": class}));
                        } else {
                            report.count("oracle_roundtrip_ok");
                        }
                    }
                    (Some(o), None) => {
                        push_failure(report, json!({"input": input, "what": format!("`{text}` has type {o}, renders as `{rendered}`, which reads back as {:?}", back), "class": null}));
                    }
                    _ => report.count("oracle_not_serialisable"),
                }
            }
            let Some(o) = orig else {
                report.count("outside_fragment");
                continue;
            };
            if crate::ser::prim_name(&ty).is_none() && seen.insert(format!("{env}{o}")) {
                report.distinct_nontrivial += 1;
            }
            if wi < 2 {
                report.sample(json!({"annotation": text, "type": o, "rendered": rendered}));
            }
            // tie 1: rendering
            requests.push(format!("ty.render {}", hex(&o)));
            pending.push(Pending { kind: "render", input: input.clone(), real: if truncated { "none".into() } else { rendered.clone() } });
            // tie 2: reading the annotation text
            requests.push(format!("ty.read {envh} {}", hex(&text)));
            pending.push(Pending { kind: "read", input: input.clone(), real: canon_str(&o, false) });
        }
    }
    let answers = run_driver(&requests);
    for ((req, p), a) in requests.iter().zip(pending.iter()).zip(answers.iter()) {
        let body = a.strip_prefix("ok ").unwrap_or(a);
        match p.kind {
            "render" => {
                let model = if body == "none" { "none".to_string() } else { unhex(body).unwrap_or_else(|| format!("<bad hex {body}>")) };
                if model != p.real {
                    report.mismatch(json!({"input": p.input, "request": req, "model": model, "impl": p.real, "tie": "correspondence ty.render (humanize_type Documentation vs model)"}));
                } else {
                    report.traces_validated += 1;
                    report.count("render_agree");
                }
            }
            _ => {
                if body == "none" {
                    report.count("read_model_unsupported_text");
                } else if canon_str(body, false) != p.real {
                    report.mismatch(json!({"input": p.input, "request": req, "model": canon_str(body, false), "impl": p.real, "tie": "correspondence ty.read (doc type parser + infer_type vs model)"}));
                } else {
                    report.traces_validated += 1;
                    report.count("read_agree");
                }
            }
        }
    }
}

/// keep the list of reported failures small per known class so that unclassified ones are never cut off
fn push_failure(report: &mut Report, v: Value) {
    let class = v["class"].as_str().map(|s| s.to_string());
    if let Some(c) = class {
        let key = format!("oracle_listed:{c}");
        let n = report.distribution.get(&key).copied().unwrap_or(0);
        report.count(&key);
        if n >= 5 {
            report.count("oracle_failures_total");
            report.count("oracle_failures_not_listed");
            return;
        }
    }
    report.oracle_failure(v);
}
