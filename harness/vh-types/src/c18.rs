//! C18: generic instantiation. Tie: inferred type of `local r = f(x)` for the template family vs the
//! Lean model (`ty.inst`); oracle: the expected substitution computed independently in the harness.
use crate::genty::{G, gen_atom};
use crate::ser::{canon_str, ser};
use crate::world::World;
use emmylua_code_analysis::LuaType;
use emmylua_parser::{LuaAstNode, LuaAstToken, LuaLocalName};
use serde_json::{Value, json};
use std::collections::HashSet;
use vh_common::{Args, Report, Rng, hex, run_driver};

/// (name, generic params, parameter types, return type) — `T`, `U` are the template parameters
pub const TEMPLATES: &[(&str, &str, &[&str], &str)] = &[
    ("identity", "T", &["T"], "T"),
    ("array_elem", "T", &["T[]"], "T"),
    ("array_of", "T", &["T"], "T[]"),
    ("pair", "T, U", &["T", "U"], "table<T, U>"),
    ("table_value", "K, V", &["table<K, V>"], "V"),
    ("table_key", "K, V", &["table<K, V>"], "K"),
    ("optional", "T", &["T?"], "T"),
    ("fun_ret", "T", &["fun(): T"], "T"),
    ("nested", "T", &["T[][]"], "T[]"),
];

/// an argument type text that is an instance of the parameter pattern, given the bindings
fn instance(pattern: &str, binds: &[(&str, String)]) -> String {
    // replace whole-word template names; patterns only use single capital letters
    let mut out = String::new();
    let cs: Vec<char> = pattern.chars().collect();
    let mut i = 0;
    while i < cs.len() {
        let c = cs[i];
        let prev_alpha = i > 0 && (cs[i - 1].is_alphanumeric() || cs[i - 1] == '_');
        let next_alpha = i + 1 < cs.len() && (cs[i + 1].is_alphanumeric() || cs[i + 1] == '_');
        if c.is_ascii_uppercase() && !prev_alpha && !next_alpha {
            if let Some((_, t)) = binds.iter().find(|(n, _)| n.chars().next() == Some(c)) {
                out.push('(');
                out.push_str(t);
                out.push(')');
                i += 1;
                continue;
            }
        }
        out.push(c);
        i += 1;
    }
    out
}

pub fn gen_arg(rng: &mut Rng, names: &[String], depth: usize) -> G {
    if depth == 0 || rng.chance(1, 3) {
        loop {
            let a = gen_atom(rng, names);
            if let G::Prim(p) = &a
                && ["unknown", "any", "nil", "function", "table"].contains(p)
            {
                continue;
            }
            return a;
        }
    }
    match rng.below(8) {
        0..=2 => G::Array(Box::new(gen_arg(rng, names, depth - 1))),
        3..=5 => {
            let n = rng.range(2, 3);
            G::Union((0..n).map(|_| gen_arg(rng, names, depth - 1)).collect())
        }
        6 => G::Table(vec![gen_arg(rng, names, depth - 1), gen_arg(rng, names, depth - 1)]),
        _ => gen_arg(rng, names, 0),
    }
}

/// type of the last `local` name of `code`
fn last_local_type(w: &mut World, code: &str) -> Option<LuaType> {
    let file_id = w.ws.def_file("call.lua", code);
    let tree = w.ws.analysis.compilation.get_db().get_vfs().get_syntax_tree(&file_id)?;
    let local_name = tree.get_chunk_node().descendants::<LuaLocalName>().last()?;
    let sm = w.ws.analysis.compilation.get_semantic_model(file_id)?;
    let token = local_name.get_name_token()?;
    let info = sm.get_semantic_info(token.syntax().clone().into())?;
    Some(info.typ)
}

pub fn call_program(tpl: &(&str, &str, &[&str], &str), args: &[String], literal_arg: Option<&str>) -> String {
    let (_, generics, params, ret) = tpl;
    let mut s = String::new();
    s.push_str(&format!("---@generic {generics}\n"));
    for (i, p) in params.iter().enumerate() {
        s.push_str(&format!("---@param a{i} {p}\n"));
    }
    s.push_str(&format!("---@return {ret}\n"));
    let names: Vec<String> = (0..params.len()).map(|i| format!("a{i}")).collect();
    s.push_str(&format!("local function f({}) end\n", names.join(", ")));
    let mut call_args = Vec::new();
    for (i, a) in args.iter().enumerate() {
        s.push_str(&format!("---@type {a}\nlocal x{i}\n"));
        call_args.push(format!("x{i}"));
    }
    if let Some(l) = literal_arg {
        call_args = vec![l.to_string()];
    }
    s.push_str(&format!("local r = f({})\n", call_args.join(", ")));
    s
}

pub fn run(args: &Args, report: &mut Report) {
    let mut rng = Rng::new(args.seed);
    crate::ser::FN_STRUCT.store(true, std::sync::atomic::Ordering::Relaxed);
    let n = if args.thorough() { 20000 } else { 1500 };
    report.rule = "calls `local r = f(x…)` of generic functions from the template family (identity, T[] -> T, T -> T[], pair -> table<T,U>, table<K,V> -> V / K, T? -> T, fun(): T -> T, T[][] -> T[]) with argument types that are instances of the parameter patterns for generated bindings (atoms, literals, unions, arrays, tables, class references) and with literal expressions; non-trivial: some binding is not a basic kind; distinct by (template, bindings)".into();
    let decls = "---@class A\n---@class B: A\n---@class C\n";
    let mut w = World::from_text(decls, vec!["A".into(), "B".into(), "C".into()], vec![]);
    let names: Vec<String> = w.classes.clone();
    let mut requests = Vec::new();
    let mut pending: Vec<(Value, String)> = Vec::new();
    let mut seen = HashSet::new();
    let literals = ["1", "\"s\"", "true", "1.5", "{}", "nil"];
    for case in 0..n {
        let tpl = rng.pick(TEMPLATES);
        let (name, generics, params, ret) = tpl;
        let gnames: Vec<&str> = generics.split(", ").collect();
        let use_literal = params.len() == 1 && params[0] == "T" && rng.chance(1, 5);
        let binds_g: Vec<(&str, G)> = gnames.iter().map(|g| (*g, gen_arg(&mut rng, &names, 2))).collect();
        let binds: Vec<(&str, String)> = binds_g.iter().map(|(g, t)| (*g, t.text())).collect();
        let arg_texts: Vec<String> = params.iter().map(|p| instance(p, &binds)).collect();
        let lit = if use_literal { Some(*rng.pick(&literals)) } else { None };
        let code = call_program(tpl, &arg_texts, lit);
        let input = json!({"template": name, "bindings": binds.iter().map(|(g, t)| json!([g, t])).collect::<Vec<_>>(), "literal": lit, "program": code});
        report.evaluations += 1;
        let r = vh_common::catch(std::panic::AssertUnwindSafe(|| last_local_type(&mut w, &code)));
        let real = match r {
            Ok(Some(t)) => t,
            Ok(None) => {
                report.count("no_semantic_info");
                continue;
            }
            Err(m) => {
                push_failure(report, json!({"input": input, "what": format!("inference panicked: {m}"), "class": null}));
                continue;
            }
        };
        let Ok(real_s) = ser(&real, true) else {
            report.count("result_outside_fragment");
            continue;
        };
        // the real types of the arguments and of the declared return type's instance
        let mut arg_sers = Vec::new();
        let mut ok = true;
        if let Some(l) = lit {
            match w.expr_ty(l).and_then(|t| ser(&t, true).ok()) {
                Some(s) => arg_sers.push(s),
                None => ok = false,
            }
        } else {
            for a in &arg_texts {
                match w.ty(a).and_then(|t| ser(&t, true).ok()) {
                    Some(s) => arg_sers.push(s),
                    None => ok = false,
                }
            }
        }
        if !ok {
            report.count("argument_outside_fragment");
            continue;
        }
        report.count(&format!("template_{name}"));
        if case < 12 {
            report.sample(json!({"template": name, "args": arg_texts, "literal": lit, "result": real_s}));
        }
        // oracle (independent of the model): the declared return type with the bindings substituted,
        // literals widened, read through the real annotation analysis
        if lit.is_none() {
            let widened: Vec<(&str, String)> = binds_g.iter().map(|(g, t)| (*g, widen_text(&mut w, t))).collect();
            let expect_text = instance(ret, &widened);
            if let Some(exp) = w.ty(&expect_text).and_then(|t| ser(&t, true).ok()) {
                if canon_str(&exp, true) != canon_str(&real_s, true) {
                    let class = classify(name, &binds_g);
                    report.count(&format!("oracle_class:{}", class.unwrap_or("unclassified")));
                    push_failure(report, json!({"input": input, "what": format!("`{name}` with {binds:?}: inferred {real_s}, expected the instance {exp} of `{ret}`"), "class": class}));
                } else {
                    report.count("oracle_agree");
                }
            }
        }
        if binds_g.iter().any(|(_, g)| !matches!(g, G::Prim(_))) && seen.insert(format!("{name}{binds:?}{lit:?}")) {
            report.distinct_nontrivial += 1;
        }
        let params_s: Option<Vec<String>> = params.iter().map(|p| pattern_ser(p)).collect();
        let (Some(params_s), Some(ret_s)) = (params_s, pattern_ser(ret)) else { continue };
        requests.push(format!(
            "ty.inst {} {} {}",
            hex(&format!("(l {})", params_s.join(" "))),
            hex(&format!("(l {})", arg_sers.join(" "))),
            hex(&ret_s)
        ));
        pending.push((input, canon_str(&real_s, true)));
    }
    let answers = run_driver(&requests);
    for ((req, (input, real)), a) in requests.iter().zip(pending.iter()).zip(answers.iter()) {
        let body = a.strip_prefix("ok ").unwrap_or(a);
        if body == "unsupported" {
            report.count("model_unsupported");
        } else if canon_str(body, true) != *real {
            report.mismatch(json!({"input": input, "request": req, "model": canon_str(body, true), "impl": real, "tie": "correspondence ty.inst (tpl_pattern_match + instantiate vs model)"}));
        } else {
            report.traces_validated += 1;
        }
    }
}

/// literal widening of a binding: decided on the real type of the binding's annotation (a union of
/// equal literals is a literal), independent of the model
fn widen_text(w: &mut World, g: &G) -> String {
    match w.ty(&g.text()) {
        Some(LuaType::DocStringConst(_)) | Some(LuaType::StringConst(_)) => "string".into(),
        Some(LuaType::DocIntegerConst(_)) | Some(LuaType::IntegerConst(_)) => "integer".into(),
        Some(LuaType::DocBooleanConst(_)) | Some(LuaType::BooleanConst(_)) => "boolean".into(),
        Some(LuaType::FloatConst(_)) => "number".into(),
        _ => g.text(),
    }
}

/// predicate of known finding C18-optional-param: the parameter pattern is `T?`
fn classify(name: &str, _binds: &[(&str, G)]) -> Option<&'static str> {
    if name == "optional" { Some("optional-param-pattern") } else { None }
}

/// pattern text → model syntax with `(v i)` for template parameters (T,K = 0; U,V = 1)
pub fn pattern_ser(p: &str) -> Option<String> {
    Some(match p {
        "T" | "K" => "(v 0)".into(),
        "U" | "V" => "(v 1)".into(),
        "T[]" => "(a (v 0))".into(),
        "T[][]" => "(a (a (v 0)))".into(),
        "T?" => "(u (v 0) (p nil))".into(),
        "table<T, U>" | "table<K, V>" => "(g (v 0) (v 1))".into(),
        "fun(): T" => "(fn (v 0))".into(),
        _ => return None,
    })
}

/// keep the list of reported failures small per known class so that unclassified ones are never cut off
fn push_failure(report: &mut Report, v: Value) {
    let class = v["class"].as_str().map(|s| s.to_string());
    if let Some(c) = class {
        let key = format!("oracle_listed:{c}");
        let n = report.distribution.get(&key).copied().unwrap_or(0);
        report.count(&key);
        if n >= 5 {
            report.count("oracle_failures_total");
            report.count("oracle_failures_not_listed");
            return;
        }
    }
    report.oracle_failure(v);
}
