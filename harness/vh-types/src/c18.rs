//! C18: generic instantiation. Tie: inferred type of `local r = f(args…)` vs the Lean model (`ty.inst`);
//! oracle: the declared return type with the argument components substituted (literal widening), read
//! through the real annotation analysis — independent of the model.
use crate::genty::{G, gen_atom};
use crate::ser::{canon_str, ser};
use crate::world::World;
use emmylua_code_analysis::LuaType;
use emmylua_parser::{LuaAstNode, LuaAstToken, LuaLocalName};
use serde_json::{Value, json};
use std::collections::HashSet;
use vh_common::{Args, Report, Rng, hex, run_driver};

/// one-variable patterns: (annotation text, model syntax), `{}` = the template parameter / its binding
pub const PARAM_PATS: &[(&str, &str)] = &[
    ("{}", "{}"),
    ("{}", "{}"),
    ("{}[]", "(a {})"),
    ("{}[][]", "(a (a {}))"),
    ("table<string, {}>", "(g (p string) {})"),
    ("table<{}, boolean>", "(g {} (p boolean))"),
    ("[{}, string]", "(t {} (p string))"),
    ("{x: {}, y: integer}", "(o (78 {}) (79 (p integer)))"),
    ("fun(a: {}): integer", "(fn1 {} (p integer))"),
    ("fun(): {}", "(fn {})"),
    ("{}?", "(u {} (p nil))"),
    ("table<string, {}[]>", "(g (p string) (a {}))"),
];

pub const RET_PATS: &[(&str, &str)] = &[
    ("{}", "{}"),
    ("{}[]", "(a {})"),
    ("table<string, {}>", "(g (p string) {})"),
    ("table<{}, boolean>", "(g {} (p boolean))"),
    ("table<integer, {}>", "(g (p integer) {})"),
    ("table<string, {}>[]", "(a (g (p string) {}))"),
    ("table<string, {}[]>", "(g (p string) (a {}))"),
    ("[{}, string]", "(t {} (p string))"),
    ("{x: {}, y: integer}", "(o (78 {}) (79 (p integer)))"),
    ("fun(a: {}): integer", "(fn1 {} (p integer))"),
    ("fun(): {}", "(fn {})"),
];

/// returns over several parameters: (text, model), `{0}` `{1}` `{2}`
pub const MULTI_RET: &[(usize, &str, &str)] = &[
    (2, "table<{0}, {1}>", "(g {0} {1})"),
    (2, "[{0}, {1}]", "(t {0} {1})"),
    (2, "{x: {0}, y: {1}}", "(o (78 {0}) (79 {1}))"),
    (2, "table<{1}, {0}[]>", "(g {1} (a {0}))"),
    (3, "[{0}, {1}, {2}]", "(t {0} {1} {2})"),
    (3, "table<{2}, [{0}, {1}]>", "(g {2} (t {0} {1}))"),
];

const VARS: &[&str] = &["T", "U", "V"];

fn fill1(tpl: &str, x: &str) -> String {
    tpl.replace("{}", x)
}

fn filln(tpl: &str, xs: &[String]) -> String {
    let mut s = tpl.to_string();
    for (i, x) in xs.iter().enumerate() {
        s = s.replace(&format!("{{{i}}}"), x);
    }
    s
}

pub fn gen_arg(rng: &mut Rng, names: &[String], depth: usize) -> G {
    if depth == 0 || rng.chance(1, 3) {
        loop {
            let a = gen_atom(rng, names);
            if let G::Prim(p) = &a
                && ["unknown", "any", "nil", "function", "table"].contains(p)
            {
                continue;
            }
            return a;
        }
    }
    match rng.below(8) {
        0..=2 => G::Array(Box::new(gen_arg(rng, names, depth - 1))),
        3..=5 => {
            let n = rng.range(2, 3);
            G::Union((0..n).map(|_| gen_arg(rng, names, depth - 1)).collect())
        }
        6 => G::Table(vec![gen_arg(rng, names, depth - 1), gen_arg(rng, names, depth - 1)]),
        _ => gen_arg(rng, names, 0),
    }
}

/// type of the last `local` name of `code`
fn last_local_type(w: &mut World, code: &str) -> Option<LuaType> {
    let file_id = w.ws.def_file("call.lua", code);
    let tree = w.ws.analysis.compilation.get_db().get_vfs().get_syntax_tree(&file_id)?;
    let local_name = tree.get_chunk_node().descendants::<LuaLocalName>().last()?;
    let sm = w.ws.analysis.compilation.get_semantic_model(file_id)?;
    let token = local_name.get_name_token()?;
    let info = sm.get_semantic_info(token.syntax().clone().into())?;
    Some(info.typ)
}

/// literal widening of a binding, decided on the real type of the binding's annotation
fn widen_text(w: &mut World, text: &str) -> String {
    match w.ty(text) {
        Some(LuaType::DocStringConst(_)) | Some(LuaType::StringConst(_)) => "string".into(),
        Some(LuaType::DocIntegerConst(_)) | Some(LuaType::IntegerConst(_)) => "integer".into(),
        Some(LuaType::DocBooleanConst(_)) | Some(LuaType::BooleanConst(_)) => "boolean".into(),
        Some(LuaType::FloatConst(_)) => "number".into(),
        _ => text.to_string(),
    }
}

struct Case {
    program: String,
    shape: String,
    /// model syntax of the parameters / return
    params_s: Vec<String>,
    ret_s: String,
    /// argument expressions: ("one", [type text]) | ("multi", texts) | ("va", [text]) | ("lit", [expr])
    args: Vec<(&'static str, Vec<String>)>,
    /// expected result as an annotation text (bindings substituted, widened); None = no oracle
    expected: Option<String>,
    bindings: Vec<String>,
}

fn gen_case(rng: &mut Rng, w: &mut World, names: &[String]) -> Case {
    let g = match rng.below(10) { 0..=4 => 1, 5..=7 => 2, _ => 3 };
    // parameters: one per template parameter
    let mut param_texts = Vec::new();
    let mut params_s = Vec::new();
    let mut pats = Vec::new();
    for i in 0..g {
        let (pt, ps) = *rng.pick(PARAM_PATS);
        param_texts.push(fill1(pt, VARS[i]));
        params_s.push(fill1(ps, &format!("(v {i})")));
        pats.push(pt);
    }
    // return
    let (ret_text, ret_s, ret_tpl): (String, String, String);
    let candidates: Vec<&(usize, &str, &str)> = MULTI_RET.iter().filter(|m| m.0 == g).collect();
    if g >= 2 && !candidates.is_empty() && rng.chance(2, 3) {
        let m = rng.pick(&candidates);
        let vs: Vec<String> = (0..g).map(|i| VARS[i].to_string()).collect();
        let ms: Vec<String> = (0..g).map(|i| format!("(v {i})")).collect();
        ret_text = filln(m.1, &vs);
        ret_s = filln(m.2, &ms);
        ret_tpl = m.1.to_string();
    } else {
        let (rt, rs) = *rng.pick(RET_PATS);
        let k = rng.below(g);
        ret_text = fill1(rt, VARS[k]);
        ret_s = fill1(rs, &format!("(v {k})"));
        ret_tpl = rt.replace("{}", &format!("{{{k}}}"));
    }
    // bindings and instances
    let binds: Vec<String> = (0..g).map(|_| gen_arg(rng, names, 2).text()).collect();
    let insts: Vec<String> = (0..g).map(|i| fill1(pats[i], &format!("({})", binds[i]))).collect();

    let mut prog = String::new();
    prog.push_str(&format!("---@generic {}\n", VARS[..g].join(", ")));
    for (i, p) in param_texts.iter().enumerate() {
        prog.push_str(&format!("---@param a{i} {p}\n"));
    }
    prog.push_str(&format!("---@return {ret_text}\n"));
    prog.push_str(&format!("local function f({}) end\n", (0..g).map(|i| format!("a{i}")).collect::<Vec<_>>().join(", ")));

    // argument expressions
    let mut args: Vec<(&'static str, Vec<String>)> = Vec::new();
    let mut call_args: Vec<String> = Vec::new();
    let mut eff_binds = binds.clone();
    let shape_pick = rng.below(10);
    let mut shape = String::from("plain");
    let mut wrap_vararg: Option<String> = None;
    // where the multi-value call starts (None = no call argument)
    let multi_from: Option<usize> = match shape_pick {
        0..=2 => Some(rng.below(g)),      // last argument is a call covering parameters multi_from..
        _ => None,
    };
    let not_last_call = shape_pick == 3 && g >= 2; // first argument is a call returning 2 values, not last
    let use_vararg = shape_pick == 4 && pats.iter().all(|p| *p == "{}");
    for i in 0..g {
        if let Some(from) = multi_from
            && i >= from
        {
            if i == from {
                let extra = rng.below(2);
                // a function type in a return list must be parenthesised: `fun(): A, B` is one function
                // returning two values
                let mut vals: Vec<String> =
                    insts[from..].iter().map(|t| if t.starts_with("fun(") { format!("({t})") } else { t.clone() }).collect();
                for _ in 0..extra {
                    vals.push("thread".into());
                }
                prog.push_str(&format!("---@return {}\nlocal function m() end\n", vals.join(", ")));
                call_args.push("m()".into());
                args.push(("multi", vals));
                shape = format!("multi-last(from={from},values={})", g - from + extra);
            }
            continue;
        }
        if not_last_call && i == 0 {
            let v0 = if insts[0].starts_with("fun(") { format!("({})", insts[0]) } else { insts[0].clone() };
            prog.push_str(&format!("---@return {v0}, thread\nlocal function m2() end\n"));
            call_args.push("m2()".into());
            args.push(("multi", vec![v0, "thread".into()]));
            shape = "multi-not-last".into();
            continue;
        }
        if use_vararg && i == g - 1 {
            // the remaining parameter is fed from `...`
            wrap_vararg = Some(insts[i].clone());
            call_args.push("...".into());
            args.push(("va", vec![insts[i].clone()]));
            shape = "vararg-last".into();
            continue;
        }
        if pats[i] == "{}" && rng.chance(1, 4) {
            // literal expression, directly or through a local
            let (lit, ty) = *rng.pick(&[("1", "1"), ("\"s\"", "\"s\""), ("true", "true")]);
            eff_binds[i] = ty.to_string();
            if rng.chance(1, 2) {
                prog.push_str(&format!("local l{i} = {lit}\n"));
                call_args.push(format!("l{i}"));
                shape.push_str("+literal-local");
            } else {
                call_args.push(lit.to_string());
                shape.push_str("+literal");
            }
            args.push(("lit", vec![lit.to_string()]));
            continue;
        }
        prog.push_str(&format!("---@type {}\nlocal x{i}\n", insts[i]));
        call_args.push(format!("x{i}"));
        args.push(("one", vec![insts[i].clone()]));
    }
    if let Some(vt) = &wrap_vararg {
        prog.push_str(&format!("---@param ... {vt}\nlocal function wrap(...)\n  local r = f({})\nend\n", call_args.join(", ")));
    } else {
        prog.push_str(&format!("local r = f({})\n", call_args.join(", ")));
    }
    let widened: Vec<String> = eff_binds.iter().map(|b| format!("({})", widen_text(w, b))).collect();
    let expected = Some(filln(&ret_tpl, &widened));
    Case { program: prog, shape, params_s, ret_s, args, expected, bindings: eff_binds }
}

pub fn run(args: &Args, report: &mut Report) {
    let mut rng = Rng::new(args.seed);
    crate::ser::FN_STRUCT.store(true, std::sync::atomic::Ordering::Relaxed);
    let n = if args.thorough() { 30000 } else { 2500 };
    report.rule = "calls `local r = f(args…)` of generated generic functions: 1-3 template parameters, one parameter per template parameter with a pattern from {T, T[], T[][], table<string,T>, table<T,boolean>, [T,string], {x:T,y:integer}, fun(a:T):integer, fun():T, T?, table<string,T[]>}, return type from the same containers (partially concrete slots) or a multi-parameter container (table<T,U>, [T,U], {x:T,y:U}, table<U,T[]>, [T,U,V], table<V,[T,U]>); arguments are instances of the parameter patterns for generated bindings, passed as typed locals, literal expressions (directly / through a local), a call returning 1-4 values as the last argument starting at any parameter position, a call returning 2 values as a non-last argument, or `...`. Non-trivial: some binding is not a basic kind or the call uses a multi-value argument; distinct by (program)".into();
    let decls = "---@class A\n---@class B: A\n---@class C\n";
    let mut w = World::from_text(decls, vec!["A".into(), "B".into(), "C".into()], vec![]);
    let names: Vec<String> = w.classes.clone();
    let mut requests = Vec::new();
    let mut pending: Vec<(Value, String)> = Vec::new();
    let mut seen = HashSet::new();
    let mut cases: Vec<Case> = Vec::new();
    if let Some(p) = &args.replay {
        let v: Value = serde_json::from_str(&std::fs::read_to_string(p).expect("replay")).expect("json");
        let prog = v["input"]["program"].as_str().unwrap_or("").to_string();
        let r = last_local_type(&mut w, &prog).and_then(|t| ser(&t, true).ok());
        report.evaluations += 1;
        report.notes.push(format!("replayed program infers {r:?}; expected {}", v["input"]["expected"]));
        if let (Some(r), Some(e)) = (r, v["input"]["expected"].as_str()) {
            if let Some(exp) = w.ty(e).and_then(|t| ser(&t, true).ok())
                && canon_str(&exp, true) != canon_str(&r, true)
            {
                report.oracle_failure(json!({"input": v["input"], "what": format!("inferred {r}, expected {exp}"), "class": null}));
            }
        }
        return;
    }
    for _ in 0..n {
        cases.push(gen_case(&mut rng, &mut w, &names));
    }
    for (k, c) in cases.iter().enumerate() {
        let input = json!({"program": c.program, "shape": c.shape, "bindings": c.bindings, "expected": c.expected});
        report.evaluations += 1;
        let r = vh_common::catch(std::panic::AssertUnwindSafe(|| last_local_type(&mut w, &c.program)));
        let real = match r {
            Ok(Some(t)) => t,
            Ok(None) => {
                report.count("no_semantic_info");
                continue;
            }
            Err(m) => {
                push_failure(report, json!({"input": input, "what": format!("inference panicked: {m}"), "class": null}));
                continue;
            }
        };
        let real_s = match ser(&real, true) {
            Ok(s) => s,
            Err(kind) => {
                report.count(&format!("result_outside_fragment:{kind}"));
                if kind == "tpl" {
                    // an uninstantiated template parameter in the inferred type is a failure by itself
                    push_failure(report, json!({"input": input, "what": format!("the inferred type still contains a template parameter: {:?} (expected `{}`)", real, c.expected.clone().unwrap_or_default()), "class": null}));
                }
                continue;
            }
        };
        report.count(&format!("shape:{}", c.shape.split('(').next().unwrap_or("")));
        if k < 10 {
            report.sample(json!({"program": c.program, "result": real_s}));
        }
        // oracle
        if let Some(e) = &c.expected {
            match w.ty(e).and_then(|t| ser(&t, true).ok()) {
                Some(exp) => {
                    if canon_str(&exp, true) != canon_str(&real_s, true) {
                        let class: Option<&str> = None;
                        push_failure(report, json!({"input": input, "what": format!("inferred {real_s}, expected {exp} (= `{e}`: the declared return type with the argument components substituted)"), "class": class}));
                    } else {
                        report.count("oracle_agree");
                    }
                }
                None => report.count("oracle_expected_outside_fragment"),
            }
        }
        if seen.insert(c.program.clone()) && (c.shape != "plain" || c.bindings.iter().any(|b| b.len() > 8)) {
            report.distinct_nontrivial += 1;
        }
        // tie
        let mut arg_sx: Vec<String> = Vec::new();
        let mut ok = true;
        for (kind, texts) in &c.args {
            let mut sers = Vec::new();
            for t in texts {
                let ty = if *kind == "lit" { w.expr_ty(t) } else { w.ty(t) };
                match ty.and_then(|x| ser(&x, true).ok()) {
                    Some(s) => sers.push(s),
                    None => ok = false,
                }
            }
            if !ok {
                break;
            }
            arg_sx.push(match *kind {
                "multi" => format!("(m {})", sers.join(" ")),
                "va" => format!("(va {})", sers[0]),
                _ => sers[0].clone(),
            });
        }
        if !ok {
            report.count("argument_outside_fragment");
            continue;
        }
        requests.push(format!(
            "ty.inst {} {} {}",
            hex(&format!("(l {})", c.params_s.join(" "))),
            hex(&format!("(l {})", arg_sx.join(" "))),
            hex(&c.ret_s)
        ));
        pending.push((input, canon_str(&real_s, true)));
    }
    let answers = run_driver(&requests);
    for ((req, (input, real)), a) in requests.iter().zip(pending.iter()).zip(answers.iter()) {
        let body = a.strip_prefix("ok ").unwrap_or(a);
        if body == "unsupported" || body == "bad-op" {
            report.count("model_unsupported");
        } else if canon_str(body, true) != *real {
            report.mismatch(json!({"input": input, "request": req, "model": canon_str(body, true), "impl": real, "tie": "correspondence ty.inst (tpl_pattern_match + instantiate vs model)"}));
        } else {
            report.traces_validated += 1;
        }
    }
}

/// keep the list of reported failures small per known class so that unclassified ones are never cut off
fn push_failure(report: &mut Report, v: Value) {
    let class = v["class"].as_str().map(|s| s.to_string());
    if let Some(c) = class {
        let key = format!("oracle_listed:{c}");
        let n = report.distribution.get(&key).copied().unwrap_or(0);
        report.count(&key);
        if n >= 5 {
            report.count("oracle_failures_total");
            report.count("oracle_failures_not_listed");
            return;
        }
    }
    report.oracle_failure(v);
}
