//! Annotation-grammar-directed generator of doc types.
use vh_common::Rng;

#[derive(Clone, Debug)]
pub enum G {
    Prim(&'static str),
    Str(String),
    Int(i64),
    Bool(bool),
    Name(String),
    Array(Box<G>),
    Tuple(Vec<G>),
    Table(Vec<G>),
    Object(Vec<(String, bool, G)>),
    Union(Vec<G>),
    Opt(Box<G>),
    Fun(Vec<(String, G)>, Option<Box<G>>),
    Paren(Box<G>),
}

pub const PRIMS: &[&str] = &[
    "string", "integer", "number", "boolean", "nil", "table", "any", "unknown", "function", "userdata", "thread",
];
pub const STRS: &[&str] = &["a", "b", "x y", "", "it's", "q\"t", "n\\n"];

impl G {
    fn needs_paren_postfix(&self) -> bool {
        matches!(self, G::Union(_) | G::Opt(_) | G::Fun(..)) || matches!(self, G::Int(i) if *i < 0)
    }

    /// text with the parentheses a careful author would write
    pub fn text(&self) -> String {
        match self {
            G::Prim(p) => p.to_string(),
            G::Str(s) => {
                // the doc lexer ends a literal at the next quote character whatever precedes it, so a
                // value containing `"` can only be written between single quotes
                if s.contains('"') && !s.contains('\'') {
                    format!("'{}'", s.replace('\\', "\\\\"))
                } else {
                    format!("\"{}\"", s.replace('\\', "\\\\").replace('"', ""))
                }
            }
            G::Int(i) => i.to_string(),
            G::Bool(b) => b.to_string(),
            G::Name(n) => n.clone(),
            G::Array(t) => {
                if t.needs_paren_postfix() { format!("({})[]", t.text()) } else { format!("{}[]", t.text()) }
            }
            G::Tuple(ts) => format!("[{}]", ts.iter().map(|t| t.text()).collect::<Vec<_>>().join(", ")),
            G::Table(ts) => format!("table<{}>", ts.iter().map(|t| t.text()).collect::<Vec<_>>().join(", ")),
            G::Object(fs) => format!(
                "{{{}}}",
                fs.iter()
                    .map(|(k, o, t)| format!("{}{}: {}", k, if *o { "?" } else { "" }, t.text()))
                    .collect::<Vec<_>>()
                    .join(", ")
            ),
            G::Union(ts) => ts
                .iter()
                .map(|t| if matches!(t, G::Union(_) | G::Fun(..) | G::Opt(_)) { format!("({})", t.text()) } else { t.text() })
                .collect::<Vec<_>>()
                .join("|"),
            G::Opt(t) => {
                if matches!(**t, G::Union(_) | G::Fun(..) | G::Opt(_)) { format!("({})?", t.text()) } else { format!("{}?", t.text()) }
            }
            G::Fun(ps, r) => {
                let p = ps.iter().map(|(n, t)| format!("{}: {}", n, t.text())).collect::<Vec<_>>().join(", ");
                match r {
                    Some(r) => format!("fun({}): {}", p, r.text()),
                    None => format!("fun({})", p),
                }
            }
            G::Paren(t) => format!("({})", t.text()),
        }
    }

    /// text without any protective parentheses (exercises the parser's precedence handling, and is
    /// where malformed types such as one-parameter `table<X>` come from)
    pub fn raw_text(&self) -> String {
        match self {
            G::Array(t) => format!("{}[]", t.raw_text()),
            G::Tuple(ts) => format!("[{}]", ts.iter().map(|t| t.raw_text()).collect::<Vec<_>>().join(", ")),
            G::Table(ts) => format!("table<{}>", ts.iter().map(|t| t.raw_text()).collect::<Vec<_>>().join(", ")),
            G::Object(fs) => format!(
                "{{{}}}",
                fs.iter()
                    .map(|(k, o, t)| format!("{}{}: {}", k, if *o { "?" } else { "" }, t.raw_text()))
                    .collect::<Vec<_>>()
                    .join(", ")
            ),
            G::Union(ts) => ts.iter().map(|t| t.raw_text()).collect::<Vec<_>>().join("|"),
            G::Opt(t) => format!("{}?", t.raw_text()),
            G::Paren(t) => format!("({})", t.raw_text()),
            _ => self.text(),
        }
    }

    pub fn depth(&self) -> usize {
        match self {
            G::Array(t) | G::Opt(t) | G::Paren(t) => 1 + t.depth(),
            G::Tuple(ts) | G::Table(ts) | G::Union(ts) => 1 + ts.iter().map(|t| t.depth()).max().unwrap_or(0),
            G::Object(fs) => 1 + fs.iter().map(|f| f.2.depth()).max().unwrap_or(0),
            G::Fun(ps, r) => {
                1 + ps.iter().map(|p| p.1.depth()).chain(r.iter().map(|r| r.depth())).max().unwrap_or(0)
            }
            _ => 0,
        }
    }
}

pub fn gen_atom(rng: &mut Rng, names: &[String]) -> G {
    match rng.below(10) {
        0..=3 => G::Prim(*rng.pick(PRIMS)),
        4 => G::Str(rng.pick(STRS).to_string()),
        5 => G::Int(*rng.pick(&[0i64, 1, 2, -1, 42])),
        6 => G::Bool(rng.chance(1, 2)),
        _ => {
            if names.is_empty() { G::Prim(*rng.pick(PRIMS)) } else { G::Name(rng.pick(names).clone()) }
        }
    }
}

pub fn gen_type(rng: &mut Rng, names: &[String], depth: usize) -> G {
    if depth == 0 || rng.chance(1, 4) {
        return gen_atom(rng, names);
    }
    match rng.below(16) {
        0..=2 => G::Array(Box::new(gen_type(rng, names, depth - 1))),
        3 => {
            let n = rng.range(1, 3);
            G::Tuple((0..n).map(|_| gen_type(rng, names, depth - 1)).collect())
        }
        4..=5 => {
            // arity as the grammar allows it: mostly 2, sometimes 1 or 3
            let n = match rng.below(10) { 0 => 1, 1 => 3, _ => 2 };
            G::Table((0..n).map(|_| gen_type(rng, names, depth - 1)).collect())
        }
        6..=7 => {
            let n = rng.range(1, 3);
            let keys = ["a", "b", "c", "d"];
            let mut fs = Vec::new();
            for i in 0..n {
                fs.push((keys[i].to_string(), rng.chance(1, 3), gen_type(rng, names, depth - 1)));
            }
            G::Object(fs)
        }
        8..=11 => {
            let n = rng.range(2, 4);
            G::Union((0..n).map(|_| gen_type(rng, names, depth - 1)).collect())
        }
        12..=13 => G::Opt(Box::new(gen_type(rng, names, depth - 1))),
        14 => {
            let n = rng.below(3);
            let ps = (0..n).map(|i| (format!("p{i}"), gen_type(rng, names, depth - 1))).collect();
            let r = if rng.chance(2, 3) { Some(Box::new(gen_type(rng, names, depth - 1))) } else { None };
            G::Fun(ps, r)
        }
        _ => G::Paren(Box::new(gen_type(rng, names, depth - 1))),
    }
}
