//! Harness binary for the config/URI cluster (C31, C32, C34, C40).
mod emit;
mod json;
mod uri;

use vh_common::{Args, Report};

fn main() {
    let raw: Vec<String> = std::env::args().collect();
    match raw.get(1).map(|s| s.as_str()) {
        Some("load-json") => {
            json::child_load(&raw[2]);
            return;
        }
        Some("load-files") => {
            json::child_load_files(&raw[2..]);
            return;
        }
        Some("probe-emit") => {
            vh_common::silence_panics();
            emit::probe(raw.get(2).and_then(|s| s.parse().ok()).unwrap_or(1), raw.get(3).and_then(|s| s.parse().ok()).unwrap_or(2000));
            return;
        }
        Some("probe-parse") => {
            use std::io::Read;
            let mut t = String::new();
            std::io::stdin().read_to_string(&mut t).unwrap();
            for block in t.split("\n====\n") {
                let tree = emmylua_parser::LuaParser::parse(block, emmylua_parser::ParserConfig::default());
                let errs: Vec<String> = tree.get_errors().iter().map(|e| format!("{}@{:?}", e.message, e.range)).collect();
                println!("{:?} -> {:?}", block, errs);
            }
            return;
        }
        Some("probe-load") => {
            let v = emmylua_code_analysis::load_configs_raw(vec![std::path::PathBuf::from(&raw[2])], None);
            println!("{v}");
            return;
        }
        _ => {}
    }
    let args = Args::parse();
    if std::env::var("VH_LOUD").is_err() {
        vh_common::silence_panics();
    }
    // private copy of the model driver: other checks may relink lean/.lake/build/bin/vdriver while we run
    let driver = std::env::var("VDRIVER").unwrap_or_else(|_| "/verif/lean/.lake/build/bin/vdriver".to_string());
    let copy = std::env::temp_dir().join(format!("vdriver-vh-config-{}", std::process::id()));
    for _attempt in 0..20 {
        if std::fs::copy(&driver, &copy).is_ok() {
            unsafe { std::env::set_var("VDRIVER", &copy) };
            let probe = vh_common::catch(|| vh_common::run_driver(&["uri.encrow 65".to_string()]));
            if probe.map(|a| a == vec!["ok 41".to_string()]).unwrap_or(false) {
                break;
            }
        }
        std::thread::sleep(std::time::Duration::from_secs(3));
    }
    let mut report = Report::default();
    match args.prop.as_str() {
        "C34" => uri::run(&args, &mut report),
        "C31" | "C32" => json::run(&args, &mut report),
        "C40" => emit::run(&args, &mut report),
        "gen-uri" => {
            std::fs::write(&args.out, serde_json::to_string(&uri::tables()).unwrap()).expect("write tables");
            return;
        }
        other => {
            eprintln!("vh-config: unknown property {other}");
            std::process::exit(2);
        }
    }
    report.write(&args.out);
    let _ = std::fs::remove_file(&copy);
}
