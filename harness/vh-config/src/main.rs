//! Harness binary for the config/URI cluster (C31, C32, C34, C40).
mod json;
mod uri;

use vh_common::{Args, Report};

fn main() {
    let args = Args::parse();
    vh_common::silence_panics();
    let mut report = Report::default();
    match args.prop.as_str() {
        "C34" => uri::run(&args, &mut report),
        "C31" | "C32" => json::run(&args, &mut report),
        "load-json" => {
            let f = std::env::args().nth(2).expect("file");
            json::child_load(&f);
            return;
        }
        "gen-uri" => {
            std::fs::write(&args.out, serde_json::to_string(&uri::tables()).unwrap()).expect("write tables");
            return;
        }
        other => {
            eprintln!("vh-config: unknown property {other}");
            std::process::exit(2);
        }
    }
    report.write(&args.out);
}
