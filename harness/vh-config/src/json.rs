//! C31 / C32: `load_configs_raw` / `load_configs` / `Emmyrc::pre_process_emmyrc` vs the Lean `Json`
//! model, plus the properties' own oracles evaluated on the implementation.
use emmylua_code_analysis::{Emmyrc, load_configs, load_configs_raw};
use serde_json::{Map, Value, json};
use std::collections::{BTreeMap, HashSet};
use std::path::{Path, PathBuf};
use vh_common::{Args, Report, Rng, hex, run_driver};

// ---------------------------------------------------------------------------------------------
// protocol encodings (must equal Drv/Json.lean)
// ---------------------------------------------------------------------------------------------

fn tokens(v: &Value, out: &mut Vec<String>) {
    match v {
        Value::Null => out.push("n".into()),
        Value::Bool(true) => out.push("t".into()),
        Value::Bool(false) => out.push("f".into()),
        Value::Number(n) => {
            if let Some(i) = n.as_i64() {
                out.push(format!("i{i}"))
            } else if let Some(u) = n.as_u64() {
                out.push(format!("i{u}"))
            } else {
                out.push("float".into())
            }
        }
        Value::String(s) => out.push(format!("s{}", hex(s))),
        Value::Array(xs) => {
            out.push(format!("a{}", xs.len()));
            for x in xs {
                tokens(x, out);
            }
        }
        Value::Object(m) => {
            out.push(format!("o{}", m.len()));
            for (k, x) in m {
                out.push(hex(k));
                tokens(x, out);
            }
        }
    }
}

pub fn canon(v: &Value) -> String {
    match v {
        Value::Null => "n".into(),
        Value::Bool(true) => "t".into(),
        Value::Bool(false) => "f".into(),
        Value::Number(n) => {
            if let Some(i) = n.as_i64() {
                format!("i{i}")
            } else if let Some(u) = n.as_u64() {
                format!("i{u}")
            } else {
                "float".into()
            }
        }
        Value::String(s) => format!("s{}", hex(s)),
        Value::Array(xs) => format!("[{}]", xs.iter().map(canon).collect::<Vec<_>>().join(",")),
        Value::Object(m) => {
            let mut es: Vec<(&String, String)> = m.iter().map(|(k, x)| (k, canon(x))).collect();
            es.sort_by(|a, b| a.0.as_bytes().cmp(b.0.as_bytes()));
            format!("{{{}}}", es.iter().map(|(k, x)| format!("{}:{}", hex(k), x)).collect::<Vec<_>>().join(","))
        }
    }
}

fn load_request(files: &[Value]) -> String {
    let mut toks = Vec::new();
    for f in files {
        tokens(f, &mut toks);
    }
    format!("json.load {} {}", files.len(), toks.join(" ")).trim_end().to_string()
}

// ---------------------------------------------------------------------------------------------
// generators
// ---------------------------------------------------------------------------------------------

const SEGS: &[&str] = &["a", "b", "c", "a", "b", "diagnostics", "enable", "disable", "workspace", "library", "runtime", "version", "x", ""];
const REAL_KEYS: &[&str] = &[
    "diagnostics.enable", "diagnostics.disable", "diagnostics.globals", "runtime.version", "runtime.requirePattern",
    "workspace.library", "workspace.ignoreDir", "workspace.workspaceRoots", "workspace.packages", "workspace.encoding",
    "completion.enable", "completion.callSnippet", "strict.requirePath", "hint.enable", "resource.paths", "$schema",
    "codeLens.enable", "format.externalTool", "workspace.moduleMap", "workspace.reindexDuration",
];

fn gen_scalar(rng: &mut Rng) -> Value {
    match rng.below(8) {
        0 => Value::Null,
        1 => Value::Bool(true),
        2 => Value::Bool(false),
        3 => json!(rng.below(4) as i64),
        4 => json!(-(rng.below(3) as i64)),
        5 => json!(*rng.pick(&["", "x", "Lua 5.4", "~", "~/lib", "./src", "${workspaceFolder}/l", "é", "undefined-global"])),
        6 => json!(*rng.pick(&["a", "b", "c"])),
        _ => json!(18446744073709551615u64 - rng.below(2) as u64),
    }
}

fn gen_array(rng: &mut Rng) -> Value {
    let n = rng.below(5);
    let mut xs = Vec::new();
    for _ in 0..n {
        xs.push(match rng.below(10) {
            0 => json!({"path": "~", "ignoreDir": ["~", "x"]}),
            1 => json!([1]),
            2 => json!({}),
            _ => gen_scalar(rng),
        });
    }
    Value::Array(xs)
}

fn gen_key(rng: &mut Rng) -> String {
    if rng.chance(1, 5) {
        return (*rng.pick(REAL_KEYS)).to_string();
    }
    let n = match rng.below(10) {
        0..=5 => 1,
        6..=8 => 2,
        _ => 3,
    };
    (0..n).map(|_| *rng.pick(SEGS)).collect::<Vec<_>>().join(".")
}

fn gen_value(rng: &mut Rng, depth: usize) -> Value {
    match rng.below(10) {
        0..=3 => gen_scalar(rng),
        4..=5 => gen_array(rng),
        6 if depth > 0 => Value::Object(Map::new()),
        _ if depth < 3 => gen_object(rng, depth + 1),
        _ => gen_scalar(rng),
    }
}

fn gen_object(rng: &mut Rng, depth: usize) -> Value {
    let n = rng.below(5);
    let mut m = Map::new();
    for _ in 0..n {
        m.insert(gen_key(rng), gen_value(rng, depth));
    }
    Value::Object(m)
}

fn gen_file(rng: &mut Rng) -> Value {
    if rng.chance(1, 25) {
        return match rng.below(3) {
            0 => gen_scalar(rng),
            1 => gen_array(rng),
            _ => Value::Null,
        };
    }
    gen_object(rng, 0)
}

/// a settings map over a fixed prefix-free schema: path -> (is_array)
const SCHEMA: &[(&[&str], bool)] = &[
    (&["diagnostics", "enable"], false),
    (&["diagnostics", "disable"], true),
    (&["diagnostics", "globals"], true),
    (&["runtime", "version"], false),
    (&["workspace", "library"], true),
    (&["workspace", "packages"], true),
    (&["workspace", "ignoreDir"], true),
    (&["workspace", "moduleMap"], true),
    (&["a", "b", "c"], false),
    (&["a", "b", "d"], true),
    (&["a", "e"], false),
    (&["x"], false),
    (&["y"], true),
];

type Settings = Vec<(Vec<String>, Value)>;

/// items of an array-valued setting: strings, numbers, booleans, null, objects (the
/// `{"path":…,"ignoreDir":[…]}` entries of `workspace.library` / `packages`, module-map rules), nested arrays
fn gen_array_item(rng: &mut Rng) -> Value {
    match rng.below(12) {
        0..=3 => json!(*rng.pick(&["p", "q", "r", "s", "~"])),
        4 => json!(rng.below(3) as i64),
        5 => json!(rng.below(2) == 0),
        6 => Value::Null,
        7 | 8 => json!({"path": *rng.pick(&["lib", "~/l", "./x"]), "ignoreDir": (0..rng.below(2)).map(|_| *rng.pick(&["t", "u"])).collect::<Vec<_>>()}),
        9 => json!({"pattern": *rng.pick(&["^a$", "^b$"]), "replace": "m"}),
        10 => json!([rng.below(2) as i64]),
        _ => json!({}),
    }
}

fn gen_settings(rng: &mut Rng) -> Settings {
    let mut out = Vec::new();
    for (path, is_arr) in SCHEMA {
        if rng.chance(1, 2) {
            let v = if *is_arr {
                let n = rng.below(5);
                Value::Array((0..n).map(|_| gen_array_item(rng)).collect())
            } else {
                match rng.below(3) {
                    0 => json!(rng.below(2) == 0),
                    1 => json!(rng.below(5) as i64),
                    _ => json!(*rng.pick(&["Lua 5.1", "Lua 5.4", "u"])),
                }
            };
            out.push((path.iter().map(|s| s.to_string()).collect(), v));
        }
    }
    out
}

/// render a settings map with a random flat / nested / mixed spelling (mode 0 nested, 1 flat, 2 mixed)
fn render(rng: &mut Rng, settings: &Settings, mode: usize) -> Value {
    fn insert(m: &mut Map<String, Value>, keys: &[String], v: &Value) {
        if keys.len() == 1 {
            m.insert(keys[0].clone(), v.clone());
            return;
        }
        let e = m.entry(keys[0].clone()).or_insert_with(|| Value::Object(Map::new()));
        if let Value::Object(c) = e {
            insert(c, &keys[1..], v)
        }
    }
    let mut m = Map::new();
    for (path, v) in settings {
        let mut keys: Vec<String> = Vec::new();
        let mut cur = path[0].clone();
        for seg in &path[1..] {
            let split = match mode {
                0 => true,
                1 => false,
                _ => rng.chance(1, 2),
            };
            if split {
                keys.push(cur);
                cur = seg.clone();
            } else {
                cur = format!("{cur}.{seg}");
            }
        }
        keys.push(cur);
        insert(&mut m, &keys, v);
    }
    Value::Object(m)
}

fn nested_of(settings: &BTreeMap<Vec<String>, Value>) -> Value {
    let mut m = Map::new();
    fn insert(m: &mut Map<String, Value>, keys: &[String], v: &Value) {
        if keys.len() == 1 {
            m.insert(keys[0].clone(), v.clone());
            return;
        }
        let e = m.entry(keys[0].clone()).or_insert_with(|| Value::Object(Map::new()));
        if let Value::Object(c) = e {
            insert(c, &keys[1..], v)
        }
    }
    for (p, v) in settings {
        insert(&mut m, p, v);
    }
    Value::Object(m)
}

/// the property's statement as a reference: scalars from later files win, arrays are appended without duplicates
fn expected_merge(files: &[Settings]) -> Value {
    let mut acc: BTreeMap<Vec<String>, Value> = BTreeMap::new();
    for f in files {
        for (p, v) in f {
            match (acc.get_mut(p), v) {
                (Some(Value::Array(base)), Value::Array(ov)) => {
                    for x in ov {
                        if !base.contains(x) {
                            base.push(x.clone());
                        }
                    }
                }
                _ => {
                    acc.insert(p.clone(), v.clone());
                }
            }
        }
    }
    nested_of(&acc)
}

// ---------------------------------------------------------------------------------------------
// implementation side
// ---------------------------------------------------------------------------------------------

fn impl_load_raw(files: &[Value]) -> Result<String, String> {
    let files = files.to_vec();
    vh_common::catch(move || canon(&load_configs_raw(vec![], Some(files))))
}

/// full pipeline under catch_unwind: load_configs + pre_process_emmyrc; returns the serialized Emmyrc
fn impl_full(paths: Vec<PathBuf>, partial: Option<Vec<Value>>, ws: &str) -> Result<String, String> {
    let ws = ws.to_string();
    vh_common::catch(move || {
        let mut e = load_configs(paths, partial);
        e.pre_process_emmyrc(Path::new(&ws));
        serde_json::to_string(&e).unwrap_or_else(|e| format!("serialize error {e}"))
    })
}

pub const ENV: &[(&str, &str)] = &[("VH_A", "va"), ("VH_EMPTY", ""), ("VH_B", "/abs/b"), ("VH_C", "x/y")];
pub const HOME: &str = "/home/vu";
pub const WS: &str = "/ws/proj";

pub fn setup_env() {
    unsafe {
        std::env::set_var("HOME", HOME);
        for (k, v) in ENV {
            std::env::set_var(k, v);
        }
        std::env::remove_var("VH_UNSET");
    }
}

/// one path-carrying setting of the configuration with the strings put into it
#[derive(Clone, Debug)]
pub struct PathCase {
    /// 0 workspace.workspaceRoots, 1 workspace.ignoreDir, 2 resource.paths, 3 workspace.library (plain),
    /// 4 workspace.packages (plain), 5 workspace.library {path, ignoreDir}, 6 workspace.packages {path, ignoreDir}
    pub setting: usize,
    pub ws: String,
    pub paths: Vec<String>,
    pub dirs: Vec<String>,
}

pub const SETTINGS: &[&str] = &[
    "workspace.workspaceRoots", "workspace.ignoreDir", "resource.paths", "workspace.library", "workspace.packages",
    "workspace.library{path,ignoreDir}", "workspace.packages{path,ignoreDir}",
];
pub const ROOTS: &[&str] = &["/", "/ws", "/ws/proj", "/srv/project/ws", "/données/项目", "/a/b/c/d/e/f", "rel/ws", ""];

impl PathCase {
    fn to_json(&self) -> Value {
        json!({"setting": SETTINGS[self.setting], "setting_index": self.setting, "workspace": self.ws, "paths": self.paths, "ignoreDir": self.dirs})
    }
    fn from_json(v: &Value) -> Option<PathCase> {
        Some(PathCase {
            setting: v.get("setting_index")?.as_u64()? as usize,
            ws: v.get("workspace")?.as_str()?.to_string(),
            paths: v.get("paths")?.as_array()?.iter().filter_map(|x| x.as_str().map(|s| s.to_string())).collect(),
            dirs: v.get("ignoreDir")?.as_array()?.iter().filter_map(|x| x.as_str().map(|s| s.to_string())).collect(),
        })
    }
    fn request(&self) -> String {
        let mut r = format!("json.{} {} {} - {}", if self.setting >= 5 { "prepathcfg" } else { "prepaths" }, hex(&self.ws), hex(HOME), ENV.len());
        for (k, v) in ENV {
            r.push_str(&format!(" {} {}", hex(k), hex(v)));
        }
        for p in &self.paths {
            r.push_str(&format!(" {}", hex(p)));
        }
        if self.setting >= 5 {
            for d in &self.dirs {
                r.push_str(&format!(" {}", hex(d)));
            }
        }
        r
    }
}

/// the real `Emmyrc::pre_process_emmyrc` on a configuration that carries the strings in the chosen setting
fn impl_pathcase(c: &PathCase) -> Result<String, String> {
    use emmylua_code_analysis::{EmmyrcWorkspacePathConfig, EmmyrcWorkspacePathItem};
    let c = c.clone();
    vh_common::catch(move || {
        let mut e = Emmyrc::default();
        let plain = |ps: &Vec<String>| ps.iter().map(|p| EmmyrcWorkspacePathItem::Path(p.clone())).collect::<Vec<_>>();
        let cfg = |c: &PathCase| {
            vec![EmmyrcWorkspacePathItem::Config(EmmyrcWorkspacePathConfig { path: c.paths[0].clone(), ignore_dir: c.dirs.clone(), ignore_globs: vec![] })]
        };
        match c.setting {
            0 => e.workspace.workspace_roots = c.paths.clone(),
            1 => e.workspace.ignore_dir = c.paths.clone(),
            2 => e.resource.paths = c.paths.clone(),
            3 => e.workspace.library = plain(&c.paths),
            4 => e.workspace.packages = plain(&c.paths),
            5 => e.workspace.library = cfg(&c),
            _ => e.workspace.packages = cfg(&c),
        }
        e.pre_process_emmyrc(Path::new(&c.ws));
        let items = |v: &Vec<EmmyrcWorkspacePathItem>| -> String {
            match v.first() {
                Some(EmmyrcWorkspacePathItem::Config(k)) => format!("{}|{}", hex(&k.path), k.ignore_dir.iter().map(|d| hex(d)).collect::<Vec<_>>().join(",")),
                _ => v.iter().map(|i| hex(i.get_path())).collect::<Vec<_>>().join(","),
            }
        };
        let strs = |v: &Vec<String>| v.iter().map(|d| hex(d)).collect::<Vec<_>>().join(",");
        format!(
            "ok {}",
            match c.setting {
                0 => strs(&e.workspace.workspace_roots),
                1 => strs(&e.workspace.ignore_dir),
                2 => strs(&e.resource.paths),
                3 | 5 => items(&e.workspace.library),
                _ => items(&e.workspace.packages),
            }
        )
    })
}

/// On a model-vs-implementation disagreement: look for a concrete crashing input near the case
/// (more leading `../` / `./` steps, shallower and deeper workspace roots, every setting).
fn directed_path_search(c: &PathCase) -> Option<(PathCase, String)> {
    let strip = |p: &str| {
        let mut r = p;
        loop {
            if let Some(x) = r.strip_prefix("../") { r = x } else if let Some(x) = r.strip_prefix("./") { r = x } else { break }
        }
        r.to_string()
    };
    for ws in ROOTS.iter().map(|s| s.to_string()).chain(std::iter::once(c.ws.clone())) {
        for k in 0..=10usize {
            for lead in ["", "./"] {
                for setting in 0..SETTINGS.len() {
                    let mk = |p: &String| format!("{lead}{}{}", "../".repeat(k), strip(p));
                    let cand = PathCase { setting, ws: ws.clone(), paths: c.paths.iter().map(mk).collect(), dirs: c.dirs.iter().map(mk).collect() };
                    let cand = if cand.paths.is_empty() { PathCase { paths: vec![format!("{lead}{}x", "../".repeat(k))], ..cand } } else { cand };
                    if let Err(m) = impl_pathcase(&cand) {
                        return Some((cand, m));
                    }
                }
            }
        }
    }
    None
}

const PATH_PIECES: &[&str] = &[
    "~", "~", "~/", "~\\", "./", "/", "a", "b", "lib", "é", "中", "$VH_A", "${VH_A}", "$VH_UNSET", "$VH_EMPTY", "$VH_B", "$VH_C",
    "{workspaceFolder}", "${workspaceFolder}", "{env:VH_A}", "{env:VH_UNSET}", "{env:}", "{luarocks}", "{other}", "{", "}", "{}", "$",
    "$$", "..", ".", " ", "$1", "$_x", "$VH_A_", "{a{b}", "{workspaceFolder", "~x", "\\", "//",
];

fn gen_relative_climb(rng: &mut Rng) -> String {
    let mut p = String::new();
    if rng.chance(1, 3) {
        p.push_str("./");
    }
    for _ in 0..rng.below(9) {
        p.push_str(if rng.chance(1, 6) { "./" } else { "../" });
    }
    p.push_str(*rng.pick(&["lib", "x/y", "", "é", "a/../b", "..", "."]));
    p
}

fn gen_path_case(rng: &mut Rng) -> PathCase {
    let setting = rng.below(SETTINGS.len());
    let ws = (*rng.pick(ROOTS)).to_string();
    let one = |rng: &mut Rng| if rng.chance(1, 2) { gen_relative_climb(rng) } else { gen_path_string(rng) };
    let n = if setting >= 5 { 1 } else { rng.range(1, 3) };
    let paths: Vec<String> = (0..n).map(|_| one(rng)).collect();
    let dirs: Vec<String> = if setting >= 5 { (0..rng.below(3)).map(|_| one(rng)).collect() } else { vec![] };
    PathCase { setting, ws, paths, dirs }
}

fn gen_path_string(rng: &mut Rng) -> String {
    if rng.chance(1, 10) {
        return (*rng.pick(&["~", "", "~é", "~/", "./", ".", "/", "$", "{", "~~", "./é", "~\\x", "$é", "$VH_Aé", "{é}", "~/é"])).to_string();
    }
    let n = rng.range(1, 5);
    (0..n).map(|_| *rng.pick(PATH_PIECES)).collect()
}

fn write_files(dir: &Path, texts: &[(String, String)]) -> Vec<PathBuf> {
    let _ = std::fs::create_dir_all(dir);
    texts
        .iter()
        .map(|(name, text)| {
            let p = dir.join(name);
            if name != "missing.json" {
                let _ = std::fs::write(&p, text);
            }
            p
        })
        .collect()
}

/// child mode: `vh-config load-json FILE` prints canon(load_configs_raw) and the serialized Emmyrc
pub fn child_load(file: &str) {
    setup_env();
    let v: Value = serde_json::from_str(&std::fs::read_to_string(file).expect("read")).expect("json");
    let files: Vec<Value> = v.as_array().cloned().unwrap_or_default();
    println!("{}", canon(&load_configs_raw(vec![], Some(files.clone()))));
    let mut e = load_configs(vec![], Some(files));
    e.pre_process_emmyrc(Path::new(WS));
    println!("{}", serde_json::to_string(&e).unwrap_or_default());
}

/// child mode: `vh-config load-files F1 F2 …` prints canon(load_configs_raw([F1, F2, …], None))
pub fn child_load_files(files: &[String]) {
    setup_env();
    let paths: Vec<PathBuf> = files.iter().map(PathBuf::from).collect();
    println!("{}", canon(&load_configs_raw(paths, None)));
}

/// settings as a Lua table constructor (scalars only)
fn lua_table(settings: &Settings) -> String {
    fn lit(v: &Value) -> String {
        match v {
            Value::String(s) => format!("{:?}", s),
            Value::Bool(b) => b.to_string(),
            Value::Number(n) => n.to_string(),
            _ => "nil".into(),
        }
    }
    fn nest(path: &[String], v: &Value) -> String {
        if path.len() == 1 { format!("[{:?}] = {}", path[0], lit(v)) } else { format!("[{:?}] = {{ {} }}", path[0], nest(&path[1..], v)) }
    }
    // one top-level entry per setting would overwrite shared prefixes: use flat dotted keys instead
    let _ = nest;
    let items: Vec<String> = settings.iter().filter(|(_, v)| !v.is_array()).map(|(p, v)| format!("[{:?}] = {}", p.join("."), lit(v))).collect();
    format!("{{ {} }}", items.join(", "))
}

fn nontrivial_files(files: &[Value]) -> bool {
    // dotted key, nesting, or more than one file
    fn has(v: &Value) -> bool {
        match v {
            Value::Object(m) => m.iter().any(|(k, x)| k.contains('.') || x.is_object() || x.is_array() || has(x)),
            _ => false,
        }
    }
    files.len() > 1 || files.iter().any(has)
}

fn conflict_class(files: &[Value]) -> Option<&'static str> {
    // used only to describe inputs in the distribution
    let mut keys: Vec<String> = Vec::new();
    fn walk(prefix: &str, v: &Value, out: &mut Vec<String>) {
        match v {
            Value::Object(m) => {
                for (k, x) in m {
                    let nk = if prefix.is_empty() { k.clone() } else { format!("{prefix}.{k}") };
                    walk(&nk, x, out)
                }
            }
            _ => out.push(prefix.to_string()),
        }
    }
    for f in files {
        walk("", f, &mut keys);
    }
    for a in &keys {
        for b in &keys {
            if b.len() > a.len() && b.starts_with(a.as_str()) && b.as_bytes()[a.len()] == b'.' {
                return Some("value-and-prefix");
            }
        }
    }
    None
}

pub fn run(args: &Args, report: &mut Report) {
    setup_env();
    let c32 = args.prop == "C32";
    report.rule = "distinct canonical inputs (JSON file lists / path strings); non-trivial = a dotted key, nesting, an array or more than one file (JSON), any special piece (`~ $ { ./ /` or non-ASCII) for paths".into();
    let mut rng = Rng::new(args.seed ^ if c32 { 0x32 } else { 0x31 });
    let thorough = args.thorough();
    let n_sets = if thorough { if c32 { 80_000 } else { 40_000 } } else { 5_000 };
    let n_paths = if thorough { 12_000 } else { 1_200 };
    let n_schema = if thorough { 60_000 } else { 3_000 };
    let n_fresh = if thorough { 120 } else { 20 };

    let mut sets: Vec<Vec<Value>> = Vec::new();
    let mut path_cases: Vec<PathCase> = Vec::new();

    if let Some(f) = &args.replay {
        let v: Value = serde_json::from_str(&std::fs::read_to_string(f).expect("replay")).expect("json");
        let inp = &v["input"];
        if let Some(fs) = inp.get("files").and_then(|x| x.as_array()) {
            sets.push(fs.clone());
        }
        if let Some(p) = inp.get("path").and_then(|x| x.as_str()) {
            path_cases.push(PathCase { setting: 0, ws: WS.to_string(), paths: vec![p.to_string()], dirs: vec![] });
        }
        if let Some(c) = inp.get("path_case").and_then(PathCase::from_json) {
            path_cases.push(c);
        }
    } else {
        // known-defect inputs of the unfixed tree first
        sets.push(vec![json!({"a": 1, "a.b": 2})]);
        sets.push(vec![json!({"a.b": 2}), json!({"a": 1})]);
        sets.push(vec![json!({"a": 1}), json!({"a.b.c": 2})]);
        sets.push(vec![json!({"diagnostics.enable": false}), json!({"diagnostics": {"enable": true}})]);
        sets.push(vec![json!({"diagnostics": {"disable": ["x"]}}), json!({"diagnostics.disable": ["x", "y"]})]);
        sets.push(vec![json!({"workspace": {"library": ["~"]}})]);
        sets.push(vec![json!({"": {"x": 1}, "a": {"": 2}}), json!({"a.": 3})]);
        for _ in 0..n_sets {
            let n = match rng.below(10) {
                0 => 0,
                1..=3 => 1,
                4..=7 => 2,
                _ => rng.range(3, 4),
            };
            sets.push((0..n).map(|_| gen_file(&mut rng)).collect());
        }
        if !c32 {
            for p in ["~", "~é", "", "~/x", "./x", "/abs", "rel", "${workspaceFolder}/x", "$VH_A/x", "{env:VH_A}", "../x", "../../../../../../x", "./../../x"] {
                for ws in ROOTS {
                    for setting in [0usize, 3, 5] {
                        path_cases.push(PathCase { setting, ws: ws.to_string(), paths: vec![p.to_string()], dirs: if setting == 5 { vec![p.to_string()] } else { vec![] } });
                    }
                }
            }
            for _ in 0..n_paths {
                path_cases.push(gen_path_case(&mut rng));
            }
        }
    }

    // ---- tie: load_configs_raw vs model ----
    let reqs: Vec<String> = sets.iter().map(|s| load_request(s)).collect();
    let mut all_reqs = reqs.clone();
    for c in &path_cases {
        all_reqs.push(c.request());
    }
    let answers = run_driver(&all_reqs);
    let mut seen: HashSet<String> = HashSet::new();
    for (i, files) in sets.iter().enumerate() {
        report.evaluations += 1;
        if seen.insert(reqs[i].clone()) && nontrivial_files(files) {
            report.distinct_nontrivial += 1;
        }
        report.count(&format!("files={}", files.len().min(3)));
        if conflict_class(files).is_some() {
            report.count("has_value-and-prefix_key");
        }
        let model = &answers[i];
        let imp = match impl_load_raw(files) {
            Ok(s) => format!("ok {s}"),
            Err(m) => format!("err panic ({m})"),
        };
        if *model != imp {
            report.mismatch(json!({"input": {"files": files}, "op": "json.load", "model": model, "impl": imp}));
        } else {
            report.traces_validated += 1;
            if files.len() > 1 {
                report.sample(json!({"files": files, "model=impl": imp}));
            }
        }
        // C31 oracle: the whole pipeline never panics; C32 oracle: same input -> same output
        if c32 {
            // same files, same order -> same serialized Emmyrc (no path expansion here: that is C31's)
            let load = |files: &Vec<Value>| {
                let f = files.clone();
                vh_common::catch(move || serde_json::to_string(&load_configs(vec![], Some(f))).unwrap_or_default()).unwrap_or_else(|m| format!("panic {m}"))
            };
            if load(files) != load(files) {
                report.oracle_failure(json!({"input": {"files": files}, "what": "two loads of the same files in one process differ", "class": Value::Null}));
            }
        } else if let Err(m) = impl_full(vec![], Some(files.clone()), WS) {
            report.oracle_failure(json!({"input": {"files": files}, "what": format!("load_configs/pre_process_emmyrc panicked: {m}"), "class": Value::Null}));
        }
    }
    // ---- tie + oracle: every path-carrying setting × workspace roots × path strings (C31) ----
    let mut searched = 0;
    for (j, c) in path_cases.iter().enumerate() {
        report.evaluations += 1;
        let model = &answers[sets.len() + j];
        if seen.insert(format!("path:{:?}", c)) && c.paths.iter().chain(c.dirs.iter()).any(|p| p.chars().any(|ch| "~${}./\\".contains(ch) || !ch.is_ascii())) {
            report.distinct_nontrivial += 1;
        }
        report.count(&format!("path_setting={}", SETTINGS[c.setting]));
        report.count(&format!("path_root={:?}", c.ws));
        let imp = impl_pathcase(c);
        if let Err(m) = &imp {
            report.oracle_failure(json!({"input": {"path_case": c.to_json()}, "what": format!("pre_process_emmyrc panicked: {m}"), "class": Value::Null}));
        }
        let imp_s = imp.unwrap_or_else(|_| "err panic".into());
        if model == "err unsupported" {
            report.count("prepath_model_unsupported(non-ascii after $)");
        } else if *model != imp_s {
            report.mismatch(json!({"input": {"path_case": c.to_json()}, "op": "json.prepaths", "model": model, "impl": imp_s}));
            // the disagreement itself is not a failing input: search its neighbourhood for one
            if searched < 20 {
                searched += 1;
                if let Some((cand, m)) = directed_path_search(c) {
                    report.oracle_failure(json!({"input": {"path_case": cand.to_json()}, "what": format!("pre_process_emmyrc panicked: {m} (found by the directed search around a model-vs-implementation disagreement)"), "class": Value::Null}));
                }
            }
        } else {
            report.traces_validated += 1;
            report.count("prepath_agree");
        }
    }

    if args.replay.is_some() {
        return;
    }

    // ---- files on disk: unreadable / invalid files are skipped (tie through the values serde parsed) ----
    let dir = std::env::temp_dir().join(format!("vh-config-{}-{}", std::process::id(), args.seed));
    let n_disk = if thorough { 3_000 } else { 200 };
    let mut disk_cases: Vec<(String, String, Value)> = Vec::new();
    for i in 0..n_disk {
        let n = rng.range(1, 3);
        let mut texts = Vec::new();
        let mut parsed = Vec::new();
        for k in 0..n {
            let (name, text) = match rng.below(8) {
                0 => ("missing.json".to_string(), String::new()),
                1 => (format!("f{k}.json"), (*rng.pick(&["{", "", "[1,", "{\"a\":}", "nul", "\u{feff}{}", "{\"a\":1}}"])).to_string()),
                2 => (format!("f{k}.lua"), (*rng.pick(&["return {a = 1, [\"b.c\"] = {1,2}}", "return 1", "error('x')", "return {", "return {diagnostics = {enable = false}}", "local t = {} t.t = t return t", "return {a=0/0, b=1/0, c=function() end, [1]=1, [2.5]=2, [{}]=3}"])).to_string()),
                _ => (format!("f{k}.json"), serde_json::to_string(&gen_file(&mut rng)).unwrap()),
            };
            if name.ends_with(".json") && name != "missing.json" {
                if let Ok(v) = serde_json::from_str::<Value>(&text) {
                    parsed.push(v);
                }
            }
            texts.push((name, text));
        }
        let has_lua = texts.iter().any(|(n, _)| n.ends_with(".lua"));
        let paths = write_files(&dir.join(format!("s{i}")), &texts);
        report.evaluations += 1;
        report.count(if has_lua { "disk_with_lua(search-only)" } else { "disk_json" });
        let p2 = paths.clone();
        let raw = if has_lua { Ok(String::new()) } else { vh_common::catch(move || canon(&load_configs_raw(p2, None))) };
        match (raw.as_ref().map_err(|e| e.clone()), impl_full(paths.clone(), None, WS)) {
            (Err(m), _) | (_, Err(m)) => {
                if !c32 {
                    report.oracle_failure(json!({"input": {"disk_files": texts}, "what": format!("loading files from disk panicked: {m}"), "class": Value::Null}));
                }
            }
            _ => {}
        }
        if !has_lua {
            if let Ok(raw) = raw {
                disk_cases.push((load_request(&parsed), raw, json!({"disk_files": texts, "files": parsed})));
            }
        }
    }
    let disk_answers = run_driver(&disk_cases.iter().map(|c| c.0.clone()).collect::<Vec<_>>());
    for ((_, raw, input), model) in disk_cases.iter().zip(disk_answers.iter()) {
        if *model != format!("ok {raw}") {
            report.mismatch(json!({"input": input, "op": "json.load (disk)", "model": model, "impl": raw}));
        } else {
            report.traces_validated += 1;
        }
    }
    if !c32 {
        for (i, text) in ["while true do end", "local function f() return f() end return f()", "local t={} for i=1,1e9 do t[i]=i end return t"].iter().enumerate() {
            let paths = write_files(&dir.join(format!("loop{i}")), &[("c.lua".to_string(), text.to_string())]);
            report.evaluations += 1;
            report.count("disk_lua_nonterminating(search-only)");
            let t0 = std::time::Instant::now();
            let r = impl_full(paths, None, WS);
            if r.is_err() || t0.elapsed().as_secs() > 20 {
                report.oracle_failure(json!({"input": {"disk_files": [["c.lua", text]]}, "what": format!("non-terminating Lua config: {:?} after {:?}", r.err(), t0.elapsed()), "class": Value::Null}));
            }
        }
    }
    let _ = std::fs::remove_dir_all(&dir);

    // ---- C32 oracles on schema-directed files: flat == nested, later wins, arrays append without duplicates ----
    if c32 {
        for _ in 0..n_schema {
            let n = rng.range(1, 3);
            let files: Vec<Settings> = (0..n).map(|_| gen_settings(&mut rng)).collect();
            let expected = canon(&expected_merge(&files));
            let mut outs = Vec::new();
            for _variant in 0..3 {
                let rendered: Vec<Value> = files.iter().map(|s| { let mode = rng.below(3); render(&mut rng, s, mode) }).collect();
                report.evaluations += 1;
                // as client partial configs, or the earlier files on disk and the last one as a partial config
                let got = if rng.chance(1, 4) && rendered.len() > 1 {
                    let d = dir.join(format!("mix{}", report.evaluations));
                    let texts: Vec<(String, String)> = rendered[..rendered.len() - 1].iter().enumerate().map(|(i, v)| (format!("f{i}.json"), v.to_string())).collect();
                    let paths = write_files(&d, &texts);
                    let last = rendered[rendered.len() - 1].clone();
                    report.count("schema_disk+partial");
                    vh_common::catch(move || canon(&load_configs_raw(paths, Some(vec![last])))).unwrap_or_else(|m| format!("panic {m}"))
                } else {
                    impl_load_raw(&rendered).unwrap_or_else(|m| format!("panic {m}"))
                };
                if got != expected {
                    report.oracle_failure(json!({"input": {"files": rendered}, "what": format!("merged configuration differs from \"later scalar wins, arrays = old items followed by the new ones not yet present (structural equality), flat = nested\": expected {expected}, got {got}"), "class": Value::Null}));
                }
                outs.push(got);
            }
            report.count("schema_sets");
        }
        // fresh processes: the same files give the same configuration in every process
        let exe = std::env::current_exe().expect("exe");
        for i in 0..n_fresh {
            let files = &sets[rng.below(sets.len())];
            let f = std::env::temp_dir().join(format!("vh-config-fresh-{}-{i}.json", std::process::id()));
            std::fs::write(&f, serde_json::to_string(&Value::Array(files.clone())).unwrap()).unwrap();
            let mut outs = Vec::new();
            for _ in 0..3 {
                let o = std::process::Command::new(&exe).arg("load-json").arg(&f).output().expect("child");
                outs.push((o.status.success(), String::from_utf8_lossy(&o.stdout).to_string()));
            }
            report.evaluations += 3;
            report.count("fresh_process_runs");
            if outs.iter().any(|o| !o.0) || outs.iter().any(|o| o.1 != outs[0].1) {
                report.oracle_failure(json!({"input": {"files": files}, "what": "fresh processes disagree on (or crash while loading) the same configuration files", "class": Value::Null}));
            }
            let _ = std::fs::remove_file(&f);
        }
    }
    if c32 {
        // size/time-skewed file lists: a large (≈7 MB) or computing (Lua) first file, a small last file;
        // 5 fresh processes each must give the reference merge (later file wins, whatever loads faster)
        let exe = std::env::current_exe().expect("exe");
        let n_skew = if thorough { 16 } else { 4 };
        let d = std::env::temp_dir().join(format!("vh-config-skew-{}", std::process::id()));
        let _ = std::fs::create_dir_all(&d);
        for i in 0..n_skew {
            let first = gen_settings(&mut rng);
            let mut last = gen_settings(&mut rng);
            // make sure the two files disagree on at least one scalar
            last.retain(|(p, _)| p != &vec!["x".to_string()]);
            last.push((vec!["x".to_string()], json!("last")));
            let mut first = first;
            first.retain(|(p, _)| p != &vec!["x".to_string()]);
            first.push((vec!["x".to_string()], json!("first")));
            let lua_first = i % 2 == 1;
            let (first_name, first_text, first_eff): (String, String, Settings) = if lua_first {
                let scal: Settings = first.iter().filter(|(_, v)| !v.is_array()).cloned().collect();
                (format!("s{i}a.lua"), format!("local s = 0\nfor i = 1, 3000000 do s = s + i % 7 end\nreturn {}", lua_table(&scal)), scal)
            } else {
                let mut v = render(&mut rng, &first, 2);
                if let Value::Object(m) = &mut v {
                    m.insert("zz_padding".into(), json!("x".repeat(7_000_000)));
                }
                let mut eff = first.clone();
                eff.push((vec!["zz_padding".to_string()], json!("x".repeat(7_000_000))));
                (format!("s{i}a.json"), v.to_string(), eff)
            };
            let last_text = render(&mut rng, &last, 2).to_string();
            let fa = d.join(&first_name);
            let fb = d.join(format!("s{i}b.json"));
            std::fs::write(&fa, &first_text).unwrap();
            std::fs::write(&fb, &last_text).unwrap();
            let expected = canon(&expected_merge(&[first_eff, last.clone()]));
            for run in 0..5 {
                let o = std::process::Command::new(&exe).arg("load-files").arg(&fa).arg(&fb).output().expect("child");
                let got = String::from_utf8_lossy(&o.stdout).trim_end().to_string();
                report.evaluations += 1;
                report.count(if lua_first { "skewed_lua_first_runs" } else { "skewed_7MB_first_runs" });
                if !o.status.success() || got != expected {
                    let short = |s: &str| if s.len() > 600 { format!("{}…", &s[..600]) } else { s.to_string() };
                    report.oracle_failure(json!({"input": {"disk_files": [[first_name, if lua_first { first_text.clone() } else { "(7 MB file: settings + zz_padding)".to_string() }], ["b.json", last_text]], "first_settings": first, "last_settings": last}, "what": format!("run {run}: a slow first file and a small last file do not merge as \"later file wins\": expected {}, got {}", short(&expected), short(&got)), "class": Value::Null}));
                    break;
                }
            }
            let _ = std::fs::remove_file(&fa);
            let _ = std::fs::remove_file(&fb);
        }
        let _ = std::fs::remove_dir_all(&d);
    }
    report.notes.push("Lua configuration files (luars) are exercised by the crash oracle only (search-only); JSON numbers are integers (floats are not modelled); Emmyrc deserialisation and the `\\w` Unicode tables of the env-var regex are outside the model.".into());
}
