//! C40: `SchemaConverter::convert` vs the Lean `Emit` model on the modelled schema fragment, and the
//! property's own oracle (convert → parse with `LuaParser`: no panic, no syntax error, root declared)
//! on generated schemas of every shape.
use emmylua_parser::{LuaAstNode, LuaDocTagAlias, LuaDocTagClass, LuaParser, ParserConfig};
use schema_to_emmylua::SchemaConverter;
use serde_json::{Map, Value, json};
use std::collections::HashSet;
use vh_common::{Args, Report, Rng, hex, run_driver};

const NAMES: &[&str] = &[
    "name", "count", "Color", "Level", "item_1", "$schema", "a\"b", "n\nl", "my type!", "", "a b", "é", "中文", "a.b", "a-b", "1x",
    "back\\slash", "tab\there", "cr\rx", "end\\", "q'", "x]", "[string]", "---@field", "nil", "end", "a#b", "a|b", "a?", "a<b>",
    "\u{0}", "😀", "_ok", "A9", "crlf\r\nx",
    // every word the doc grammar treats specially, and tag words
    "public", "private", "protected", "package", "readonly", "internal", "async", "fun", "table", "self", "true", "false", "keyof",
    "extends", "as", "in", "and", "or", "else", "any", "string", "class", "field", "param", "return", "type", "alias", "@class",
    "@field x", "@param", "@return", "@type", "@alias", "it's \"quoted\"", "'", "\"'",
];
const STRINGS: &[&str] = &[
    "red", "green", "", "a\"b", "n\nl", "back\\slash", "end\\", "sp ace", "é", "#hash", "q'", "cr\rx", "tab\t", "|", "\"", "\\\"", "]]",
    "--", "\u{0}", "😀", "crlf\r\nx", "it's \"quoted\"", "@class", "private", "fun", "nil", "true", "'\"", "@field x",
];
const DESCS: &[&str] = &[
    "The name", "multi\nline", "cr\rlf", "trailing\n", "", " ", "# hash", "---@class Evil", "é 中", "a\r\nb", "\n\nx", "quote \" here",
    "]] end", "\u{0}", "@class", "@class Evil", "@field", "@field x string", "@param", "@return", "@type", "@alias A", "  @class indented",
    "\t@field", "text\n@class after newline", "a\n  @return x", "@", "@@", "@diagnostic disable", "private", "fun", "a\r@field", "\n@type",
    "public x", "---@field", "|", "| x", "#region", "@\n@",
];
const PRIMS: &[&str] = &["string", "integer", "number", "boolean", "null", "object", "array", "weird", ""];

fn gen_name(rng: &mut Rng) -> String {
    if rng.chance(1, 2) {
        (*rng.pick(&NAMES[..6])).to_string()
    } else {
        (*rng.pick(NAMES)).to_string()
    }
}

fn gen_desc(rng: &mut Rng, m: &mut Map<String, Value>) {
    if rng.chance(1, 3) {
        m.insert("description".into(), json!(*rng.pick(DESCS)));
    }
}

fn gen_type_schema(rng: &mut Rng, depth: usize, defs: &[String]) -> Value {
    let mut m = Map::new();
    gen_desc(rng, &mut m);
    match rng.below(if depth > 2 { 6 } else { 14 }) {
        0 | 1 => {
            m.insert("type".into(), json!(*rng.pick(PRIMS)));
        }
        2 => {
            let n = rng.below(3);
            let ts: Vec<&str> = (0..n).map(|_| *rng.pick(PRIMS)).collect();
            m.insert("type".into(), json!(ts));
        }
        3 => {
            let r = if !defs.is_empty() && rng.chance(3, 4) { rng.pick(defs).clone() } else { gen_name(rng) };
            m.insert("$ref".into(), json!(format!("#/$defs/{r}")));
        }
        4 => {
            let n = rng.below(4);
            let vs: Vec<Value> = (0..n).map(|_| if rng.chance(1, 6) { json!(rng.below(3)) } else { json!(*rng.pick(STRINGS)) }).collect();
            m.insert("enum".into(), Value::Array(vs));
        }
        5 => {
            m.insert("const".into(), if rng.chance(1, 5) { json!(1) } else { json!(*rng.pick(STRINGS)) });
        }
        6 => {
            m.insert("type".into(), json!("array"));
            if rng.chance(3, 4) {
                m.insert("items".into(), gen_type_schema(rng, depth + 1, defs));
            }
        }
        7 => {
            m.insert("type".into(), json!("object"));
            if rng.chance(1, 2) {
                m.insert("additionalProperties".into(), if rng.chance(1, 4) { json!(true) } else { gen_type_schema(rng, depth + 1, defs) });
            }
        }
        8 | 9 => {
            let key = *rng.pick(&["anyOf", "oneOf"]);
            let n = rng.below(4);
            let vs: Vec<Value> = (0..n).map(|_| gen_type_schema(rng, depth + 1, defs)).collect();
            m.insert(key.into(), Value::Array(vs));
        }
        10 => {
            // oneOf of consts
            let n = rng.below(4);
            let vs: Vec<Value> = (0..n)
                .map(|_| {
                    let mut c = Map::new();
                    gen_desc(rng, &mut c);
                    if rng.chance(1, 4) {
                        c.insert("enum".into(), json!([*rng.pick(STRINGS)]));
                    } else {
                        c.insert("const".into(), json!(*rng.pick(STRINGS)));
                    }
                    Value::Object(c)
                })
                .collect();
            m.insert("oneOf".into(), Value::Array(vs));
        }
        11 => {
            let vs: Vec<Value> = (0..rng.range(1, 2)).map(|_| gen_type_schema(rng, depth + 1, defs)).collect();
            m.insert("allOf".into(), Value::Array(vs));
        }
        _ => return gen_object_schema(rng, depth + 1, defs),
    }
    Value::Object(m)
}

fn gen_object_schema(rng: &mut Rng, depth: usize, defs: &[String]) -> Value {
    let mut m = Map::new();
    gen_desc(rng, &mut m);
    if rng.chance(4, 5) {
        m.insert("type".into(), json!("object"));
    }
    let n = rng.below(5);
    let mut props = Map::new();
    let mut names = Vec::new();
    for _ in 0..n {
        let name = gen_name(rng);
        names.push(name.clone());
        props.insert(name, gen_type_schema(rng, depth + 1, defs));
    }
    if rng.chance(9, 10) {
        m.insert("properties".into(), Value::Object(props));
    }
    if rng.chance(1, 2) && !names.is_empty() {
        let req: Vec<String> = names.iter().filter(|_| rng.chance(1, 2)).cloned().collect();
        m.insert("required".into(), json!(req));
    }
    if rng.chance(1, 4) {
        m.insert("additionalProperties".into(), gen_type_schema(rng, depth + 1, defs));
    }
    Value::Object(m)
}

pub fn gen_schema(rng: &mut Rng) -> Value {
    let ndefs = rng.below(4);
    let def_names: Vec<String> = (0..ndefs).map(|_| gen_name(rng)).collect();
    let mut root = match rng.below(8) {
        0 => gen_type_schema(rng, 0, &def_names), // root enum / union / primitive
        _ => gen_object_schema(rng, 0, &def_names),
    };
    if let Value::Object(m) = &mut root {
        match rng.below(6) {
            0 => {}
            1 | 2 => {
                m.insert("title".into(), json!(gen_name(rng)));
            }
            _ => {
                m.insert("title".into(), json!(*rng.pick(&["Config", "Root", "my type!", "Emmyrc", "a.b"])));
            }
        }
        if !def_names.is_empty() {
            let mut defs = Map::new();
            for d in &def_names {
                defs.insert(d.clone(), gen_type_schema(rng, 1, &def_names));
            }
            m.insert("$defs".into(), Value::Object(defs));
        }
    }
    root
}

/// a root that becomes an alias without variants (or nearly) together with `$defs` entries of the
/// fallback kinds, and names / values with both kinds of quotes
pub fn gen_combo(rng: &mut Rng) -> Value {
    let mut root = match rng.below(7) {
        0 => json!({"enum": [0, 1, 2, 3]}),
        1 => json!({"anyOf": [{"type": "null"}]}),
        2 => json!({"oneOf": [{"const": 1}, {"const": true}]}),
        3 => json!({"oneOf": []}),
        4 => json!({"anyOf": []}),
        5 => json!({"enum": []}),
        _ => json!({"type": "object", "properties": {"it's \"quoted\"": {"enum": ["it's \"quoted\"", "a"]}, "q": {"const": "it's \"quoted\""}}}),
    };
    let m = root.as_object_mut().unwrap();
    if rng.chance(2, 3) {
        m.insert("title".into(), json!(gen_name(rng)));
    }
    let mut defs = Map::new();
    for _ in 0..rng.range(1, 3) {
        let d = match rng.below(8) {
            0 => json!({"type": "string"}),
            1 => json!({"type": "array", "items": {"type": "integer"}}),
            2 => json!({"$ref": "#/$defs/Other"}),
            3 => json!({"type": ["string", "integer"]}),
            4 => json!({"enum": [1, 2]}),
            5 => json!({"const": "it's \"quoted\""}),
            6 => json!({"oneOf": []}),
            _ => json!({"type": "object", "properties": {"private": {"type": "string"}}, "description": "@class X"}),
        };
        defs.insert(gen_name(rng), d);
    }
    m.insert("$defs".into(), Value::Object(defs));
    root
}

pub struct Checked {
    pub text: String,
    pub root: String,
    pub errors: Vec<String>,
    pub root_declared: bool,
    /// tags in the parsed text beyond those the emitter writes itself (`---@class/@alias/@field` lines)
    pub stray_tags: usize,
}

/// convert → parse: the property's observation point
pub fn convert_and_parse(schema: &Value, private: bool) -> Result<Checked, String> {
    convert_and_parse_with(schema, private, "schema.")
}

pub fn convert_and_parse_with(schema: &Value, private: bool, prefix: &str) -> Result<Checked, String> {
    let schema = schema.clone();
    let prefix = prefix.to_string();
    vh_common::catch(move || {
        let mut conv = SchemaConverter::new(private);
        conv.type_prefix = prefix;
        let r = conv.convert(&schema);
        let tree = LuaParser::parse(&r.annotation_text, ParserConfig::default());
        let errors: Vec<String> = tree.get_errors().iter().map(|e| format!("{:?}@{:?}", e.message, e.range)).collect();
        let chunk = tree.get_chunk_node();
        let mut declared = false;
        for c in chunk.descendants::<LuaDocTagClass>() {
            if c.get_name_token().map(|t| t.get_name_text().to_string()) == Some(r.root_type_name.clone()) {
                declared = true;
            }
        }
        for a in chunk.descendants::<LuaDocTagAlias>() {
            if a.get_name_token().map(|t| t.get_name_text().to_string()) == Some(r.root_type_name.clone()) {
                declared = true;
            }
        }
        // every tag the parser sees must come from a line the emitter wrote as a tag line
        let tag_lines = r.annotation_text.lines().filter(|l| l.starts_with("---@")).count();
        let parsed_tags = chunk.descendants::<emmylua_parser::LuaDocTag>().count();
        let stray_tags = parsed_tags.saturating_sub(tag_lines);
        Checked { text: r.annotation_text, root: r.root_type_name, errors, root_declared: declared, stray_tags }
    })
}

pub fn probe(seed: u64, n: usize) {
    let mut rng = Rng::new(seed);
    let mut kinds: std::collections::BTreeMap<String, (usize, String)> = Default::default();
    for _ in 0..n {
        let s = gen_schema(&mut rng);
        match convert_and_parse(&s, false) {
            Err(m) => {
                kinds.entry(format!("panic {m}")).or_insert((0, s.to_string())).0 += 1;
            }
            Ok(c) => {
                if !c.errors.is_empty() {
                    let e = &c.errors[0];
                    let k = e.split('@').next().unwrap_or("").to_string();
                    let ent = kinds.entry(format!("syntax {k}")).or_insert((0, format!("{}\n=> {}", s, c.text)));
                    ent.0 += 1;
                    if s.to_string().len() < ent.1.split('\n').next().unwrap().len() {
                        ent.1 = format!("{}\n=> {}", s, c.text);
                    }
                }
                if !c.root_declared {
                    let ent = kinds.entry("root not declared".into()).or_insert((0, format!("{}\n=> root={} {}", s, c.root, c.text)));
                    ent.0 += 1;
                    if s.to_string().len() < ent.1.split('\n').next().unwrap().len() {
                        ent.1 = format!("{}\n=> root={} {}", s, c.root, c.text);
                    }
                }
            }
        }
    }
    for (k, (n, ex)) in kinds {
        println!("== {n} × {k}\n{ex}\n");
    }
}

/// a schema of the modelled fragment + its driver request
fn gen_fragment(rng: &mut Rng) -> (Value, String, bool) {
    let private = rng.chance(1, 4);
    let mut m = Map::new();
    m.insert("type".into(), json!("object"));
    let title = if rng.chance(5, 6) { Some(gen_name(rng)) } else { None };
    if let Some(t) = &title {
        m.insert("title".into(), json!(t));
    }
    let desc = if rng.chance(1, 2) { Some((*rng.pick(DESCS)).to_string()) } else { None };
    if let Some(d) = &desc {
        m.insert("description".into(), json!(d));
    }
    let n = rng.below(5);
    let mut props: std::collections::BTreeMap<String, (Option<String>, bool, Value, String)> = Default::default();
    for _ in 0..n {
        let name = gen_name(rng);
        let pdesc = if rng.chance(1, 3) { Some((*rng.pick(DESCS)).to_string()) } else { None };
        let required = rng.chance(1, 2);
        let mut pm = Map::new();
        if let Some(d) = &pdesc {
            pm.insert("description".into(), json!(d));
        }
        let kind = match rng.below(3) {
            0 => {
                let t = *rng.pick(PRIMS);
                pm.insert("type".into(), json!(t));
                format!("p {}", hex(t))
            }
            1 => {
                let c = *rng.pick(STRINGS);
                pm.insert("const".into(), json!(c));
                format!("c {}", hex(c))
            }
            _ => {
                let k = rng.below(4);
                let vs: Vec<&str> = (0..k).map(|_| *rng.pick(STRINGS)).collect();
                pm.insert("enum".into(), json!(vs));
                format!("e {} {}", k, vs.iter().map(|v| hex(v)).collect::<Vec<_>>().join(" ")).trim_end().to_string()
            }
        };
        props.insert(name, (pdesc, required, Value::Object(pm), kind));
    }
    let mut pobj = Map::new();
    let mut req = Vec::new();
    let mut toks = Vec::new();
    for (name, (pdesc, required, v, kind)) in &props {
        pobj.insert(name.clone(), v.clone());
        if *required {
            req.push(name.clone());
        }
        toks.push(format!("{} {} {} {}", hex(name), pdesc.as_ref().map(|d| hex(d)).unwrap_or("none".into()), if *required { 1 } else { 0 }, kind));
    }
    m.insert("properties".into(), Value::Object(pobj));
    m.insert("required".into(), json!(req));
    let r = format!(
        "emit.convert {} {} {} {} {}",
        if private { 1 } else { 0 },
        title.as_ref().map(|t| hex(t)).unwrap_or("none".into()),
        desc.as_ref().map(|d| hex(d)).unwrap_or("none".into()),
        props.len(),
        toks.join(" ")
    );
    (Value::Object(m), r.trim_end().to_string(), private)
}

fn oracle(schema: &Value, private: bool, report: &mut Report) {
    oracle_with(schema, private, "schema.", report)
}

fn oracle_with(schema: &Value, private: bool, prefix: &str, report: &mut Report) {
    match convert_and_parse_with(schema, private, prefix) {
        Err(m) => report.oracle_failure(json!({"input": {"schema": schema, "private": private, "prefix": prefix}, "what": format!("convert/parse panicked: {m}"), "class": Value::Null})),
        Ok(c) => {
            if !c.errors.is_empty() {
                report.oracle_failure(json!({"input": {"schema": schema, "private": private, "prefix": prefix}, "what": format!("annotation text has syntax errors: {:?}", &c.errors[..c.errors.len().min(3)]), "text": c.text, "class": Value::Null}));
            } else if !c.root_declared {
                report.oracle_failure(json!({"input": {"schema": schema, "private": private, "prefix": prefix}, "what": format!("root type {:?} is not declared by the annotation text", c.root), "text": c.text, "class": Value::Null}));
            } else if c.stray_tags > 0 {
                report.oracle_failure(json!({"input": {"schema": schema, "private": private, "prefix": prefix}, "what": format!("{} description line(s) were read as annotation tags (text starting with `@`)", c.stray_tags), "text": c.text, "class": Value::Null}));
            }
        }
    }
}

pub fn run(args: &Args, report: &mut Report) {
    report.rule = "distinct schemas (canonical JSON); non-trivial = at least one name / string / description that is not a plain identifier, or a union / nested / $ref construct".into();
    let mut rng = Rng::new(args.seed ^ 0x40);
    let (n_frag, n_gen) = if args.thorough() { (120_000, 300_000) } else { (3_000, 6_000) };
    let mut seen: HashSet<String> = HashSet::new();
    let plain = |s: &str| !s.is_empty() && s.chars().all(|c| c.is_ascii_alphanumeric() || c == '_' || c == ' ');
    fn strings(v: &Value, out: &mut Vec<String>) {
        match v {
            Value::String(s) => out.push(s.clone()),
            Value::Array(a) => a.iter().for_each(|x| strings(x, out)),
            Value::Object(m) => m.iter().for_each(|(k, x)| { out.push(k.clone()); strings(x, out) }),
            _ => {}
        }
    }
    let mut count = |report: &mut Report, s: &Value| {
        report.evaluations += 1;
        let mut ss = Vec::new();
        strings(s, &mut ss);
        if seen.insert(s.to_string()) && ss.iter().any(|x| !plain(x) || x == "anyOf" || x == "oneOf") {
            report.distinct_nontrivial += 1;
        }
    };

    if let Some(f) = &args.replay {
        let v: Value = serde_json::from_str(&std::fs::read_to_string(f).expect("replay")).expect("json");
        let schema = v["input"]["schema"].clone();
        let private = v["input"]["private"].as_bool().unwrap_or(false);
        let prefix = v["input"]["prefix"].as_str().unwrap_or("schema.").to_string();
        count(report, &schema);
        oracle_with(&schema, private, &prefix, report);
        return;
    }

    // ---- tie: the modelled fragment, full annotation text + root name ----
    let frags: Vec<(Value, String, bool)> = (0..n_frag).map(|_| gen_fragment(&mut rng)).collect();
    let reqs: Vec<String> = frags.iter().map(|f| f.1.clone()).collect();
    let answers = run_driver(&reqs);
    for ((schema, _, private), model) in frags.iter().zip(answers.iter()) {
        count(report, schema);
        report.count("fragment");
        let s2 = schema.clone();
        let p2 = *private;
        let imp = vh_common::catch(move || {
            let r = SchemaConverter::new(p2).convert(&s2);
            format!("ok {} {}", hex(&r.annotation_text), hex(&r.root_type_name))
        })
        .unwrap_or_else(|m| format!("err panic ({m})"));
        if *model != imp {
            let show = |s: &str| s.split(' ').nth(1).and_then(vh_common::unhex).unwrap_or_else(|| s.to_string());
            report.mismatch(json!({"input": {"schema": schema, "private": private}, "op": "emit.convert", "model_text": show(model), "impl_text": show(&imp)}));
        } else {
            report.traces_validated += 1;
            if report.samples.len() < 3 {
                report.sample(json!({"schema": schema, "annotation_text": vh_common::unhex(imp.split(' ').nth(1).unwrap_or("-"))}));
            }
        }
        oracle(schema, *private, report);
    }
    // ---- oracle: general schemas (objects, arrays, enums, oneOf/anyOf/allOf, $ref, $defs, odd names) ----
    for (s, p) in [
        (json!({"enum": ["a", "b"]}), false),
        (json!({"title": "my type!", "type": "object", "properties": {"a\"b": {"type": "string"}, "n\nl": {"type": "integer"}}}), false),
        (json!({}), false),
        (json!({"title": "T", "oneOf": []}), true),
    ] {
        count(report, &s);
        oracle(&s, p, report);
    }
    for i in 0..n_gen {
        let s = if i % 6 == 5 { gen_combo(&mut rng) } else { gen_schema(&mut rng) };
        let private = rng.chance(1, 4);
        let prefix = *rng.pick(&["schema.", "schema.", "schema.", "", "my.ns."]);
        count(report, &s);
        report.count(if i % 6 == 5 { "combo(variant-less root + fallback $defs / both quotes)" } else if s.get("properties").is_some() { "general_object_root" } else { "general_other_root" });
        if prefix.is_empty() {
            report.count("empty_type_prefix");
        }
        oracle_with(&s, private, prefix, report);
    }
    report.notes.push("Tie on the modelled fragment (root object: title/description/properties of primitive, const, enum kinds, required); $ref, $defs, arrays, anyOf/oneOf/allOf and additionalProperties are covered by the convert→parse oracle only (partial, as designed).".into());
}
