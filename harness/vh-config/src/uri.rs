//! C34: `file_path_to_uri` / `uri_to_file_path` / `Vfs::file_id` vs the Lean `Uri` model, the T-exec
//! tables (encode set, hex digits, parser path-state per byte), and the property's own oracle on the
//! implementation.
use emmylua_code_analysis::{Vfs, file_path_to_uri, uri_to_file_path};
use lsp_types::Uri;
use serde_json::{Value, json};
use std::collections::HashSet;
use std::ffi::OsStr;
use std::os::unix::ffi::OsStrExt;
use std::path::PathBuf;
use std::str::FromStr;
use vh_common::{Args, Report, Rng, run_driver};

pub fn hexb(b: &[u8]) -> String {
    if b.is_empty() {
        return "-".into();
    }
    b.iter().map(|x| format!("{:02x}", x)).collect()
}

fn unhexb(s: &str) -> Vec<u8> {
    if s == "-" {
        return vec![];
    }
    (0..s.len() / 2).map(|i| u8::from_str_radix(&s[2 * i..2 * i + 2], 16).unwrap_or(0)).collect()
}

fn path_of(bytes: &[u8]) -> PathBuf {
    PathBuf::from(OsStr::from_bytes(bytes))
}

// ---------------------------------------------------------------------------------------------
// T-exec tables
// ---------------------------------------------------------------------------------------------

/// Tables obtained by executing the real functions over their whole finite domain.
pub fn tables() -> Value {
    // encode row: what `Url::from_file_path` emits for byte b inside a component
    let mut enc = Vec::new();
    for b in 0..=255u8 {
        let p = [b"/x".as_slice(), &[b], b"y"].concat();
        let row: Vec<u32> = match url::Url::from_file_path(path_of(&p)) {
            Ok(u) => {
                let s = u.as_str();
                match s.strip_prefix("file:///x").and_then(|r| r.strip_suffix('y')) {
                    Some(mid) => mid.bytes().map(|x| x as u32).collect(),
                    None => vec![998],
                }
            }
            Err(_) => vec![997],
        };
        enc.push(row);
    }
    // hex digit value as seen by percent_decode (both positions must agree)
    let mut hexv = Vec::new();
    for b in 0..=255u8 {
        let hi: Vec<u8> = percent_encoding::percent_decode(&[b'%', b, b'1']).collect();
        let lo: Vec<u8> = percent_encoding::percent_decode(&[b'%', b'1', b]).collect();
        let v = if hi.len() == 1 && lo.len() == 1 && (hi[0] - 1) % 16 == 0 && (hi[0] - 1) / 16 == lo[0] - 16 {
            Some((hi[0] / 16) as u32)
        } else if hi.len() == 3 && lo.len() == 3 {
            None
        } else {
            Some(999)
        };
        hexv.push(v);
    }
    // parser path state for one ASCII byte in the middle of a segment
    let mut parse = Vec::new();
    for b in 0..128u8 {
        let s = format!("file:///x{}y", b as char);
        let row: Vec<u32> = match url::Url::parse(&s) {
            Ok(u) => match u.path().strip_prefix("/x").and_then(|r| r.strip_suffix('y')) {
                Some(mid) => mid.bytes().map(|x| x as u32).collect(),
                None => vec![999],
            },
            Err(_) => vec![997],
        };
        parse.push(row);
    }
    json!({"enc": enc, "hex": hexv, "parse": parse})
}

// ---------------------------------------------------------------------------------------------
// generators
// ---------------------------------------------------------------------------------------------

const PIECES: &[&str] = &[
    "a", "b", "Z", "0", "x", "lua", "init", " ", " ", "%", "%", "#", "?", "é", "中", "😀", "ß", "\\", ":", "|", ".", "-",
    "_", "~", "\"", "<", ">", "{", "}", "`", "[", "]", "^", ";", "=", "@", "&", "+", "$", ",", "'", "!", "*", "(", ")",
    "\t", "\n", "\r", "\u{7f}", "\u{1}", "%41", "%2e", "%2E", "%zz", "2e", "c:", "c|", "C:",
];
const WHOLE: &[&str] = &[".", "..", "...", ".a", "a.", "%2e", "%2e%2e", "%2E.", "c:", "c|", "C:", "~", " ", "%", "a b", "#", "?"];

#[derive(Clone)]
struct GenPath {
    bytes: Vec<u8>,
    /// normalised absolute: starts with '/', no empty / `.` / `..` component, no trailing slash
    normalized: bool,
    utf8: bool,
}

fn gen_component(rng: &mut Rng) -> Vec<u8> {
    if rng.chance(1, 8) {
        return rng.pick(WHOLE).as_bytes().to_vec();
    }
    let n = rng.range(1, 5);
    let mut v = Vec::new();
    for _ in 0..n {
        if rng.chance(1, 40) {
            // raw byte that is not valid UTF-8 on its own
            v.push(*rng.pick(&[0x80u8, 0xff, 0xc3, 0xe4, 0xbf, 0xf0]));
        } else if rng.chance(1, 60) {
            v.push(0);
        } else {
            v.extend_from_slice(rng.pick(PIECES).as_bytes());
        }
    }
    v
}

fn classify(bytes: &[u8]) -> (bool, bool) {
    let utf8 = std::str::from_utf8(bytes).is_ok();
    let normalized = bytes.first() == Some(&b'/')
        && (bytes.len() == 1
            || bytes[1..].split(|b| *b == b'/').all(|c| !c.is_empty() && c != b"." && c != b".."));
    (normalized, utf8)
}

fn gen_path(rng: &mut Rng) -> GenPath {
    let n = rng.below(5);
    let mut bytes = Vec::new();
    let messy = rng.chance(1, 5);
    if messy && rng.chance(1, 6) {
        // relative
    } else {
        bytes.push(b'/');
    }
    for i in 0..n {
        if i > 0 {
            bytes.push(b'/');
            if messy && rng.chance(1, 4) {
                bytes.push(b'/');
            }
        }
        if messy && rng.chance(1, 4) {
            bytes.extend_from_slice((*rng.pick(&[".", "..", "."])).as_bytes());
        } else {
            bytes.extend(gen_component(rng));
        }
    }
    if messy && rng.chance(1, 3) {
        bytes.push(b'/');
    }
    let (normalized, utf8) = classify(&bytes);
    GenPath { bytes, normalized, utf8 }
}

/// An alternative spelling of the URI of `p` (a normalised, UTF-8 path). Returns (uri string,
/// in_class): in_class = only per-character choices "raw" (for characters > U+0020 other than
/// `# % / ? \`) or "%XX of each byte, any hex case" were used, so it is an alternative *encoding*.
fn alt_uri(rng: &mut Rng, p: &str, allow_out_of_class: bool) -> (String, bool) {
    let mut s = String::from("file://");
    let mut in_class = true;
    let wild = allow_out_of_class && rng.chance(1, 3);
    if wild && rng.chance(1, 6) {
        s = (*rng.pick(&["FILE://", "file://localhost", "file:", "file:/", "File://", " file://", "fi\tle://", "http://h"])).to_string();
        in_class = false;
    }
    if wild && rng.chance(1, 6) {
        s.push_str(*rng.pick(&["/", "//", "\\"]));
        in_class = false;
    }
    let pct = |rng: &mut Rng, s: &mut String, c: char| {
        let mut buf = [0u8; 4];
        for b in c.encode_utf8(&mut buf).bytes() {
            let t = format!("{:02x}", b);
            s.push('%');
            for d in t.chars() {
                if rng.chance(1, 2) { s.push(d.to_ascii_uppercase()) } else { s.push(d) }
            }
        }
    };
    for c in p.chars() {
        if c == '/' {
            if wild && rng.chance(1, 8) {
                s.push_str(*rng.pick(&["\\", "//", "/./", "/%2e/", "/%2E/", "/../", "/%2e%2E/", "/\t"]));
                in_class = false;
            } else {
                s.push('/');
            }
            continue;
        }
        let raw_ok = c > ' ' && !matches!(c, '#' | '%' | '/' | '?' | '\\');
        if wild && rng.chance(1, 10) {
            // raw even when that is not an encoding of the same byte
            s.push(c);
            if !raw_ok {
                in_class = false;
            }
        } else if raw_ok && rng.chance(1, 2) {
            s.push(c);
        } else {
            pct(rng, &mut s, c);
        }
    }
    if wild && rng.chance(1, 5) {
        s.push_str(*rng.pick(&["?q=1", "#frag", " ", "\n", "/", "/.", "/%2e", "?", "#", "%", "%4", " \t"]));
        in_class = false;
    }
    (s, in_class)
}

// ---------------------------------------------------------------------------------------------
// implementation side, canonical strings equal to the driver's
// ---------------------------------------------------------------------------------------------

fn impl_roundtrip(p: &[u8]) -> Result<String, String> {
    let p = p.to_vec();
    vh_common::catch(move || {
        let pb = path_of(&p);
        match file_path_to_uri(&pb) {
            None => "ok relative".to_string(),
            Some(u) => {
                let back = uri_to_file_path(&u);
                let us = u.as_str();
                // the model keeps the URI up to query/fragment; from_file_path never emits either
                format!(
                    "ok uri={} back={}",
                    hexb(us.as_bytes()),
                    back.map(|b| hexb(b.as_os_str().as_bytes())).unwrap_or("none".into())
                )
            }
        }
    })
}

fn impl_alt(s: &str) -> Result<String, String> {
    let s = s.to_string();
    vh_common::catch(move || match Uri::from_str(&s) {
        Err(_) => "err parse".to_string(),
        Ok(u) => {
            let back = uri_to_file_path(&u);
            format!(
                "ok path={} file={}",
                hexb(u.path().as_bytes()),
                back.map(|b| hexb(b.as_os_str().as_bytes())).unwrap_or("none".into())
            )
        }
    })
}

fn impl_fileids(us: &[String]) -> Result<String, String> {
    let us = us.to_vec();
    vh_common::catch(move || {
        let mut vfs = Vfs::new();
        let mut out = Vec::new();
        for s in &us {
            match Uri::from_str(s) {
                Err(_) => return "err parse".to_string(),
                Ok(u) => out.push(vfs.file_id(&u).id.to_string()),
            }
        }
        format!("ok {}", out.join(","))
    })
}

/// The property's own statement on the implementation for a normalised UTF-8 absolute path.
fn oracle_roundtrip(p: &[u8]) -> Option<String> {
    let pb = path_of(p);
    match vh_common::catch(move || file_path_to_uri(&pb).map(|u| (u.as_str().to_string(), uri_to_file_path(&u)))) {
        Err(m) => Some(format!("panic: {m}")),
        Ok(None) => Some("file_path_to_uri returned None for an absolute path".into()),
        Ok(Some((u, None))) => Some(format!("uri_to_file_path({u}) returned None")),
        Ok(Some((u, Some(q)))) => {
            if q.as_os_str().as_bytes() == p {
                None
            } else {
                Some(format!("path came back as {:?} through {u}", q))
            }
        }
    }
}

/// alternative encodings of one path (plus one different path) through one Vfs
fn oracle_vfs(canon: &str, alts: &[String], other: Option<&str>) -> Option<String> {
    let canon = canon.to_string();
    let alts = alts.to_vec();
    let other = other.map(|s| s.to_string());
    let r = vh_common::catch(move || {
        let mut vfs = Vfs::new();
        let cu = match file_path_to_uri(&PathBuf::from(&canon)) {
            Some(u) => u,
            None => return Some("no canonical uri".to_string()),
        };
        let id0 = vfs.file_id(&cu);
        if let Some(o) = &other {
            let ou = file_path_to_uri(&PathBuf::from(o)).unwrap();
            let ido = vfs.file_id(&ou);
            if ido == id0 {
                return Some(format!("different paths {canon:?} and {o:?} share file id {}", id0.id));
            }
        }
        for a in &alts {
            let u = match Uri::from_str(a) {
                Ok(u) => u,
                Err(e) => return Some(format!("alternative encoding {a:?} does not parse: {e}")),
            };
            if vfs.get_file_id(&u) != Some(id0) {
                return Some(format!("get_file_id({a:?}) = {:?}, expected {}", vfs.get_file_id(&u), id0.id));
            }
            let id = vfs.file_id(&u);
            if id != id0 {
                return Some(format!("file_id({a:?}) = {}, canonical {} has {}", id.id, cu.as_str(), id0.id));
            }
            if uri_to_file_path(&u) != Some(PathBuf::from(&canon)) {
                return Some(format!("uri_to_file_path({a:?}) = {:?}", uri_to_file_path(&u)));
            }
        }
        None
    });
    match r {
        Ok(x) => x,
        Err(m) => Some(format!("panic: {m}")),
    }
}

fn needs_encoding(p: &[u8]) -> bool {
    p.iter().any(|b| *b < 0x21 || *b >= 0x7f || b"\"#<>?`{}%\\".contains(b))
}

pub fn run(args: &Args, report: &mut Report) {
    report.rule = "distinct path byte strings / URI strings; non-trivial = contains a byte of the encode set, a non-ASCII byte, a dot segment or a non-canonical spelling".into();
    let mut rng = Rng::new(args.seed);
    let (n_paths, n_alt, n_vfs) = if args.thorough() { (400_000, 300_000, 60_000) } else { (12_000, 8_000, 2_000) };

    // ---- table self-check (the Lean bridge theorems check the same rows against the model) ----
    let t = tables();
    report.add("table_rows", 256 + 256 + 128);

    let mut paths: Vec<GenPath> = Vec::new();
    let mut alts: Vec<(String, bool, String)> = Vec::new(); // (uri, in_class, canonical path)
    let mut seqs: Vec<Vec<String>> = Vec::new();

    if let Some(f) = &args.replay {
        let v: Value = serde_json::from_str(&std::fs::read_to_string(f).expect("replay file")).expect("json");
        let inp = &v["input"];
        if let Some(h) = inp.get("path_hex").and_then(|x| x.as_str()) {
            let bytes = unhexb(h);
            let (normalized, utf8) = classify(&bytes);
            paths.push(GenPath { bytes, normalized, utf8 });
        }
        if let Some(us) = inp.get("uris").and_then(|x| x.as_array()) {
            let canon = inp.get("canonical").and_then(|x| x.as_str()).unwrap_or("").to_string();
            let in_class = inp.get("in_class").and_then(|x| x.as_bool()).unwrap_or(false);
            let list: Vec<String> = us.iter().filter_map(|x| x.as_str().map(|s| s.to_string())).collect();
            for u in &list {
                alts.push((u.clone(), in_class, canon.clone()));
            }
            seqs.push(list);
        }
    } else {
        // fixed corner cases first
        for p in ["/", "/a b", "/%", "/a%41", "/#?", "/é/中/😀", "/c|/x", "/c:x", "/a\\b", "/a\tb\nc", "/~", "/%2e", "/%2e%2e", "/...", "/a[b]^|`{}"] {
            let (normalized, utf8) = classify(p.as_bytes());
            paths.push(GenPath { bytes: p.as_bytes().to_vec(), normalized, utf8 });
        }
        for _ in 0..n_paths {
            paths.push(gen_path(&mut rng));
        }
        if args.thorough() {
            // all one- and two-byte components
            for a in 0..=255u8 {
                if a != b'/' {
                    let b1 = vec![b'/', a];
                    let (n, u) = classify(&b1);
                    paths.push(GenPath { bytes: b1, normalized: n, utf8: u });
                }
                for b in 0..=255u8 {
                    let b2 = vec![b'/', a, b];
                    let (n, u) = classify(&b2);
                    paths.push(GenPath { bytes: b2, normalized: n, utf8: u });
                }
            }
        }
        let good: Vec<String> = paths
            .iter()
            .filter(|p| p.normalized && p.utf8 && !p.bytes.contains(&0))
            .map(|p| String::from_utf8(p.bytes.clone()).unwrap())
            .collect();
        for _ in 0..n_alt {
            let p = rng.pick(&good).clone();
            let (u, c) = alt_uri(&mut rng, &p, true);
            alts.push((u, c, p));
        }
        for _ in 0..n_vfs {
            let k = rng.range(2, 6);
            let base: Vec<String> = (0..rng.range(1, 3)).map(|_| rng.pick(&good).clone()).collect();
            let mut seq = Vec::new();
            for _ in 0..k {
                let p = rng.pick(&base).clone();
                let wild = rng.chance(1, 4);
                seq.push(alt_uri(&mut rng, &p, wild).0);
            }
            seqs.push(seq);
        }
    }

    // ---- correspondence: roundtrip ----
    let mut seen: HashSet<Vec<u8>> = HashSet::new();
    let mut reqs = Vec::new();
    for p in &paths {
        reqs.push(format!("uri.roundtrip {}", hexb(&p.bytes)));
    }
    for (u, _, _) in &alts {
        reqs.push(format!("uri.alt {}", hexb(u.as_bytes())));
    }
    for s in &seqs {
        reqs.push(format!("uri.fileid {}", s.iter().map(|u| hexb(u.as_bytes())).collect::<Vec<_>>().join(" ")));
    }
    let answers = run_driver(&reqs);
    let mut k = 0;
    for p in &paths {
        let model = &answers[k];
        k += 1;
        report.evaluations += 1;
        if seen.insert(p.bytes.clone()) && (needs_encoding(&p.bytes) || !p.normalized) {
            report.distinct_nontrivial += 1;
        }
        report.count(match (p.normalized, p.utf8) {
            (true, true) => "path_normalized_utf8",
            (true, false) => "path_normalized_non_utf8",
            (false, _) => "path_not_normalized",
        });
        let imp = impl_roundtrip(&p.bytes).unwrap_or_else(|m| format!("panic {m}"));
        if model == "err unsupported" {
            report.count("roundtrip_model_unsupported(dotdot)");
        } else if *model != imp {
            report.mismatch(json!({"input": {"path_hex": hexb(&p.bytes), "path": String::from_utf8_lossy(&p.bytes)}, "op": "uri.roundtrip", "model": model, "impl": imp}));
        } else {
            report.traces_validated += 1;
            report.sample(json!({"path": String::from_utf8_lossy(&p.bytes), "model=impl": imp}));
        }
        if p.normalized && p.utf8 {
            if let Some(what) = oracle_roundtrip(&p.bytes) {
                report.oracle_failure(json!({"input": {"path_hex": hexb(&p.bytes), "path": String::from_utf8_lossy(&p.bytes)}, "what": what, "class": Value::Null}));
            }
        }
    }
    // ---- correspondence: alternative spellings ----
    let mut seen_u: HashSet<String> = HashSet::new();
    for (u, in_class, canon) in &alts {
        let model = &answers[k];
        k += 1;
        report.evaluations += 1;
        if seen_u.insert(u.clone()) {
            report.distinct_nontrivial += 1;
        }
        report.count(if *in_class { "alt_in_class" } else { "alt_out_of_class" });
        let imp = impl_alt(u).unwrap_or_else(|m| format!("panic {m}"));
        if model == "err unsupported" {
            report.count("alt_model_unsupported");
            if *in_class {
                report.mismatch(json!({"input": {"uris": [u], "canonical": canon, "in_class": true}, "op": "uri.alt", "model": model, "impl": imp, "note": "in-class alternative encoding outside the model's domain"}));
            }
        } else if *model != imp {
            report.mismatch(json!({"input": {"uris": [u], "canonical": canon, "in_class": in_class}, "op": "uri.alt", "model": model, "impl": imp}));
        } else {
            report.traces_validated += 1;
            if *in_class {
                report.sample(json!({"uri": u, "canonical": canon, "model=impl": imp}));
            }
        }
        if *in_class {
            if let Some(what) = oracle_vfs(canon, std::slice::from_ref(u), None) {
                report.oracle_failure(json!({"input": {"uris": [u], "canonical": canon, "in_class": true}, "what": what, "class": Value::Null}));
            }
        }
    }
    // ---- correspondence: Vfs ids ----
    for s in &seqs {
        let model = &answers[k];
        k += 1;
        report.evaluations += 1;
        let imp = impl_fileids(s).unwrap_or_else(|m| format!("panic {m}"));
        if model == "err unsupported" {
            report.count("fileid_model_unsupported");
        } else if *model != imp {
            report.mismatch(json!({"input": {"uris": s}, "op": "uri.fileid", "model": model, "impl": imp}));
        } else {
            report.traces_validated += 1;
        }
    }
    // ---- oracle: alternatives of one path + a different path through one Vfs ----
    if args.replay.is_none() {
        let good: Vec<&GenPath> = paths.iter().filter(|p| p.normalized && p.utf8 && !p.bytes.contains(&0)).collect();
        let n = if args.thorough() { 40_000 } else { 2_000 };
        for _ in 0..n {
            let p = String::from_utf8((*rng.pick(&good)).bytes.clone()).unwrap();
            let q = String::from_utf8((*rng.pick(&good)).bytes.clone()).unwrap();
            let other = if p != q { Some(q.as_str()) } else { None };
            let list: Vec<String> = (0..3).map(|_| alt_uri(&mut rng, &p, false).0).collect();
            report.evaluations += 1;
            if let Some(what) = oracle_vfs(&p, &list, other) {
                report.oracle_failure(json!({"input": {"uris": list, "canonical": p, "in_class": true, "other": other}, "what": what, "class": Value::Null}));
            }
        }
    }
    report.extra.insert("tables".into(), json!({"enc_rows": t["enc"].as_array().map(|a| a.len()), "hex_rows": t["hex"].as_array().map(|a| a.len()), "parse_rows": t["parse"].as_array().map(|a| a.len())}));
    report.notes.push("Model domain: file:/// URIs without double-dot segments; paths with `..` answer `unsupported` in the model and are only run through the implementation oracle when normalised (never, by definition).".into());
}
