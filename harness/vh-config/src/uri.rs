//! C34: `file_path_to_uri` / `uri_to_file_path` / `Vfs::file_id` vs the Lean `Uri` model, the T-exec
//! tables (encode set, hex digits, parser path-state per byte), and the property's own oracle on the
//! implementation.
use emmylua_code_analysis::{Vfs, file_path_to_uri, uri_to_file_path};
use lsp_types::Uri;
use serde_json::{Value, json};
use std::collections::HashSet;
use std::ffi::OsStr;
use std::os::unix::ffi::OsStrExt;
use std::path::PathBuf;
use std::str::FromStr;
use vh_common::{Args, Report, Rng, run_driver};

pub fn hexb(b: &[u8]) -> String {
    if b.is_empty() {
        return "-".into();
    }
    b.iter().map(|x| format!("{:02x}", x)).collect()
}

fn unhexb(s: &str) -> Vec<u8> {
    if s == "-" {
        return vec![];
    }
    (0..s.len() / 2).map(|i| u8::from_str_radix(&s[2 * i..2 * i + 2], 16).unwrap_or(0)).collect()
}

fn path_of(bytes: &[u8]) -> PathBuf {
    PathBuf::from(OsStr::from_bytes(bytes))
}

// ---------------------------------------------------------------------------------------------
// T-exec tables
// ---------------------------------------------------------------------------------------------

/// Tables obtained by executing the real functions over their whole finite domain.
pub fn tables() -> Value {
    // encode row: what `Url::from_file_path` emits for byte b inside a component
    let mut enc = Vec::new();
    for b in 0..=255u8 {
        let p = [b"/x".as_slice(), &[b], b"y"].concat();
        let row: Vec<u32> = match url::Url::from_file_path(path_of(&p)) {
            Ok(u) => {
                let s = u.as_str();
                match s.strip_prefix("file:///x").and_then(|r| r.strip_suffix('y')) {
                    Some(mid) => mid.bytes().map(|x| x as u32).collect(),
                    None => vec![998],
                }
            }
            Err(_) => vec![997],
        };
        enc.push(row);
    }
    // hex digit value as seen by percent_decode (both positions must agree)
    let mut hexv = Vec::new();
    for b in 0..=255u8 {
        let hi: Vec<u8> = percent_encoding::percent_decode(&[b'%', b, b'1']).collect();
        let lo: Vec<u8> = percent_encoding::percent_decode(&[b'%', b'1', b]).collect();
        let v = if hi.len() == 1 && lo.len() == 1 && (hi[0] - 1) % 16 == 0 && (hi[0] - 1) / 16 == lo[0] - 16 {
            Some((hi[0] / 16) as u32)
        } else if hi.len() == 3 && lo.len() == 3 {
            None
        } else {
            Some(999)
        };
        hexv.push(v);
    }
    // parser path state for one ASCII byte in the middle of a segment
    let mut parse = Vec::new();
    for b in 0..128u8 {
        let s = format!("file:///x{}y", b as char);
        let row: Vec<u32> = match url::Url::parse(&s) {
            Ok(u) => match u.path().strip_prefix("/x").and_then(|r| r.strip_suffix('y')) {
                Some(mid) => mid.bytes().map(|x| x as u32).collect(),
                None => vec![999],
            },
            Err(_) => vec![997],
        };
        parse.push(row);
    }
    json!({"enc": enc, "hex": hexv, "parse": parse})
}

// ---------------------------------------------------------------------------------------------
// generators
// ---------------------------------------------------------------------------------------------

const PIECES: &[&str] = &[
    "a", "b", "Z", "0", "x", "lua", "init", " ", " ", "%", "%", "#", "?", "é", "中", "😀", "ß", "\\", ":", "|", ".", "-",
    "_", "~", "\"", "<", ">", "{", "}", "`", "[", "]", "^", ";", "=", "@", "&", "+", "$", ",", "'", "!", "*", "(", ")",
    "\t", "\n", "\r", "\u{7f}", "\u{1}", "%41", "%2e", "%2E", "%zz", "2e", "c:", "c|", "C:", "%2F", "%25", "%2541", "%E6%96%B0", "50%20off", "%20", "%",
];
const WHOLE: &[&str] = &["50%20off.lua", "%41", "%2F", "%E6%96%B0", "%252e", ".", "..", "...", ".a", "a.", "%2e", "%2e%2e", "%2E.", "c:", "c|", "C:", "~", " ", "%", "a b", "#", "?"];

#[derive(Clone)]
struct GenPath {
    bytes: Vec<u8>,
    /// normalised absolute: starts with '/', no empty / `.` / `..` component, no trailing slash
    normalized: bool,
    utf8: bool,
}

fn gen_component(rng: &mut Rng) -> Vec<u8> {
    if rng.chance(1, 8) {
        return rng.pick(WHOLE).as_bytes().to_vec();
    }
    let n = rng.range(1, 5);
    let mut v = Vec::new();
    for _ in 0..n {
        if rng.chance(1, 40) {
            // raw byte that is not valid UTF-8 on its own
            v.push(*rng.pick(&[0x80u8, 0xff, 0xc3, 0xe4, 0xbf, 0xf0]));
        } else if rng.chance(1, 60) {
            v.push(0);
        } else {
            v.extend_from_slice(rng.pick(PIECES).as_bytes());
        }
    }
    v
}

fn classify(bytes: &[u8]) -> (bool, bool) {
    let utf8 = std::str::from_utf8(bytes).is_ok();
    let normalized = bytes.first() == Some(&b'/')
        && (bytes.len() == 1
            || bytes[1..].split(|b| *b == b'/').all(|c| !c.is_empty() && c != b"." && c != b".."));
    (normalized, utf8)
}

fn gen_path(rng: &mut Rng) -> GenPath {
    let n = rng.below(5);
    let mut bytes = Vec::new();
    let messy = rng.chance(1, 5);
    if messy && rng.chance(1, 6) {
        // relative
    } else {
        bytes.push(b'/');
    }
    for i in 0..n {
        if i > 0 {
            bytes.push(b'/');
            if messy && rng.chance(1, 4) {
                bytes.push(b'/');
            }
        }
        if messy && rng.chance(1, 4) {
            bytes.extend_from_slice((*rng.pick(&[".", "..", "."])).as_bytes());
        } else {
            bytes.extend(gen_component(rng));
        }
    }
    if messy && rng.chance(1, 3) {
        bytes.push(b'/');
    }
    let (normalized, utf8) = classify(&bytes);
    GenPath { bytes, normalized, utf8 }
}

/// An alternative spelling of the URI of `p` (a normalised, UTF-8 path). Returns (uri string,
/// in_class): in_class = only per-character choices "raw" (for characters > U+0020 other than
/// `# % / ? \`) or "%XX of each byte, any hex case" were used, so it is an alternative *encoding*.
fn alt_uri(rng: &mut Rng, p: &str, allow_out_of_class: bool) -> (String, bool) {
    let mut s = String::from("file://");
    let mut in_class = true;
    let wild = allow_out_of_class && rng.chance(1, 3);
    if wild && rng.chance(1, 6) {
        s = (*rng.pick(&["FILE://", "file://localhost", "file:", "file:/", "File://", " file://", "fi\tle://", "http://h"])).to_string();
        in_class = false;
    }
    if wild && rng.chance(1, 6) {
        s.push_str(*rng.pick(&["/", "//", "\\"]));
        in_class = false;
    }
    let pct = |rng: &mut Rng, s: &mut String, c: char| {
        let mut buf = [0u8; 4];
        for b in c.encode_utf8(&mut buf).bytes() {
            let t = format!("{:02x}", b);
            s.push('%');
            for d in t.chars() {
                if rng.chance(1, 2) { s.push(d.to_ascii_uppercase()) } else { s.push(d) }
            }
        }
    };
    for c in p.chars() {
        if c == '/' {
            if wild && rng.chance(1, 8) {
                s.push_str(*rng.pick(&["\\", "//", "/./", "/%2e/", "/%2E/", "/../", "/%2e%2E/", "/\t"]));
                in_class = false;
            } else {
                s.push('/');
            }
            continue;
        }
        let raw_ok = c > ' ' && !matches!(c, '#' | '%' | '/' | '?' | '\\');
        if wild && rng.chance(1, 10) {
            // raw even when that is not an encoding of the same byte
            s.push(c);
            if !raw_ok {
                in_class = false;
            }
        } else if raw_ok && rng.chance(1, 2) {
            s.push(c);
        } else {
            pct(rng, &mut s, c);
        }
    }
    if wild && rng.chance(1, 5) {
        s.push_str(*rng.pick(&["?q=1", "#frag", " ", "\n", "/", "/.", "/%2e", "?", "#", "%", "%4", " \t"]));
        in_class = false;
    }
    (s, in_class)
}

// ---------------------------------------------------------------------------------------------
// implementation side, canonical strings equal to the driver's
// ---------------------------------------------------------------------------------------------

fn impl_roundtrip(p: &[u8]) -> Result<String, String> {
    let p = p.to_vec();
    vh_common::catch(move || {
        let pb = path_of(&p);
        match file_path_to_uri(&pb) {
            None => "ok relative".to_string(),
            Some(u) => {
                let back = uri_to_file_path(&u);
                let us = u.as_str();
                // the model keeps the URI up to query/fragment; from_file_path never emits either
                format!(
                    "ok uri={} back={}",
                    hexb(us.as_bytes()),
                    back.map(|b| hexb(b.as_os_str().as_bytes())).unwrap_or("none".into())
                )
            }
        }
    })
}

fn impl_alt(s: &str) -> Result<String, String> {
    let s = s.to_string();
    vh_common::catch(move || match Uri::from_str(&s) {
        Err(_) => "err parse".to_string(),
        Ok(u) => {
            let back = uri_to_file_path(&u);
            format!(
                "ok path={} file={}",
                hexb(u.path().as_bytes()),
                back.map(|b| hexb(b.as_os_str().as_bytes())).unwrap_or("none".into())
            )
        }
    })
}

fn impl_fileids(us: &[String]) -> Result<String, String> {
    let us = us.to_vec();
    vh_common::catch(move || {
        let mut vfs = Vfs::new();
        let mut out = Vec::new();
        for s in &us {
            match Uri::from_str(s) {
                Err(_) => return "err parse".to_string(),
                Ok(u) => out.push(vfs.file_id(&u).id.to_string()),
            }
        }
        format!("ok {}", out.join(","))
    })
}

/// The property's own statement on the implementation for a normalised UTF-8 absolute path.
fn oracle_roundtrip(p: &[u8]) -> Option<String> {
    let pb = path_of(p);
    match vh_common::catch(move || file_path_to_uri(&pb).map(|u| (u.as_str().to_string(), uri_to_file_path(&u)))) {
        Err(m) => Some(format!("panic: {m}")),
        Ok(None) => Some("file_path_to_uri returned None for an absolute path".into()),
        Ok(Some((u, None))) => Some(format!("uri_to_file_path({u}) returned None")),
        Ok(Some((u, Some(q)))) => {
            if q.as_os_str().as_bytes() == p {
                None
            } else {
                Some(format!("path came back as {:?} through {u}", q))
            }
        }
    }
}

/// alternative encodings of one path (plus one different path) through one Vfs
fn oracle_vfs(canon: &str, alts: &[String], other: Option<&str>) -> Option<String> {
    let canon = canon.to_string();
    let alts = alts.to_vec();
    let other = other.map(|s| s.to_string());
    let r = vh_common::catch(move || {
        let mut vfs = Vfs::new();
        let cu = match file_path_to_uri(&PathBuf::from(&canon)) {
            Some(u) => u,
            None => return Some("no canonical uri".to_string()),
        };
        let id0 = vfs.file_id(&cu);
        if let Some(o) = &other {
            let ou = file_path_to_uri(&PathBuf::from(o)).unwrap();
            let ido = vfs.file_id(&ou);
            if ido == id0 {
                return Some(format!("different paths {canon:?} and {o:?} share file id {}", id0.id));
            }
        }
        for a in &alts {
            let u = match Uri::from_str(a) {
                Ok(u) => u,
                Err(e) => return Some(format!("alternative encoding {a:?} does not parse: {e}")),
            };
            if vfs.get_file_id(&u) != Some(id0) {
                return Some(format!("get_file_id({a:?}) = {:?}, expected {}", vfs.get_file_id(&u), id0.id));
            }
            let id = vfs.file_id(&u);
            if id != id0 {
                return Some(format!("file_id({a:?}) = {}, canonical {} has {}", id.id, cu.as_str(), id0.id));
            }
            if uri_to_file_path(&u) != Some(PathBuf::from(&canon)) {
                return Some(format!("uri_to_file_path({a:?}) = {:?}", uri_to_file_path(&u)));
            }
        }
        None
    });
    match r {
        Ok(x) => x,
        Err(m) => Some(format!("panic: {m}")),
    }
}

// ---------------------------------------------------------------------------------------------
// histories on one Vfs
// ---------------------------------------------------------------------------------------------

#[derive(Clone, Debug)]
enum HOp {
    FileId,
    GetFileId,
    Remove,
    Read,
    Set(Option<u32>),
    Clear,
    LocalIds,
}

#[derive(Clone, Debug)]
struct HStep {
    op: HOp,
    /// canonical (decoded) path addressed, empty for Clear / LocalIds
    path: String,
    /// the URI spelling used
    uri: String,
}

fn step_token(s: &HStep) -> String {
    let h = hexb(s.uri.as_bytes());
    match &s.op {
        HOp::FileId => format!("f:{h}"),
        HOp::GetFileId => format!("g:{h}"),
        HOp::Remove => format!("r:{h}"),
        HOp::Read => format!("d:{h}"),
        HOp::Set(Some(t)) => format!("s{t}:{h}"),
        HOp::Set(None) => format!("sn:{h}"),
        HOp::Clear => "c".into(),
        HOp::LocalIds => "l".into(),
    }
}

fn step_json(s: &HStep) -> Value {
    json!({"op": format!("{:?}", s.op), "path": s.path, "uri": s.uri})
}

fn step_from_json(v: &Value) -> Option<HStep> {
    let op = v.get("op")?.as_str()?;
    let op = match op {
        "FileId" => HOp::FileId,
        "GetFileId" => HOp::GetFileId,
        "Remove" => HOp::Remove,
        "Read" => HOp::Read,
        "Clear" => HOp::Clear,
        "LocalIds" => HOp::LocalIds,
        "Set(None)" => HOp::Set(None),
        o => HOp::Set(Some(o.trim_start_matches("Set(Some(").trim_end_matches("))").parse().ok()?)),
    };
    Some(HStep { op, path: v.get("path")?.as_str()?.to_string(), uri: v.get("uri")?.as_str()?.to_string() })
}

/// a spelling of `p` the model supports: an alternative encoding, sometimes with doubled slashes or
/// `/./` (the same `PathBuf`)
fn spelling(rng: &mut Rng, p: &str) -> String {
    let (mut u, _) = alt_uri(rng, p, false);
    if p.len() > 1 && rng.chance(1, 8) {
        u = u.replacen("file:///", *rng.pick(&["file:////", "file:///./"]), 1);
    }
    u
}

fn gen_history(rng: &mut Rng, good: &[String]) -> Vec<HStep> {
    let base: Vec<String> = (0..rng.range(1, 3)).map(|_| rng.pick(good).clone()).collect();
    let n = rng.range(3, 12);
    let mut out = Vec::new();
    for _ in 0..n {
        let p = rng.pick(&base).clone();
        let op = match rng.below(16) {
            0..=3 => HOp::FileId,
            4..=6 => HOp::Set(Some(rng.below(5) as u32 + 1)),
            7 => HOp::Set(None),
            8..=9 => HOp::GetFileId,
            10..=12 => HOp::Remove,
            13 => HOp::Read,
            14 => HOp::LocalIds,
            _ => HOp::Clear,
        };
        let (path, uri) = match op {
            HOp::Clear | HOp::LocalIds => (String::new(), String::new()),
            _ => {
                let u = spelling(rng, &p);
                (p, u)
            }
        };
        out.push(HStep { op, path, uri });
    }
    // always end by looking at every base path through two spellings and at the local ids
    for p in &base {
        for _ in 0..2 {
            out.push(HStep { op: HOp::GetFileId, path: p.clone(), uri: spelling(rng, p) });
        }
        out.push(HStep { op: HOp::Read, path: p.clone(), uri: spelling(rng, p) });
    }
    out.push(HStep { op: HOp::LocalIds, path: String::new(), uri: String::new() });
    out
}

fn new_vfs() -> Vfs {
    let mut vfs = Vfs::new();
    vfs.update_config(std::sync::Arc::new(emmylua_code_analysis::Emmyrc::default()));
    vfs
}

/// Runs the history on the real `Vfs`. Returns the canonical output (same format as `uri.history`)
/// and the first violation of the property's statement, evaluated on the implementation alone:
/// the id is a function of the decoded path; after `remove_file` the path is unknown under every
/// spelling; after re-creation every spelling gives the same new id; contents follow the path;
/// `get_all_local_file_ids` are exactly the ids of known paths that hold content (no orphans).
fn impl_history(h: &[HStep]) -> Result<(String, Option<String>), String> {
    let h = h.to_vec();
    vh_common::catch(move || {
        let mut vfs = new_vfs();
        // self-test of this oracle (VH_SELFTEST_URI_CACHE=1): emulate a per-spelling id cache in front
        // of `file_id` that `remove_file` only evicts for the spelling it was given
        let selftest = std::env::var("VH_SELFTEST_URI_CACHE").is_ok();
        let mut cache: std::collections::HashMap<String, u32> = Default::default();
        let mut outs: Vec<String> = Vec::new();
        let mut known: std::collections::BTreeMap<String, u32> = Default::default(); // decoded path -> id
        let mut content: std::collections::BTreeMap<String, u32> = Default::default(); // decoded path -> tag
        let mut bad: Option<String> = None;
        let flag = |bad: &mut Option<String>, i: usize, m: String| {
            if bad.is_none() {
                *bad = Some(format!("step {i}: {m}"));
            }
        };
        let opt = |o: Option<u32>| o.map(|x| x.to_string()).unwrap_or("none".into());
        for (i, s) in h.iter().enumerate() {
            let uri = if s.uri.is_empty() { None } else { Uri::from_str(&s.uri).ok() };
            match (&s.op, &uri) {
                (HOp::Clear, _) => {
                    vfs.clear();
                    cache.clear();
                    vfs.update_config(std::sync::Arc::new(emmylua_code_analysis::Emmyrc::default()));
                    known.clear();
                    content.clear();
                    outs.push("-".into());
                }
                (HOp::LocalIds, _) => {
                    let ids: Vec<u32> = vfs.get_all_local_file_ids().iter().map(|f| f.id).collect();
                    outs.push(format!("[{}]", ids.iter().map(|x| x.to_string()).collect::<Vec<_>>().join(";")));
                }
                (_, None) => return ("err parse".to_string(), None),
                (HOp::FileId, Some(u)) | (HOp::Set(_), Some(u)) => {
                    let id = match &s.op {
                        HOp::Set(t) => vfs.set_file_content(u, t.map(|t| format!("-- {t}"))).id,
                        _ if selftest && cache.contains_key(u.as_str()) => cache[u.as_str()],
                        _ => vfs.file_id(u).id,
                    };
                    cache.insert(u.as_str().to_string(), id);
                    outs.push(id.to_string());
                    match known.get(&s.path) {
                        Some(k) if *k != id => flag(&mut bad, i, format!("{:?} on {:?} gave id {id}, the path already has id {k}", s.op, s.uri)),
                        Some(_) => {}
                        None => {
                            if known.values().any(|k| *k == id) {
                                flag(&mut bad, i, format!("{:?} on {:?} gave id {id}, which belongs to another path", s.op, s.uri));
                            }
                            known.insert(s.path.clone(), id);
                        }
                    }
                    if let HOp::Set(t) = &s.op {
                        match t {
                            Some(t) => content.insert(s.path.clone(), *t),
                            None => content.remove(&s.path),
                        };
                    }
                }
                (HOp::GetFileId, Some(u)) => {
                    let got = vfs.get_file_id(u).map(|f| f.id);
                    outs.push(opt(got));
                    if got != known.get(&s.path).copied() {
                        flag(&mut bad, i, format!("get_file_id({:?}) = {:?}, the path's id is {:?}", s.uri, got, known.get(&s.path)));
                    }
                }
                (HOp::Remove, Some(u)) => {
                    let got = vfs.remove_file(u).map(|f| f.id);
                    cache.remove(u.as_str());
                    outs.push(opt(got));
                    if got != known.get(&s.path).copied() {
                        flag(&mut bad, i, format!("remove_file({:?}) = {:?}, the path's id is {:?}", s.uri, got, known.get(&s.path)));
                    }
                    known.remove(&s.path);
                    content.remove(&s.path);
                }
                (HOp::Read, Some(u)) => {
                    let got = vfs.get_file_id(u).and_then(|f| vfs.get_file_content(&f).cloned());
                    let tag = got.as_ref().and_then(|c| c.trim_start_matches("-- ").parse::<u32>().ok());
                    outs.push(format!("c{}", opt(tag)));
                    if tag != content.get(&s.path).copied() {
                        flag(&mut bad, i, format!("content read through {:?} is {:?}, the path holds {:?}", s.uri, tag, content.get(&s.path)));
                    }
                }
            }
            // after every step: every known path answers the same id under fresh spellings of both
            // kinds, and the local ids are exactly the known ids that hold content
            for (p, k) in &known {
                for u in [format!("file://{}", pct_all(p)), file_path_to_uri(&PathBuf::from(p)).map(|u| u.as_str().to_string()).unwrap_or_default()] {
                    if let Ok(u2) = Uri::from_str(&u) {
                        let g = vfs.get_file_id(&u2).map(|f| f.id);
                        if g != Some(*k) {
                            flag(&mut bad, i, format!("after {:?}: get_file_id({u:?}) = {g:?} but the path has id {k}", s.op));
                        }
                    }
                }
            }
            let mut local: Vec<u32> = vfs.get_all_local_file_ids().iter().map(|f| f.id).collect();
            local.sort();
            let mut expect: Vec<u32> = content.keys().filter_map(|p| known.get(p).copied()).collect();
            expect.sort();
            if local != expect {
                flag(&mut bad, i, format!("after {:?}: local file ids {local:?}, paths with content have ids {expect:?} (orphan or lost slot)", s.op));
            }
        }
        (format!("ok {}", outs.join(",")), bad)
    })
}

/// every byte of the path percent-encoded (except `/`)
fn pct_all(p: &str) -> String {
    p.bytes().map(|b| if b == b'/' { "/".to_string() } else { format!("%{:02x}", b) }).collect()
}

fn needs_encoding(p: &[u8]) -> bool {
    p.iter().any(|b| *b < 0x21 || *b >= 0x7f || b"\"#<>?`{}%\\".contains(b))
}

pub fn run(args: &Args, report: &mut Report) {
    report.rule = "distinct path byte strings / URI strings; non-trivial = contains a byte of the encode set, a non-ASCII byte, a dot segment or a non-canonical spelling".into();
    let mut rng = Rng::new(args.seed);
    let (n_paths, n_alt, n_vfs) = if args.thorough() { (400_000, 300_000, 60_000) } else { (12_000, 8_000, 2_000) };
    let n_hist = if args.thorough() { 60_000 } else { 3_000 };

    // ---- table self-check (the Lean bridge theorems check the same rows against the model) ----
    let t = tables();
    report.add("table_rows", 256 + 256 + 128);

    let mut paths: Vec<GenPath> = Vec::new();
    let mut alts: Vec<(String, bool, String)> = Vec::new(); // (uri, in_class, canonical path)
    let mut seqs: Vec<Vec<String>> = Vec::new();
    let mut histories: Vec<Vec<HStep>> = Vec::new();

    if let Some(f) = &args.replay {
        let v: Value = serde_json::from_str(&std::fs::read_to_string(f).expect("replay file")).expect("json");
        let inp = &v["input"];
        if let Some(h) = inp.get("path_hex").and_then(|x| x.as_str()) {
            let bytes = unhexb(h);
            let (normalized, utf8) = classify(&bytes);
            paths.push(GenPath { bytes, normalized, utf8 });
        }
        if let Some(us) = inp.get("uris").and_then(|x| x.as_array()) {
            let canon = inp.get("canonical").and_then(|x| x.as_str()).unwrap_or("").to_string();
            let in_class = inp.get("in_class").and_then(|x| x.as_bool()).unwrap_or(false);
            let list: Vec<String> = us.iter().filter_map(|x| x.as_str().map(|s| s.to_string())).collect();
            for u in &list {
                alts.push((u.clone(), in_class, canon.clone()));
            }
            seqs.push(list);
        }
        if let Some(h) = inp.get("history").and_then(|x| x.as_array()) {
            histories.push(h.iter().filter_map(step_from_json).collect());
        }
    } else {
        // fixed corner cases first
        for p in ["/", "/a b", "/%", "/a%41", "/#?", "/é/中/😀", "/c|/x", "/c:x", "/a\\b", "/a\tb\nc", "/~", "/%2e", "/%2e%2e", "/...", "/a[b]^|`{}"] {
            let (normalized, utf8) = classify(p.as_bytes());
            paths.push(GenPath { bytes: p.as_bytes().to_vec(), normalized, utf8 });
        }
        for _ in 0..n_paths {
            paths.push(gen_path(&mut rng));
        }
        if args.thorough() {
            // all one- and two-byte components
            for a in 0..=255u8 {
                if a != b'/' {
                    let b1 = vec![b'/', a];
                    let (n, u) = classify(&b1);
                    paths.push(GenPath { bytes: b1, normalized: n, utf8: u });
                }
                for b in 0..=255u8 {
                    let b2 = vec![b'/', a, b];
                    let (n, u) = classify(&b2);
                    paths.push(GenPath { bytes: b2, normalized: n, utf8: u });
                }
            }
        }
        let good: Vec<String> = paths
            .iter()
            .filter(|p| p.normalized && p.utf8 && !p.bytes.contains(&0))
            .map(|p| String::from_utf8(p.bytes.clone()).unwrap())
            .collect();
        for _ in 0..n_alt {
            let p = rng.pick(&good).clone();
            let (u, c) = alt_uri(&mut rng, &p, true);
            alts.push((u, c, p));
        }
        // the history that needs remove + re-add through two spellings, then random ones
        histories.push(vec![
            HStep { op: HOp::Set(Some(1)), path: "/a b.lua".into(), uri: "file:///a%20b.lua".into() },
            HStep { op: HOp::GetFileId, path: "/a b.lua".into(), uri: "file:///%61%20b.lua".into() },
            HStep { op: HOp::Remove, path: "/a b.lua".into(), uri: "file:///a%20b.lua".into() },
            HStep { op: HOp::GetFileId, path: "/a b.lua".into(), uri: "file:///%61%20b.lua".into() },
            HStep { op: HOp::Set(Some(2)), path: "/a b.lua".into(), uri: "file:///a%20b.lua".into() },
            HStep { op: HOp::Set(Some(3)), path: "/a b.lua".into(), uri: "file:///%61%20b.lua".into() },
            HStep { op: HOp::Read, path: "/a b.lua".into(), uri: "file:///a%20b.lua".into() },
            HStep { op: HOp::LocalIds, path: String::new(), uri: String::new() },
        ]);
        for _ in 0..n_hist {
            histories.push(gen_history(&mut rng, &good));
        }
        for _ in 0..n_vfs {
            let k = rng.range(2, 6);
            let base: Vec<String> = (0..rng.range(1, 3)).map(|_| rng.pick(&good).clone()).collect();
            let mut seq = Vec::new();
            for _ in 0..k {
                let p = rng.pick(&base).clone();
                let wild = rng.chance(1, 4);
                seq.push(alt_uri(&mut rng, &p, wild).0);
            }
            seqs.push(seq);
        }
    }

    // ---- correspondence: roundtrip ----
    let mut seen: HashSet<Vec<u8>> = HashSet::new();
    let mut reqs = Vec::new();
    for p in &paths {
        reqs.push(format!("uri.roundtrip {}", hexb(&p.bytes)));
    }
    for (u, _, _) in &alts {
        reqs.push(format!("uri.alt {}", hexb(u.as_bytes())));
    }
    for s in &seqs {
        reqs.push(format!("uri.fileid {}", s.iter().map(|u| hexb(u.as_bytes())).collect::<Vec<_>>().join(" ")));
    }
    for h in &histories {
        reqs.push(format!("uri.history {}", h.iter().map(step_token).collect::<Vec<_>>().join(" ")));
    }
    let answers = run_driver(&reqs);
    let mut k = 0;
    for p in &paths {
        let model = &answers[k];
        k += 1;
        report.evaluations += 1;
        if seen.insert(p.bytes.clone()) && (needs_encoding(&p.bytes) || !p.normalized) {
            report.distinct_nontrivial += 1;
        }
        report.count(match (p.normalized, p.utf8) {
            (true, true) => "path_normalized_utf8",
            (true, false) => "path_normalized_non_utf8",
            (false, _) => "path_not_normalized",
        });
        let imp = impl_roundtrip(&p.bytes).unwrap_or_else(|m| format!("panic {m}"));
        if model == "err unsupported" {
            report.count("roundtrip_model_unsupported(dotdot)");
        } else if *model != imp {
            report.mismatch(json!({"input": {"path_hex": hexb(&p.bytes), "path": String::from_utf8_lossy(&p.bytes)}, "op": "uri.roundtrip", "model": model, "impl": imp}));
        } else {
            report.traces_validated += 1;
            report.sample(json!({"path": String::from_utf8_lossy(&p.bytes), "model=impl": imp}));
        }
        if p.normalized && p.utf8 {
            if let Some(what) = oracle_roundtrip(&p.bytes) {
                report.oracle_failure(json!({"input": {"path_hex": hexb(&p.bytes), "path": String::from_utf8_lossy(&p.bytes)}, "what": what, "class": Value::Null}));
            }
        }
    }
    // ---- correspondence: alternative spellings ----
    let mut seen_u: HashSet<String> = HashSet::new();
    for (u, in_class, canon) in &alts {
        let model = &answers[k];
        k += 1;
        report.evaluations += 1;
        if seen_u.insert(u.clone()) {
            report.distinct_nontrivial += 1;
        }
        report.count(if *in_class { "alt_in_class" } else { "alt_out_of_class" });
        let imp = impl_alt(u).unwrap_or_else(|m| format!("panic {m}"));
        if model == "err unsupported" {
            report.count("alt_model_unsupported");
            if *in_class {
                report.mismatch(json!({"input": {"uris": [u], "canonical": canon, "in_class": true}, "op": "uri.alt", "model": model, "impl": imp, "note": "in-class alternative encoding outside the model's domain"}));
            }
        } else if *model != imp {
            report.mismatch(json!({"input": {"uris": [u], "canonical": canon, "in_class": in_class}, "op": "uri.alt", "model": model, "impl": imp}));
        } else {
            report.traces_validated += 1;
            if *in_class {
                report.sample(json!({"uri": u, "canonical": canon, "model=impl": imp}));
            }
        }
        if *in_class {
            if let Some(what) = oracle_vfs(canon, std::slice::from_ref(u), None) {
                report.oracle_failure(json!({"input": {"uris": [u], "canonical": canon, "in_class": true}, "what": what, "class": Value::Null}));
            }
        }
    }
    // ---- correspondence: Vfs ids ----
    for s in &seqs {
        let model = &answers[k];
        k += 1;
        report.evaluations += 1;
        let imp = impl_fileids(s).unwrap_or_else(|m| format!("panic {m}"));
        if model == "err unsupported" {
            report.count("fileid_model_unsupported");
        } else if *model != imp {
            report.mismatch(json!({"input": {"uris": s}, "op": "uri.fileid", "model": model, "impl": imp}));
        } else {
            report.traces_validated += 1;
        }
    }
    // ---- histories on one Vfs: tie + the property's statement on the implementation ----
    for h in &histories {
        let model = &answers[k];
        k += 1;
        report.evaluations += 1;
        report.count("vfs_history");
        report.add("vfs_history_steps", h.len() as u64);
        let hist_json: Vec<Value> = h.iter().map(step_json).collect();
        match impl_history(h) {
            Err(m) => report.oracle_failure(json!({"input": {"history": hist_json}, "what": format!("Vfs history panicked: {m}"), "class": Value::Null})),
            Ok((imp, bad)) => {
                if let Some(what) = bad {
                    report.oracle_failure(json!({"input": {"history": hist_json}, "what": what, "class": Value::Null}));
                }
                if model == "err unsupported" {
                    report.count("history_model_unsupported");
                } else if *model != imp {
                    report.mismatch(json!({"input": {"history": hist_json}, "op": "uri.history", "model": model, "impl": imp}));
                } else {
                    report.traces_validated += 1;
                    if h.iter().any(|s| matches!(s.op, HOp::Remove)) {
                        report.count("vfs_history_with_remove");
                    }
                }
            }
        }
    }
    // ---- oracle: alternatives of one path + a different path through one Vfs ----
    if args.replay.is_none() {
        let good: Vec<&GenPath> = paths.iter().filter(|p| p.normalized && p.utf8 && !p.bytes.contains(&0)).collect();
        let n = if args.thorough() { 40_000 } else { 2_000 };
        for _ in 0..n {
            let p = String::from_utf8((*rng.pick(&good)).bytes.clone()).unwrap();
            let q = String::from_utf8((*rng.pick(&good)).bytes.clone()).unwrap();
            let other = if p != q { Some(q.as_str()) } else { None };
            let list: Vec<String> = (0..3).map(|_| alt_uri(&mut rng, &p, false).0).collect();
            report.evaluations += 1;
            if let Some(what) = oracle_vfs(&p, &list, other) {
                report.oracle_failure(json!({"input": {"uris": list, "canonical": p, "in_class": true, "other": other}, "what": what, "class": Value::Null}));
            }
        }
    }
    report.extra.insert("tables".into(), json!({"enc_rows": t["enc"].as_array().map(|a| a.len()), "hex_rows": t["hex"].as_array().map(|a| a.len()), "parse_rows": t["parse"].as_array().map(|a| a.len())}));
    report.notes.push("Model domain: file:/// URIs without double-dot segments; paths with `..` answer `unsupported` in the model and are only run through the implementation oracle when normalised (never, by definition).".into());
}
