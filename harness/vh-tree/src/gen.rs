//! Seeded text generators for the parser cluster: token soup, doc-comment soup, special characters.
use vh_common::Rng;

pub const LUA_VOCAB: &[&str] = &[
    "local", "function", "end", "if", "then", "else", "elseif", "for", "in", "do", "while", "repeat", "until",
    "return", "break", "goto", "continue", "global", "and", "or", "not", "nil", "true", "false",
    "a", "b", "x", "_G", "self", "const", "close",
    "1", "0x1F", "1.5e3", "0b11", "1_000", "3i", "10ULL", ".5", "1..2",
    "'s'", "\"str\"", "'un", "\"a\\z  b\"", "[[l]]", "[==[x]==]", "[=[open", "`tpl`",
    "+", "-", "*", "/", "//", "%", "^", "#", "&", "~", "|", "<<", ">>", "==", "~=", "<=", ">=", "<", ">", "=",
    "(", ")", "{", "}", "[", "]", "::", ";", ":", ",", ".", "..", "...", "+=", "-=", "?", "?.", "??", "!", "!=", "&&", "||", "->", "@", "$",
    " ", "  ", "\t", "\n", "\n", "\n", "\r\n", "\r", "\n\n",
    "--c", "-- comment", "--[[ long ]]", "--[==[ l\n2 ]==]", "--[[ open", "--region r", "--endregion", "--region", "/* c */", "// c",
    "---@class A", "---@field x number", "---@param a string", "---@return number", "---@type A", "--- desc", "---|", "---| 'a'",
    "---@alias Al A|B", "---@generic T", "---@overload fun(a:number):string", "---@cast x string", "---@diagnostic disable-next-line: undefined-global",
    "<const>", "<close>", "#!shebang",
];

pub const DOC_VOCAB: &[&str] = &[
    "---", "--", "---@", "@", "class", "field", "param", "return", "type", "alias", "generic", "overload", "cast", "enum", "see",
    "diagnostic", "module", "as", "operator", "version", "namespace", "using", "meta", "async", "nodiscard", "deprecated", "private",
    "public", "protected", "package", "source", "mapping", "readonly", "export", "language", "attribute", "return_cast", "return_overload",
    "A", "B", "T", "number", "string", "table", "fun", "boolean", "nil", "any", "self", "x", "y", "...",
    "<", ">", "(", ")", "[", "]", "{", "}", "|", "&", ",", ":", ".", "?", "=", "+", "-", "#", "`", "'a'", "\"b\"", "1", "-1",
    "=>", "extends", "keyof", "in", "and", "or", "new", "true", "false", "[[", "]]", "--[[", "--[==[", "]==]",
    " ", " ", " ", "  ", "\t", "\n", "\n", "\n---", "\n---@", "\n---|", "\n--", "\r\n---@", "\n\n", "disable-next-line", "undefined-global",
    "lua 5.1", ">= 5.3", "JIT", "@*", "*", "!", "%", "region", "endregion", "--region r\n", "--endregion\n", "local x\n", "function f() end\n", "return\n",
];

pub const SPECIAL: &[&str] = &["\0", "\u{feff}", "\r", "\r\n", "\n\r", "é", "中", "😀", "\u{2028}", "\u{0085}", "\u{1}", "\u{7f}", "ﬁ", "\u{200b}"];

pub fn soup(rng: &mut Rng, vocab: &[&str], max_pieces: usize, special_per_100: usize) -> String {
    let n = rng.below(max_pieces + 1);
    let mut s = String::new();
    for _ in 0..n {
        if special_per_100 > 0 && rng.below(100) < special_per_100 {
            s.push_str(*rng.pick(SPECIAL));
        } else {
            s.push_str(*rng.pick(vocab));
        }
        // frequently separate tokens so keywords stay keywords
        match rng.below(5) {
            0 | 1 => s.push(' '),
            2 => s.push('\n'),
            _ => {}
        }
    }
    s
}

/// lossy decoding of random bytes
pub fn random_bytes(rng: &mut Rng, max_len: usize) -> String {
    let n = rng.below(max_len + 1);
    let mut v = Vec::with_capacity(n);
    for _ in 0..n {
        let b = match rng.below(6) {
            0 => rng.below(256) as u8,
            1 => b"\0\r\n\t -[]='\"\\"[rng.below(12)],
            _ => (32 + rng.below(95)) as u8,
        };
        v.push(b);
    }
    String::from_utf8_lossy(&v).to_string()
}

/// one text of the mixed stream used by C01/C02/C04
pub fn text(rng: &mut Rng, max_pieces: usize) -> (String, &'static str) {
    match rng.below(10) {
        0..=3 => (soup(rng, LUA_VOCAB, max_pieces, 0), "lua-soup"),
        4 | 5 => (soup(rng, DOC_VOCAB, max_pieces, 0), "doc-soup"),
        6 => (soup(rng, LUA_VOCAB, max_pieces, 8), "lua-soup+special"),
        7 => (soup(rng, DOC_VOCAB, max_pieces, 8), "doc-soup+special"),
        8 => (random_bytes(rng, max_pieces * 3), "random-bytes"),
        _ => {
            let mut s = soup(rng, LUA_VOCAB, max_pieces / 2, 2);
            s.push_str(&soup(rng, DOC_VOCAB, max_pieces / 2, 2));
            s.push_str(&soup(rng, LUA_VOCAB, max_pieces / 2, 0));
            (s, "mixed")
        }
    }
}
