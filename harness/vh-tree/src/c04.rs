//! C04: parse results do not depend on earlier parses.
//! Oracle (implementation only): histories of texts (near-duplicates, shared subtrees, changing
//! language levels, files replaced in place) through one real `Vfs`; every tree and error list must
//! equal the fresh standalone parse of the same text with the same configuration.
//! Tie (correspondence): the identity structure of the green trees coming out of the shared
//! `NodeCache` (which elements are the same allocation, within and across trees) vs the Lean
//! `Green.Cache` model of rowan's interner; and the model's denotations echo the trees.
use crate::c01::{LEVELS, level_name, sexpr};
use crate::tgen;
use emmylua_code_analysis::{Emmyrc, EmmyrcLuaVersion, Vfs, VirtualUrlGenerator};
use emmylua_parser::{LuaLanguageLevel, LuaParser, LuaSyntaxNode, LuaSyntaxTree};
use rowan::{NodeCache, NodeOrToken};
use serde_json::{Value, json};
use std::collections::{HashMap, HashSet};
use std::sync::Arc;
use vh_common::{Args, Report, Rng, hex, run_driver, unhex};

fn version_of(l: LuaLanguageLevel) -> EmmyrcLuaVersion {
    match l {
        LuaLanguageLevel::Lua51 => EmmyrcLuaVersion::Lua51,
        LuaLanguageLevel::LuaJIT => EmmyrcLuaVersion::LuaJIT,
        LuaLanguageLevel::LuaJIT2 => EmmyrcLuaVersion::LuaJIT2,
        LuaLanguageLevel::LuaJIT3 => EmmyrcLuaVersion::LuaJIT3,
        LuaLanguageLevel::Lua52 => EmmyrcLuaVersion::Lua52,
        LuaLanguageLevel::Lua53 => EmmyrcLuaVersion::Lua53,
        LuaLanguageLevel::Lua54 => EmmyrcLuaVersion::Lua54,
        LuaLanguageLevel::Lua55 => EmmyrcLuaVersion::Lua55,
    }
}

fn emmyrc_for(l: LuaLanguageLevel) -> Arc<Emmyrc> {
    let mut e = Emmyrc::default();
    e.runtime.version = version_of(l);
    Arc::new(e)
}

const SNIPPETS: &[&str] = &[
    "local a = 1\n", "local a = 1\nlocal a = 1\n", "local b = 1\n", "print(a)\n", "print(a, a)\n", "f(x)\nf(x)\nf(x)\n",
    "---@class A\n---@field x number\nlocal A = {}\n", "---@class A\nlocal A = {}\n", "return { a = 1, b = 2 }\n",
    "return { a = 1, a = 1 }\n", "if a then print(a) end\n", "if a then print(a) else print(a) end\n", "x = x + 1\n",
    "x = x + 1 + 1\n", "function f(a, b) return a end\n", "function f(a) return a end\n", "-- c\n", "-- c\n-- c\n",
    "goto done\n::done::\n", "local t <const> = 1\n", "a = b // c\n", "a = 1 +\n", "local = = =\n", "for i = 1, 2 do end\n",
    "", " ", "\n", "x", "x x x x", "x x x", "(((", "\0", "\u{feff}x = 1",
];

#[derive(Clone)]
pub struct Step {
    pub text: String,
    pub level: LuaLanguageLevel,
    pub file: usize, // which uri
}

fn gen_history(rng: &mut Rng, max_len: usize, allow_replace: bool, pool: &[String]) -> Vec<Step> {
    let n = rng.range(1, max_len);
    let mut h: Vec<Step> = Vec::new();
    let base_level = LEVELS[rng.below(8)];
    for i in 0..n {
        let text = match rng.below(10) {
            0..=2 => {
                // concatenation of snippets (lots of shared subtrees)
                let k = rng.range(1, 5);
                (0..k).map(|_| *rng.pick(SNIPPETS)).collect::<String>()
            }
            3 | 4 if !h.is_empty() => {
                // near-duplicate of an earlier text
                let mut t = h[rng.below(h.len())].text.clone();
                match rng.below(4) {
                    0 => t.push_str(*rng.pick(SNIPPETS)),
                    1 => t = format!("{}{}", rng.pick(SNIPPETS), t),
                    2 => t = format!("{t}{t}"),
                    _ => {}
                }
                t
            }
            5 | 6 => tgen::soup(rng, tgen::LUA_VOCAB, 10, 0),
            7 => tgen::soup(rng, tgen::DOC_VOCAB, 10, 0),
            8 => if rng.chance(1, 2) { tgen::text(rng, 10).0 } else { pool[rng.below(pool.len())].clone() },
            _ => (*rng.pick(SNIPPETS)).to_string(),
        };
        let level = if rng.chance(1, 5) { LEVELS[rng.below(8)] } else { base_level };
        let file = if allow_replace && i > 0 && rng.chance(1, 3) { rng.below(i) } else { i };
        h.push(Step { text, level, file });
    }
    h
}

fn tree_sexpr(t: &LuaSyntaxTree) -> String {
    let mut s = String::new();
    sexpr(&t.get_red_root(), &mut s);
    s
}

fn errors_of(t: &LuaSyntaxTree) -> Vec<String> {
    t.get_errors().iter().map(|e| format!("{:?}", e)).collect()
}

fn identities(root: &LuaSyntaxNode, out: &mut Vec<usize>) {
    for ev in root.preorder_with_tokens() {
        if let rowan::WalkEvent::Enter(el) = ev {
            match el {
                NodeOrToken::Node(n) => {
                    let g = n.green();
                    out.push(&*g as *const rowan::GreenNodeData as *const () as usize);
                }
                NodeOrToken::Token(t) => {
                    out.push(t.green() as *const rowan::GreenTokenData as *const () as usize);
                }
            }
        }
    }
}

pub struct Outcome {
    pub failure: Option<String>,
    pub ids: Option<String>,    // identity structure (only for histories without replacement)
    pub sexprs: Vec<String>,
}

/// run one history through a real Vfs; compare every result with fresh parses
pub fn run_history(h: &[Step]) -> Outcome {
    let mut vfs = Vfs::new();
    let urls = VirtualUrlGenerator::new();
    let mut failure = None;
    let mut fids = Vec::new();
    let mut sexprs = Vec::new();
    let distinct_files = h.iter().enumerate().all(|(i, s)| s.file == i);
    for (i, st) in h.iter().enumerate() {
        let rc = emmyrc_for(st.level);
        // `Vfs::update_config` parses the loaded files again under the new configuration (f07a23f), so it
        // is only called when the level changes
        if i == 0 || h[i - 1].level != st.level {
            vfs.update_config(rc.clone());
        }
        let uri = urls.new_uri(&format!("verif_c04_{}.lua", st.file));
        let fid = vfs.set_file_content(&uri, Some(st.text.clone()));
        fids.push(fid);
        let cached = match vfs.get_syntax_tree(&fid) {
            Some(t) => t.clone(),
            None => {
                failure.get_or_insert(format!("step {i}: no syntax tree stored"));
                continue;
            }
        };
        let mut fresh_cache = NodeCache::default();
        let fresh = LuaParser::parse(&st.text, rc.get_parse_config(&mut fresh_cache));
        let nocache = LuaParser::parse(&st.text, crate::c01::config(st.level, true));
        let (a, b, c) = (tree_sexpr(&cached), tree_sexpr(&fresh), tree_sexpr(&nocache));
        if a != b || a != c {
            failure.get_or_insert(format!("step {i}: tree through the shared cache differs from the fresh parse"));
        }
        if cached.get_red_root().green() != fresh.get_red_root().green() {
            failure.get_or_insert(format!("step {i}: green trees not structurally equal"));
        }
        if errors_of(&cached) != errors_of(&fresh) || errors_of(&cached) != errors_of(&nocache) {
            failure.get_or_insert(format!("step {i}: error list through the shared cache differs from the fresh parse"));
        }
        if cached.get_red_root().text().to_string() != st.text {
            failure.get_or_insert(format!("step {i}: cached tree text differs from the input"));
        }
        sexprs.push(a);
    }
    // trees stored earlier are unaffected by later parses of other files; after a configuration change
    // they are the trees of their text under the configuration in force (= the last step's level)
    if distinct_files {
        let last = h.last().map(|s| s.level).unwrap_or(LuaLanguageLevel::Lua55);
        for (i, st) in h.iter().enumerate() {
            if let Some(t) = vfs.get_syntax_tree(&fids[i]) {
                let expect = if st.level == last && i < sexprs.len() {
                    sexprs[i].clone()
                } else {
                    tree_sexpr(&LuaParser::parse(&st.text, crate::c01::config(last, true)))
                };
                if tree_sexpr(t) != expect {
                    failure.get_or_insert(format!("step {i}: the stored tree is not the tree of its text under the configuration in force"));
                }
            }
        }
    }
    let single_level = h.windows(2).all(|w| w[0].level == w[1].level);
    let ids = if distinct_files && single_level && failure.is_none() {
        let mut seen: HashMap<usize, usize> = HashMap::new();
        let mut parts = Vec::new();
        for fid in &fids {
            let mut v = Vec::new();
            if let Some(t) = vfs.get_syntax_tree(fid) {
                identities(&t.get_red_root(), &mut v);
            }
            let s: Vec<String> = v.iter().map(|p| {
                let n = seen.len();
                seen.entry(*p).or_insert(n).to_string()
            }).collect();
            parts.push(s.join("."));
        }
        Some(parts.join(";"))
    } else {
        None
    };
    Outcome { failure, ids, sexprs }
}

fn hist_json(h: &[Step]) -> Value {
    json!({"history": h.iter().map(|s| json!({"text_hex": hex(&s.text), "text": s.text, "level": level_name(s.level), "file": s.file})).collect::<Vec<_>>()})
}

pub fn run(args: &Args, report: &mut Report) {
    let mut rng = Rng::new(args.seed);
    report.rule = "histories of 1..8 texts through one Vfs (snippet concatenations with many shared subtrees, near-duplicates of earlier texts, token soup, doc soup; language level mostly fixed, sometimes switched mid-history; one third of the histories re-use URIs so trees are replaced); thorough adds all histories of length <= 4 over a 6-text pool. Non-trivial: >= 2 steps and >= 1 step with >= 3 tokens; distinct by (texts, levels, files)".into();
    let mut histories: Vec<Vec<Step>> = Vec::new();
    if let Some(p) = &args.replay {
        let v: Value = serde_json::from_str(&std::fs::read_to_string(p).expect("replay file")).expect("json");
        let mut h = Vec::new();
        for s in v["input"]["history"].as_array().cloned().unwrap_or_default() {
            h.push(Step {
                text: unhex(s["text_hex"].as_str().unwrap_or("-")).unwrap_or_default(),
                level: crate::c01::level_of(s["level"].as_str().unwrap_or("Lua55")),
                file: s["file"].as_u64().unwrap_or(0) as usize,
            });
        }
        histories.push(h);
    } else {
        let n = if args.thorough() { 6000 } else { 400 };
        // structured families shared with C01: rare prefixes (BOM, shebang, NUL …), every doc-tag line in
        // several contexts, nestings around the syntax-level limit with comments inside
        let mut pool = crate::c01::prefix_family(false);
        pool.extend(crate::c01::doc_family(false));
        pool.extend(crate::c01::limit_ladders(false).into_iter().step_by(9));
        for i in 0..n {
            histories.push(gen_history(&mut rng, 8, i % 3 == 2, &pool));
        }
        if args.thorough() {
            let pool = ["local a = 1\n", "local a = 1\nlocal a = 1\n", "print(a)\n", "local a = 1\nprint(a)\n", "x x x x", "---@class A\nlocal a = 1\n"];
            let mut frontier: Vec<Vec<usize>> = vec![vec![]];
            for _ in 0..4 {
                let mut next = Vec::new();
                for f in &frontier {
                    for k in 0..pool.len() {
                        let mut g = f.clone();
                        g.push(k);
                        next.push(g);
                    }
                }
                for g in &next {
                    histories.push(g.iter().enumerate().map(|(i, k)| Step { text: pool[*k].to_string(), level: LuaLanguageLevel::Lua54, file: i }).collect());
                }
                frontier = next;
            }
            report.extra.insert("exhaustive_scope".into(), json!("all histories of length <= 4 over a 6-text pool (1554 histories), in addition to the random ones"));
        }
    }
    // every distinct (text, level) is parsed in the watchdog child process first; a history containing an
    // input the parser does not return on is reported through that input and not run in-process
    let mut screen_idx: HashMap<(String, String), usize> = HashMap::new();
    let mut screen_cases: Vec<crate::c02::Case> = Vec::new();
    for h in &histories {
        for st in h {
            let key = (st.text.clone(), level_name(st.level).to_string());
            if !screen_idx.contains_key(&key) {
                screen_idx.insert(key, screen_cases.len());
                screen_cases.push(crate::c02::Case { text: st.text.clone(), level: st.level, doc: true, label: "c04".into(), depth: 0 });
            }
        }
    }
    let screened = crate::c02::run_cases(&screen_cases);
    let mut reported_bad: HashSet<usize> = HashSet::new();
    let mut seen: HashSet<String> = HashSet::new();
    let mut reqs = Vec::new();
    let mut expect = Vec::new();
    let mut which = Vec::new();
    for (hi, h) in histories.iter().enumerate() {
        report.evaluations += 1;
        report.add("steps", h.len() as u64);
        let replaced = h.iter().enumerate().any(|(i, s)| s.file != i);
        if replaced { report.count("history_with_replaced_files"); }
        if h.windows(2).any(|w| w[0].level != w[1].level) { report.count("history_with_level_switch"); }
        let key = h.iter().map(|s| format!("{}|{}|{}", hex(&s.text), level_name(s.level), s.file)).collect::<Vec<_>>().join(",");
        let nontrivial = h.len() >= 2 && h.iter().any(|s| s.text.split_whitespace().count() >= 3);
        if nontrivial && seen.insert(key) { report.distinct_nontrivial += 1; }
        let bad: Vec<usize> = h.iter().map(|st| screen_idx[&(st.text.clone(), level_name(st.level).to_string())])
            .filter(|i| !matches!(screened[*i], crate::c02::Outcome::Ok { .. })).collect();
        if let Some(i) = bad.first() {
            if matches!(screened[*i], crate::c02::Outcome::Skipped) {
                report.count("skipped_after_failure_allowance");
            } else if reported_bad.insert(*i) {
                let c = &screen_cases[*i];
                report.oracle_failure(json!({"input": hist_json(&[Step { text: c.text.clone(), level: c.level, file: 0 }]),
                    "what": format!("parser did not return a tree on this input: {}", screened[*i].describe()), "class": Value::Null}));
            }
            continue;
        }
        let h2 = h.clone();
        let out = match vh_common::catch(move || run_history(&h2)) {
            Ok(o) => o,
            Err(e) => Outcome { failure: Some(format!("panic: {e}")), ids: None, sexprs: vec![] },
        };
        if let Some(f) = out.failure {
            report.oracle_failure(json!({"input": hist_json(h), "what": f, "class": Value::Null}));
            continue;
        }
        if let Some(ids) = out.ids {
            reqs.push(format!("tree.cache {}", out.sexprs.join(" ")));
            expect.push(format!("ok {ids}"));
            which.push(hi);
            reqs.push(format!("tree.denote {}", out.sexprs.join(" ")));
            expect.push(format!("ok {}", out.sexprs.join(" ")));
            which.push(hi);
        }
        if report.samples.len() < 3 {
            report.sample(json!({"history": h.iter().map(|s| json!({"text": s.text, "level": level_name(s.level), "file": s.file})).collect::<Vec<_>>()}));
        }
    }
    let model = run_driver(&reqs);
    for ((m, e), hi) in model.iter().zip(expect.iter()).zip(which.iter()) {
        if m != e {
            report.mismatch(json!({"input": hist_json(&histories[*hi]), "model": m, "impl": e,
                "tie": "correspondence tree.cache/tree.denote (identity structure of the green trees out of the shared NodeCache vs Green.Cache)"}));
        } else {
            report.traces_validated += 1;
        }
    }
    report.add("identity_structures_compared", (reqs.len() / 2) as u64);
}
