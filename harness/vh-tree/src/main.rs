//! Harness binary of the parser-tree cluster (C01, C04, C02).
#[path = "gen.rs"]
mod tgen;
mod c01;
mod doc;
mod c04;
mod c02;

use vh_common::{Args, Report, Rng};

fn probe(args: &Args) {
    let mut rng = Rng::new(args.seed);
    let n: usize = args.extra.get("n").and_then(|s| s.parse().ok()).unwrap_or(20000);
    let mut bad = 0;
    let mut shown = 0;
    for _ in 0..n {
        let (t, cls) = tgen::text(&mut rng, 12);
        let level = c01::LEVELS[rng.below(8)];
        let doc = rng.chance(3, 4);
        if let Some(f) = c01::oracle_text(&t, level, doc) {
            bad += 1;
            if shown < 15 { shown += 1; println!("FAIL {cls} {level:?} doc={doc} {:?}: {f}", t); }
        }
    }
    println!("n={n} failures={bad}");
}

fn main() {
    let args = Args::parse();
    vh_common::silence_panics();
    let mut report = Report::default();
    match args.prop.as_str() {
        "probe" => { probe(&args); return; }
        "phase-probe" => {
            let n: usize = args.extra.get("n").and_then(|s| s.parse().ok()).unwrap_or(16000);
            let l = args.extra.get("ladder").cloned().unwrap_or("dot-chain".into());
            let text = c02::ladder(&l, n).unwrap();
            let h = std::thread::Builder::new().stack_size(2 * 1024 * 1024).spawn(move || {
                let t0 = std::time::Instant::now();
                let (toks, evs, _) = emmylua_parser::LuaParser::verif_parse_events(&text, emmylua_parser::ParserConfig::default());
                let t1 = t0.elapsed();
                eprintln!("n={n} tokens={} events={} lex+parse={:?}", toks.len(), evs.len(), t1);
                let mut b = emmylua_parser::LuaTreeBuilder::new(&text, evs.clone(), None);
                b.build();
                let t2 = t0.elapsed();
                eprintln!("build={:?}", t2 - t1);
                let g = b.finish();
                let t3 = t0.elapsed();
                eprintln!("finish={:?}", t3 - t2);
                let root = emmylua_parser::LuaSyntaxNode::new_root(g.clone());
                let ok = root.text() == text.as_str();
                eprintln!("text eq {ok} {:?}", t0.elapsed() - t3);
                let mut depth = 0usize; let mut maxd = 0usize; let mut deepest = None;
                for ev in root.preorder() {
                    match ev {
                        rowan::WalkEvent::Enter(n) => { depth += 1; if depth > maxd { maxd = depth; deepest = Some(n.kind()); } }
                        rowan::WalkEvent::Leave(_) => depth -= 1,
                    }
                }
                eprintln!("max tree depth {maxd} {:?}", deepest);
                if std::env::var("SHOW").is_ok() { let mut s = String::new(); c01::sexpr(&root, &mut s); eprintln!("{}", &s[..s.len().min(3000)]); }
                drop(root);
                drop(g);
                eprintln!("dropped");
            }).unwrap();
            let _ = h.join();
            return;
        }
        "deep-probe" => {
            let n: usize = args.extra.get("n").and_then(|s| s.parse().ok()).unwrap_or(16000);
            let mode = args.extra.get("mode").cloned().unwrap_or_default();
            let text = format!("x = a{}", ":b()".repeat(n));
            let h = std::thread::Builder::new().stack_size(2 * 1024 * 1024).spawn(move || {
                let tree = emmylua_parser::LuaParser::parse(&text, emmylua_parser::ParserConfig::default());
                eprintln!("parsed");
                if mode == "forget" { std::mem::forget(tree); eprintln!("forgot"); return; }
                if mode == "text" { let ok = tree.get_red_root().text() == text.as_str(); eprintln!("text {ok}"); std::mem::forget(tree); return; }
                drop(tree);
                eprintln!("dropped");
            }).unwrap();
            let _ = h.join();
            return;
        }
        "c02-child" => { c02::child_main(); return; }
        "C02" => c02::run(&args, &mut report),
        "C01" => c01::run(&args, &mut report),
        "C04" => c04::run(&args, &mut report),
        other => {
            eprintln!("vh-tree: unknown property {other}");
            std::process::exit(2);
        }
    }
    report.write(&args.out);
}
