//! Harness binary of the parser-tree cluster (C01, C04, C02).
#[path = "gen.rs"]
mod tgen;
mod c01;
mod c04;

use vh_common::{Args, Report, Rng};

fn probe(args: &Args) {
    let mut rng = Rng::new(args.seed);
    let n: usize = args.extra.get("n").and_then(|s| s.parse().ok()).unwrap_or(20000);
    let mut bad = 0;
    let mut shown = 0;
    for _ in 0..n {
        let (t, cls) = tgen::text(&mut rng, 12);
        let level = c01::LEVELS[rng.below(8)];
        let doc = rng.chance(3, 4);
        if let Some(f) = c01::oracle_text(&t, level, doc) {
            bad += 1;
            if shown < 15 { shown += 1; println!("FAIL {cls} {level:?} doc={doc} {:?}: {f}", t); }
        }
    }
    println!("n={n} failures={bad}");
}

fn main() {
    let args = Args::parse();
    vh_common::silence_panics();
    let mut report = Report::default();
    match args.prop.as_str() {
        "probe" => { probe(&args); return; }
        "C01" => c01::run(&args, &mut report),
        "C04" => c04::run(&args, &mut report),
        other => {
            eprintln!("vh-tree: unknown property {other}");
            std::process::exit(2);
        }
    }
    report.write(&args.out);
}
