//! Tie of the `DocCore` model (`Doc.start` / `Doc.run`): the operation trace of every doc-parser run of a
//! real parse (hook `LuaParser::verif_parse_doc_trace`: origin tokens of the comment group, the grammar's
//! operations `bump` / `set_lexer_state` / `bump_to_end` / `set_current_token_kind`, and every doc-lexer
//! result) is replayed through the model; the model's `EatToken` list (kind class, start, length) must be
//! the real one, the run must end at `TkEof` with the whole script consumed.
use crate::c01::{config, level_name};
use emmylua_parser::{LuaLanguageLevel, LuaParser, LuaTokenKind, MarkEvent};
use serde_json::json;
use vh_common::{Report, hex, run_driver};

fn kcode(n: u16) -> String {
    let t = |k: LuaTokenKind| k as u16;
    if n == t(LuaTokenKind::None) { "n".into() }
    else if n == t(LuaTokenKind::TkEof) { "f".into() }
    else if n == t(LuaTokenKind::TkWhitespace) { "w".into() }
    else if n == t(LuaTokenKind::TkEndOfLine) { "e".into() }
    else if n == t(LuaTokenKind::TkDocContinue) { "c".into() }
    else if n == t(LuaTokenKind::TkDocContinueOr) { "o".into() }
    else if n == t(LuaTokenKind::TkNormalStart) { "ns".into() }
    else if n == t(LuaTokenKind::TkLongCommentStart) { "ls".into() }
    else if n == t(LuaTokenKind::TkDocStart) { "ds".into() }
    else if n == t(LuaTokenKind::TkDocLongStart) { "dl".into() }
    else if n == t(LuaTokenKind::TkLongCommentEnd) { "le".into() }
    else if n == t(LuaTokenKind::TkDocTrivia) { "t".into() }
    else if n == t(LuaTokenKind::TkDocDetail) { "d".into() }
    else if n == t(LuaTokenKind::TkDocAttributeUse) { "au".into() }
    else { format!("x{n}") }
}

fn scode(name: &str) -> &'static str {
    match name {
        "Init" => "i",
        "Normal" => "n",
        "Version" | "Mapped" | "Extends" => "l",
        "FieldStart" | "See" | "Source" | "AttributeUse" => "w",
        "CastExpr" => "c",
        "Description" => "d",
        "Trivia" => "t",
        _ => "o",
    }
}

pub fn tie_doc(cases: &[(String, LuaLanguageLevel, bool)], report: &mut Report) {
    let mut reqs: Vec<String> = Vec::new();
    let mut want: Vec<String> = Vec::new();
    let mut inputs = Vec::new();
    for (t, level, doc) in cases {
        if !*doc {
            continue;
        }
        let (t2, l2) = (t.clone(), *level);
        let Ok((_toks, evs, trace)) = vh_common::catch(move || LuaParser::verif_parse_doc_trace(&t2, config(l2, true))) else {
            report.count("tie_doc_skipped_panic");
            continue;
        };
        let eats: Vec<(u16, usize, usize)> = evs.iter().filter_map(|e| match e {
            MarkEvent::EatToken { kind, range } => Some((*kind as u16, range.start_offset, range.length)),
            _ => None,
        }).collect();
        // split the trace into groups
        let mut groups: Vec<(String, Vec<String>)> = Vec::new();
        for line in trace {
            if let Some(g) = line.strip_prefix('G') {
                groups.push((g.to_string(), Vec::new()));
            } else if let Some(last) = groups.last_mut() {
                last.1.push(line);
            }
        }
        let mut cursor = 0usize; // into eats: groups are in source order
        for (g, ops) in groups {
            let mut otoks = Vec::new();
            let (mut gstart, mut gend) = (usize::MAX, 0usize);
            for item in g.split(',').filter(|s| !s.is_empty()) {
                let f: Vec<&str> = item.split(':').collect();
                let (k, s, l): (u16, usize, usize) = (f[0].parse().unwrap_or(0), f[1].parse().unwrap_or(0), f[2].parse().unwrap_or(0));
                let pass = k == LuaTokenKind::TkEndOfLine as u16 || k == LuaTokenKind::TkWhitespace as u16 || k == LuaTokenKind::TkShebang as u16;
                otoks.push(format!("{}{}:{}:{}", if pass { "p" } else { "c" }, kcode(k), s, l));
                gstart = gstart.min(s);
                gend = gend.max(s + l);
            }
            let enc_ops: Vec<String> = ops.iter().map(|o| {
                if let Some(s) = o.strip_prefix('S') { format!("S{}", scode(s)) }
                else if let Some(k) = o.strip_prefix('K') { format!("K{}", kcode(k.parse().unwrap_or(0))) }
                else if let Some(r) = o.strip_prefix('L') {
                    let (k, n) = r.split_once('.').unwrap_or(("0", "0"));
                    format!("L{}.{}", kcode(k.parse().unwrap_or(0)), n)
                } else { o.clone() }
            }).collect();
            // the real EatTokens of this group: those inside its byte range, in order
            while cursor < eats.len() && eats[cursor].1 < gstart { cursor += 1; }
            let mut real = Vec::new();
            while cursor < eats.len() && eats[cursor].1 + eats[cursor].2 <= gend && eats[cursor].1 >= gstart {
                real.push(format!("{}:{}:{}", kcode(eats[cursor].0), eats[cursor].1, eats[cursor].2));
                cursor += 1;
            }
            reqs.push(format!("treedoc.replay {} {}", if otoks.is_empty() { "-".into() } else { otoks.join(",") },
                if enc_ops.is_empty() { "-".into() } else { enc_ops.join(",") }));
            want.push(format!("ok f {} script_left=0", if real.is_empty() { "-".to_string() } else { real.join(",") }));
            inputs.push(json!({"text_hex": hex(t), "text": if t.len() <= 2000 { t.as_str() } else { "(long)" }, "level": level_name(*level), "doc": true,
                "group": [gstart, gend]}));
            report.count("doc_parser_runs_replayed");
            report.add("doc_parser_ops", enc_ops.len() as u64);
        }
    }
    let model = run_driver(&reqs);
    for ((m, w), inp) in model.iter().zip(want.iter()).zip(inputs.iter()) {
        report.evaluations += 1;
        if m != w {
            report.mismatch(json!({"input": inp, "model": m, "impl": w,
                "tie": "correspondence treedoc.replay (Doc.run on the recorded doc-parser operations vs the real EatToken events of the comment group)"}));
        } else {
            report.traces_validated += 1;
        }
    }
}
