//! C01: lossless syntax trees.
//! Tie (correspondence): (A) random `MarkEvent` lists — balanced, unbalanced, with forward `parent`
//! links, dangling links — through the real `LuaTreeBuilder` vs the Lean `Green.build`;
//! (B) the event streams of real parses (hook `verif_parse_events`) through the model vs the tree the
//! real `LuaParser::parse` returns. Tree S-expressions are compared.
//! Oracle (implementation only): `tree.text() == input`, tokens tile the input, lexer tokens tile the
//! input, for all language levels and doc on/off.
use crate::tgen;
use emmylua_parser::{
    LexerConfig, LuaLanguageLevel, LuaLexer, LuaParser, LuaSyntaxKind, LuaSyntaxNode, LuaTokenKind, LuaTreeBuilder,
    MarkEvent, ParserConfig, Reader, SourceRange,
};
use emmylua_parser::LuaFeaturesSet;
use rowan::NodeOrToken;
use serde_json::{Value, json};
use std::collections::{HashMap, HashSet};
use vh_common::{Args, Report, Rng, hex, run_driver, unhex};

pub const LEVELS: [LuaLanguageLevel; 8] = [
    LuaLanguageLevel::Lua51, LuaLanguageLevel::LuaJIT2, LuaLanguageLevel::LuaJIT, LuaLanguageLevel::LuaJIT3,
    LuaLanguageLevel::Lua52, LuaLanguageLevel::Lua53, LuaLanguageLevel::Lua54, LuaLanguageLevel::Lua55,
];

pub fn level_name(l: LuaLanguageLevel) -> &'static str {
    match l {
        LuaLanguageLevel::Lua51 => "Lua51", LuaLanguageLevel::LuaJIT2 => "LuaJIT2", LuaLanguageLevel::LuaJIT => "LuaJIT",
        LuaLanguageLevel::LuaJIT3 => "LuaJIT3", LuaLanguageLevel::Lua52 => "Lua52", LuaLanguageLevel::Lua53 => "Lua53",
        LuaLanguageLevel::Lua54 => "Lua54", LuaLanguageLevel::Lua55 => "Lua55",
    }
}

pub fn level_of(name: &str) -> LuaLanguageLevel {
    LEVELS.iter().copied().find(|l| level_name(*l) == name).unwrap_or(LuaLanguageLevel::Lua55)
}

pub fn config(level: LuaLanguageLevel, doc: bool) -> ParserConfig<'static> {
    ParserConfig::new(level, None, HashMap::new(), LuaFeaturesSet::new(vec![]), doc)
}

pub fn ncode(k: LuaSyntaxKind) -> String {
    match k {
        LuaSyntaxKind::Block => "B".into(),
        LuaSyntaxKind::Chunk => "C".into(),
        LuaSyntaxKind::Comment => "M".into(),
        LuaSyntaxKind::TypeMultiLineUnion => "U".into(),
        LuaSyntaxKind::DocDescription => "D".into(),
        LuaSyntaxKind::None => "N".into(),
        other => format!("o{}", other as u16),
    }
}

pub fn tcode(k: LuaTokenKind) -> String {
    match k {
        LuaTokenKind::TkWhitespace => "w".into(),
        LuaTokenKind::TkEndOfLine => "e".into(),
        LuaTokenKind::TkDocContinue => "c".into(),
        other => format!("o{}", other as u16),
    }
}

/// canonical S-expression of a real tree, same format as `Drv.Tree.showElem`
pub fn sexpr(node: &LuaSyntaxNode, out: &mut String) {
    out.push('(');
    out.push_str(&ncode(node.kind().into()));
    for c in node.children_with_tokens() {
        match c {
            NodeOrToken::Node(n) => sexpr(&n, out),
            NodeOrToken::Token(t) => {
                out.push('[');
                out.push_str(&tcode(t.kind().into()));
                out.push(':');
                out.push_str(&hex(t.text()));
                out.push(']');
            }
        }
    }
    out.push(')');
}

pub fn encode_events(text: &str, evs: &[MarkEvent]) -> String {
    if evs.is_empty() {
        return "-".into();
    }
    let mut parts = Vec::with_capacity(evs.len());
    for e in evs {
        parts.push(match e {
            MarkEvent::NodeStart { kind, parent } => format!("s{}.{}", ncode(*kind), parent),
            MarkEvent::EatToken { kind, range } => {
                format!("t{}.{}", tcode(*kind), hex(&text[range.start_offset..range.end_offset()]))
            }
            MarkEvent::NodeEnd => "f".into(),
            MarkEvent::Trivia => "v".into(),
        });
    }
    parts.join(",")
}

fn impl_build(text: &str, evs: &[MarkEvent]) -> String {
    let t = text.to_string();
    let e = evs.to_vec();
    match vh_common::catch(move || {
        let mut b = LuaTreeBuilder::new(&t, e, None);
        b.build();
        let g = b.finish();
        let mut s = String::new();
        sexpr(&LuaSyntaxNode::new_root(g), &mut s);
        s
    }) {
        Ok(s) => format!("ok {s}"),
        Err(_) => "err panic".into(),
    }
}

const NKINDS: &[LuaSyntaxKind] = &[
    LuaSyntaxKind::Block, LuaSyntaxKind::Block, LuaSyntaxKind::Chunk, LuaSyntaxKind::Comment, LuaSyntaxKind::Comment,
    LuaSyntaxKind::TypeMultiLineUnion, LuaSyntaxKind::DocDescription, LuaSyntaxKind::DocDescription, LuaSyntaxKind::None,
    LuaSyntaxKind::LocalStat, LuaSyntaxKind::CallExpr, LuaSyntaxKind::BinaryExpr, LuaSyntaxKind::NameExpr,
    LuaSyntaxKind::TableArrayExpr, LuaSyntaxKind::DocTagClass, LuaSyntaxKind::UnknownStat, LuaSyntaxKind::IfStat,
];
const TKINDS: &[LuaTokenKind] = &[
    LuaTokenKind::TkWhitespace, LuaTokenKind::TkWhitespace, LuaTokenKind::TkEndOfLine, LuaTokenKind::TkEndOfLine,
    LuaTokenKind::TkDocContinue, LuaTokenKind::TkName, LuaTokenKind::TkName, LuaTokenKind::TkInt, LuaTokenKind::TkString,
    LuaTokenKind::TkLocal, LuaTokenKind::TkShortComment, LuaTokenKind::TkLeftParen, LuaTokenKind::TkDocDetail,
];
const PIECES: &[&str] = &["a", "bc", " ", "  ", "\n", "\r\n", "é", "😀", "\0", "(", "--x", "1"];

/// a random event list over a random text. `mode` 0: balanced with `precede`-style links;
/// 1: balanced plus random surplus/missing NodeEnds; 2: anything (random links, also dangling).
pub fn gen_events(rng: &mut Rng, mode: usize, max: usize) -> (String, Vec<MarkEvent>) {
    // text and token ranges at piece boundaries
    let np = rng.range(1, 8);
    let mut text = String::new();
    let mut bounds = vec![0usize];
    for _ in 0..np {
        text.push_str(*rng.pick(PIECES));
        bounds.push(text.len());
    }
    let tok = |rng: &mut Rng| {
        let a = rng.below(bounds.len());
        let b = rng.below(bounds.len());
        let (a, b) = if rng.chance(1, 12) { (a, a) } else { (a.min(b), a.max(b)) };
        MarkEvent::EatToken { kind: *rng.pick(TKINDS), range: SourceRange::new(bounds[a], bounds[b] - bounds[a]) }
    };
    let n = rng.range(0, max);
    let mut evs: Vec<MarkEvent> = Vec::new();
    let mut open: Vec<usize> = Vec::new(); // positions of open NodeStarts
    let mut completed: Vec<usize> = Vec::new(); // completed NodeStart positions (candidates for precede)
    for _ in 0..n {
        match rng.below(10) {
            0..=3 => evs.push(tok(rng)),
            4 | 5 => {
                open.push(evs.len());
                evs.push(MarkEvent::NodeStart { kind: *rng.pick(NKINDS), parent: 0 });
            }
            6 | 7 => {
                if let Some(p) = open.pop() {
                    evs.push(MarkEvent::NodeEnd);
                    completed.push(p);
                } else if mode >= 1 {
                    evs.push(MarkEvent::NodeEnd);
                }
            }
            8 => {
                // precede: a new NodeStart becomes the parent of a completed one
                if let Some(&p) = completed.last() {
                    let already = matches!(evs[p], MarkEvent::NodeStart { parent, .. } if parent != 0);
                    if !already || mode == 2 {
                        let m = evs.len();
                        evs.push(MarkEvent::NodeStart { kind: *rng.pick(NKINDS), parent: 0 });
                        if let MarkEvent::NodeStart { parent, .. } = &mut evs[p] {
                            *parent = m;
                        }
                        evs.push(MarkEvent::Trivia);
                        open.push(m);
                    }
                }
            }
            _ => {
                if mode >= 1 {
                    match rng.below(4) {
                        0 => evs.push(MarkEvent::NodeEnd),
                        1 => evs.push(MarkEvent::Trivia),
                        2 => {
                            // undo: an open node's kind becomes None
                            if let Some(p) = open.pop() {
                                if let MarkEvent::NodeStart { kind, .. } = &mut evs[p] {
                                    *kind = LuaSyntaxKind::None;
                                }
                            }
                        }
                        _ => evs.push(tok(rng)),
                    }
                } else {
                    evs.push(tok(rng));
                }
            }
        }
    }
    if mode == 0 || (mode == 1 && rng.chance(1, 2)) {
        while open.pop().is_some() {
            evs.push(MarkEvent::NodeEnd);
        }
    }
    if mode == 2 {
        // random links, some dangling / pointing at non-starts / backwards / cyclic
        let len = evs.len();
        for i in 0..len {
            if rng.chance(1, 6) {
                if let MarkEvent::NodeStart { parent, .. } = &mut evs[i] {
                    *parent = rng.below(len + 2);
                }
            }
        }
    }
    (text, evs)
}

pub fn cfg_json(level: LuaLanguageLevel, doc: bool) -> Value {
    json!({"level": level_name(level), "doc": doc})
}

/// implementation-side oracle for one text and configuration; returns the first failure
/// facts about one parse, computed where the parse runs (normally the watchdog child process)
pub struct ParseFacts {
    pub errors: usize,
    pub too_deep: bool,
    pub lexer_tokens: usize,
    pub failure: Option<String>,
}

pub fn oracle_text(text: &str, level: LuaLanguageLevel, doc: bool) -> Option<String> {
    oracle_text_ex(text, level, doc).failure
}

pub fn oracle_text_ex(text: &str, level: LuaLanguageLevel, doc: bool) -> ParseFacts {
    let t = text.to_string();
    let facts = std::sync::Arc::new(std::sync::Mutex::new((0usize, false, 0usize)));
    let facts2 = facts.clone();
    let r = vh_common::catch(move || {
        let tree = LuaParser::parse(&t, config(level, doc));
        {
            let mut f = facts2.lock().unwrap();
            f.0 = tree.get_errors().len();
            f.1 = tree.get_errors().iter().any(|e| e.message.contains("too many syntax levels"));
        }
        let root = tree.get_red_root();
        let got = root.text().to_string();
        if got != t {
            let common = got.bytes().zip(t.bytes()).take_while(|(a, b)| a == b).count();
            return Some(format!(
                "tree text differs from the input at byte {common}: tree has {} bytes, input {} bytes",
                got.len(),
                t.len()
            ));
        }
        let mut pos = 0usize;
        for el in root.descendants_with_tokens() {
            if let NodeOrToken::Token(tk) = el {
                let r = tk.text_range();
                let (s, e) = (u32::from(r.start()) as usize, u32::from(r.end()) as usize);
                if s != pos {
                    return Some(format!("token {:?} starts at {s}, previous token ended at {pos}", tk.kind()));
                }
                if t.get(s..e) != Some(tk.text()) {
                    return Some(format!("token at {s}..{e} has text {:?}, input has {:?}", tk.text(), t.get(s..e)));
                }
                pos = e;
            }
        }
        if pos != t.len() {
            return Some(format!("tokens end at {pos}, input has {} bytes", t.len()));
        }
        // the lexer on its own
        let toks = LuaLexer::new(Reader::new(&t), LexerConfig::new(level), None).tokenize();
        facts2.lock().unwrap().2 = toks.len();
        let mut p = 0usize;
        for tk in &toks {
            if tk.range.start_offset != p {
                return Some(format!("lexer token {:?} starts at {}, previous ended at {p}", tk.kind, tk.range.start_offset));
            }
            p = tk.range.end_offset();
        }
        if p != t.len() {
            return Some(format!("lexer tokens end at {p}, input has {} bytes", t.len()));
        }
        None
    });
    let failure = match r {
        Ok(v) => v,
        Err(e) => Some(format!("panic: {e}")),
    };
    let f = facts.lock().map(|g| *g).unwrap_or((0, false, 0));
    ParseFacts { errors: f.0, too_deep: f.1, lexer_tokens: f.2, failure }
}

/// class of an input for the known-findings ledger (computed from the input only)
pub fn classify(_text: &str) -> Value {
    Value::Null
}

/// nesting constructs: (name, opener, closer, levels taken per nesting)
const NESTS: &[(&str, &str, &str, usize)] = &[
    ("do", "do\n", "\nend", 1),
    ("if", "if x then\n", "\nend", 1),
    ("while", "while x do\n", "\nend", 1),
    ("for", "for i = 1, 2 do\n", "\nend", 1),
    ("repeat", "repeat\n", "\nuntil x", 1),
    ("function", "function f()\n", "\nend", 1),
    ("closure", "x = function()\n", "\nend", 2),
    ("paren", "x = (\n", ")", 1),
    ("paren-only", "(\n", ")", 1),
    ("table", "{\n", "}", 1),
    ("table-field", "{ a =\n", "}", 1),
    ("call", "f(\n", ")", 1),
];
const NEST_COMMENTS: &[&str] = &["-- c", "---@type X", "--[[ b ]]", "--- doc\n---@param a number", "--[==[ l\n2 ]==]", "-- c\n\n-- d"];

/// `depth` nestings of a construct with a comment at the innermost level and (optionally) at two
/// outer levels; expression constructs get an expression statement prefix
fn nest_text(nest: &(&str, &str, &str, usize), depth: usize, comment: &str, outer: bool) -> String {
    let (name, open, close, _) = *nest;
    let expr = matches!(name, "paren-only" | "table" | "table-field" | "call");
    let mut s = String::new();
    if expr { s.push_str("x = "); }
    for k in 0..depth {
        s.push_str(open);
        if outer && (k == 0 || k == depth / 2) {
            s.push_str(comment);
            s.push('\n');
        }
    }
    s.push_str(comment);
    s.push('\n');
    s.push_str(if expr || name == "paren" { "1 -- tail\n" } else { "local x = 1 -- c\n" });
    for _ in 0..depth { s.push_str(close); }
    s.push_str("\n-- after\nreturn x\n");
    s
}

/// doc-type nestings inside a doc comment, possibly inside nested blocks
fn doc_nest_text(kind: usize, depth: usize, blocks: usize) -> String {
    let (o, c) = [("(", ")"), ("A<", ">"), ("fun(a: ", ")"), ("{a: ", "}"), ("[", "]")][kind % 5];
    format!("{}---@type {}A{}\nlocal x = 1\n{}", "do\n".repeat(blocks), o.repeat(depth), c.repeat(depth), "end\n".repeat(blocks))
}

/// ladders around the syntax-level limit (taken from the parser's own constant)
pub fn limit_ladders(thorough: bool) -> Vec<String> {
    let limit = LuaParser::MAX_SYNTAX_LEVELS;
    let mut out = Vec::new();
    for nest in NESTS {
        let per = nest.3;
        let l = limit / per;
        let mut depths: Vec<usize> = vec![1, 3, l / 2, l - 20, l - 3, l - 2, l - 1, l, l + 1, l + 2, l + 3, l + 20, 2 * l + 1];
        if thorough {
            depths.extend((l.saturating_sub(25))..(l + 25));
            depths.push(5 * l);
        }
        depths.sort();
        depths.dedup();
        for (di, d) in depths.iter().enumerate() {
            for (ci, c) in NEST_COMMENTS.iter().enumerate() {
                if !thorough && ci >= 3 && di % 3 != ci % 3 { continue; }
                out.push(nest_text(nest, *d, c, false));
                if thorough || (di + ci) % 2 == 0 {
                    out.push(nest_text(nest, *d, c, true));
                }
            }
        }
    }
    // every kind of statement placed exactly at block levels limit-2 .. limit+2
    const STMTS: &[&str] = &[
        "f()", "x = 1", "x.y = 1", "x:m()", "x, y = 1, 2", "local a = 1", "local a <const> = 1", "local function g() end", "function g() end",
        "if x then end", "if x then else end", "while x do end", "for i = 1, 2 do end", "for k, v in p do end", "repeat until x", "return", "return f()",
        "break", "goto l", "::l::", "do end", ";", "x += 1", "global g", "global function g() end", "f 'str'", "f {}", "(f)()", "continue", "const c = 1",
        "-- c", "---@type A\nlocal z", "x = {}", "x = (1)", "x = function() end", "x = -1", "x = a .. b", "x = a and b or c", "f(1, 2)", "a.b.c()", "x = a[1]",
        "local = 1", "x = ", "f(", "if x then", "local function", "for", "return return",
    ];
    const WRAPS: &[(&str, &str)] = &[("do\n", "\nend"), ("if x then\n", "\nend"), ("while x do\n", "\nend"), ("function f()\n", "\nend"), ("repeat\n", "\nuntil x")];
    for (wi, (open, close)) in WRAPS.iter().enumerate() {
        for (si, st) in STMTS.iter().enumerate() {
            for d in [limit - 2, limit - 1, limit, limit + 1, limit + 2] {
                if !thorough && wi > 0 && (si + d) % 3 != wi % 3 { continue; }
                out.push(format!("{}{st}\n{st}{}\n{st}\n", open.repeat(d), close.repeat(d)));
            }
        }
    }
    for kind in 0..5 {
        for d in [1usize, limit / 2, limit - 2, limit - 1, limit, limit + 1, limit + 2, 2 * limit] {
            for blocks in [0usize, 1, limit / 2, limit - 2, limit - 1, limit] {
                out.push(doc_nest_text(kind, d, blocks));
            }
        }
    }
    out
}

const RARE_PREFIXES: &[&str] = &["", "\u{feff}", "#!shebang\n", "\u{feff}#!shebang\n", "\u{feff}#", "#", "\u{feff}\u{feff}", "\n#!shebang\n",
    "\0", "\r", "\u{feff}\r\n", "#\u{feff}\n", "\u{feff}#!a\r#!b\n", " \u{feff}", "\u{feff}--c\n", "\u{feff}---@meta\n"];
const RARE_BODIES: &[&str] = &["", "local x = 1\n", "-- c\n", "---@type X\nlocal x\n", "x = [[long\nstring]]\n", "x = [==[ unterminated", "--[[ unterminated",
    "x\u{feff}y = 1\n", "return 'a\\z\n  b'\n", "#!not a shebang here\n", "f() --", "x = 'unterminated"];
const RARE_SUFFIXES: &[&str] = &["", "\0", "\u{feff}", "\r", "--", "--[[", "---@", "[[", "[=[", "'", "\"", "\\", "\n#!x", "\u{feff}#", "-", "---|", "--[==[ x ]=]"];

/// structured prefix family: every rare prefix × every body (× a few suffixes)
pub fn prefix_family(thorough: bool) -> Vec<String> {
    let mut out = Vec::new();
    for p in RARE_PREFIXES {
        for b in RARE_BODIES {
            out.push(format!("{p}{b}"));
            if thorough {
                for s in RARE_SUFFIXES { out.push(format!("{p}{b}{s}")); }
            }
        }
    }
    for b in RARE_BODIES {
        for s in RARE_SUFFIXES { out.push(format!("{b}{s}")); }
    }
    out
}

const DOC_LINES: &[&str] = &[
    "---@class A", "---@class A<T>: B, C", "---@class (exact) A: B", "---@field x number", "---@field [string] number", "---@field private x? fun(a: A): B desc",
    "---@alias A 'x' | 'y'", "---@alias A\n---| 'x' # one\n---| 'y' # two", "---@type A|B?", "---@type table<string, A[]>", "---@type fun(a: A, ...: any): B, C",
    "---@type { a: A, [1]: B }", "---@type [A, B]", "---@type `T`", "---@type A extends B and C or D", "---@type keyof A", "---@type -1", "---@type \"s\" | 'c'",
    "---@param a number desc", "---@param ... any", "---@param a? A", "---@return number? name description", "---@return A, B", "---@return_cast a A",
    "---@generic T: A, U", "---@overload fun(a: A): B", "---@operator add(number): A", "---@cast x +string, -nil", "---@cast x A", "---@see a#b", "---@see a.b.c",
    "---@source file.lua:1:2", "---@version >5.1, JIT", "---@diagnostic disable-next-line: undefined-global, unused", "---@diagnostic enable", "---@module 'a.b'",
    "---@enum E", "---@enum (key) E", "---@meta", "---@meta name", "---@deprecated use x", "---@async", "---@nodiscard", "---@private", "---@package",
    "---@namespace A.B", "---@using A.B", "---@[deprecated(\"x\")]", "---@attribute a(x: string)", "---@language lua", "---@as A", "---@export", "---@readonly",
    "---@mapping x", "---@unknown tag here", "---@", "--- plain `code` *text*", "---", "--", "-- c", "--region r", "--endregion", "--[[ block ]]", "--[==[ b\nl ]==]",
    "--[[@type A]]", "---@type", "---@param", "---@field", "---@class", "---@alias", "---@return", "---@generic", "---@type (", "---@type A<", "---@type fun(", "---@type {",
    "---@type A |", "---@type A.", "---@param a", "---@field x", "---@type 'unterminated", "---@type A # comment", "---@type A @ comment",
];

/// every doc line in every context (alone, before/after code, inline, in a table, CRLF/CR, NUL)
pub fn doc_family(thorough: bool) -> Vec<String> {
    let mut out = Vec::new();
    for d in DOC_LINES {
        out.push(d.to_string());
        out.push(format!("{d}\n"));
        out.push(format!("{d}\nlocal x = 1\n"));
        out.push(format!("local y = 2 {d}\nlocal x\n"));
        out.push(format!("local t = {{\n  {d}\n  a = 1, {d}\n}}\n"));
        out.push(format!("{d}\r\n{d}\r\nfunction f() end\r\n"));
        out.push(format!("{d}\rlocal x\r"));
        out.push(format!("{d}\n\n{d}\n{d}\nlocal x\n"));
        out.push(format!("function f()\n  {d}\n  return\nend {d}"));
        if thorough {
            out.push(format!("{d}\0\nlocal x\n"));
            out.push(format!("{d} \t \nlocal x\n"));
            out.push(format!("{}{d}\nlocal x\n", '\u{feff}'));
            out.push(format!("{d}é中😀\nlocal x\n"));
            for e in DOC_LINES.iter().step_by(7) {
                out.push(format!("{d}\n{e}\nlocal x\n"));
            }
        }
    }
    out
}

/// a few large inputs (more than 2^16 bytes / tokens / lines)
pub fn big_texts() -> Vec<String> {
    vec![
        "a ".repeat(40_000),
        "local a = f(1, 'x') -- c\n".repeat(4_000),
        "---@param a number\n".repeat(3_000) + "function f(a) end\n",
        format!("x = {{{}}}", "1, ".repeat(30_000)),
        "x = [[".to_string() + &"long é\n".repeat(12_000) + "]]",
        "--[[".to_string() + &"c\n".repeat(30_000),
    ]
}

/// generic booster: wrap a generated body with a rare prefix and/or suffix
pub fn boost(rng: &mut Rng, body: &str) -> String {
    let p = if rng.chance(2, 3) { *rng.pick(RARE_PREFIXES) } else { "" };
    let s = if rng.chance(2, 3) { *rng.pick(RARE_SUFFIXES) } else { "" };
    format!("{p}{body}{s}")
}

pub fn corpus() -> Vec<String> {
    vec![
        "local a = 1\0 local b = 2".into(),
        "'s' --region r\n--region r\n--c\n[[l]]".into(),
        "package\ninalias\ngeneric --endregion\n\norattribute ! using".into(),
        "\u{feff}local x = 1\r\n".into(),
        "".into(),
        "\0".into(),
        "x = {\n  --- doc\n  a = 1, -- inline\n\n  b = 2\n}\r\rreturn".into(),
        "---@class A\n---@field x number\nlocal A = {}\n\n\n-- c\n".into(),
        "#!/usr/bin/lua\nprint('x')".into(),
        "--[[ unfinished".into(),
        "local t = { [1] = 'un".into(),
        "---@param a (fun(): string) | A<\"x\">\nfunction f(a) end".into(),
        "a = b ? c : d ?? e ?. f".into(),
    ]
}

pub fn run(args: &Args, report: &mut Report) {
    let mut rng = Rng::new(args.seed);
    report.rule = "texts: corpus + token soup (Lua vocabulary, doc-comment vocabulary, special characters NUL/BOM/CR/non-ASCII mixed in, lossy random bytes) x 8 language levels x doc on/off; event lists: seeded random MarkEvent lists over random texts in three modes (balanced with precede links / surplus+missing NodeEnd and undo / arbitrary links incl. dangling) + the event stream of every generated parse. A case is non-trivial when the text has >= 2 tokens resp. the event list has >= 1 token and >= 1 node; distinct by (text, config) resp. encoded event list".into();

    // ---- replay --------------------------------------------------------------------------
    if let Some(p) = &args.replay {
        let v: Value = serde_json::from_str(&std::fs::read_to_string(p).expect("replay file")).expect("json");
        let inp = &v["input"];
        if let Some(evs) = inp.get("events").and_then(|e| e.as_str()) {
            // an encoded event list: decode against a text made of the token texts
            let (text, events) = decode_events(evs);
            let m = run_driver(&[format!("tree.build {}", encode_events(&text, &events))]);
            let i = impl_build(&text, &events);
            report.evaluations = 1;
            if m[0] != i {
                report.mismatch(json!({"input": {"events": evs}, "model": m[0], "impl": i, "tie": "tree.build"}));
            }
            return;
        }
        let text = unhex(inp["text_hex"].as_str().unwrap_or("-")).unwrap_or_default();
        let level = level_of(inp["level"].as_str().unwrap_or("Lua55"));
        let doc = inp["doc"].as_bool().unwrap_or(true);
        report.evaluations = 1;
        let case = crate::c02::Case { text: text.clone(), level, doc, label: "replay".into(), depth: 0 };
        let o = crate::c02::run_cases(std::slice::from_ref(&case));
        let input = json!({"text_hex": hex(&text), "text": text, "level": level_name(level), "doc": doc});
        match &o[0] {
            crate::c02::Outcome::Ok { failure: None, .. } => {
                tie_parse(&[(text.clone(), level, doc)], report);
                tie_core(&[(text.clone(), level, doc)], report);
                crate::doc::tie_doc(&[(text, level, doc)], report);
            }
            crate::c02::Outcome::Ok { failure: Some(f), .. } => {
                report.oracle_failure(json!({"input": input, "what": f, "class": classify(&text)}));
            }
            other => report.oracle_failure(json!({"input": input, "what": format!("parser did not return a tree on this input: {}", other.describe()), "class": classify(&text)})),
        }
        return;
    }

    // ---- (A) random event lists ----------------------------------------------------------
    let n_ev = if args.thorough() { 150_000 } else { 6_000 };
    let mut cases: Vec<(String, Vec<MarkEvent>, usize)> = Vec::new();
    for i in 0..n_ev {
        let mode = i % 3;
        let max = if rng.chance(1, 10) { 60 } else { 16 };
        let (text, evs) = gen_events(&mut rng, mode, max);
        cases.push((text, evs, mode));
    }
    let reqs: Vec<String> = cases.iter().map(|(t, e, _)| format!("tree.build {}", encode_events(t, e))).collect();
    let model = run_driver(&reqs);
    let mut seen: HashSet<String> = HashSet::new();
    for (((text, evs, mode), req), m) in cases.iter().zip(reqs.iter()).zip(model.iter()) {
        report.evaluations += 1;
        report.count(&format!("eventlist_mode{mode}"));
        let i = impl_build(text, evs);
        let ntok = evs.iter().filter(|e| matches!(e, MarkEvent::EatToken { .. })).count();
        let nnode = evs.iter().filter(|e| matches!(e, MarkEvent::NodeStart { .. })).count();
        if ntok >= 1 && nnode >= 1 && seen.insert(req.clone()) {
            report.distinct_nontrivial += 1;
        }
        if i == "err panic" {
            report.count("eventlist_impl_panic(dangling link)");
        }
        if &i != m {
            report.mismatch(json!({"input": {"events": &req["tree.build ".len()..]}, "model": m, "impl": i,
                "tie": "correspondence tree.build (LuaTreeBuilder vs Green.build) on a random event list"}));
        } else {
            report.traces_validated += 1;
        }
        // implementation-side oracle on event lists: the tree text is the concatenation of the token texts
        if let Some(sx) = i.strip_prefix("ok ") {
            let want: String = evs.iter().filter_map(|e| match e {
                MarkEvent::EatToken { range, .. } => Some(&text[range.start_offset..range.end_offset()]),
                _ => None,
            }).collect();
            let got = sexpr_text(sx);
            if got != want {
                report.oracle_failure(json!({"input": {"events": &req["tree.build ".len()..]},
                    "what": format!("builder tree text {:?} differs from the concatenated EatToken texts {:?}", got, want), "class": Value::Null}));
            }
        } else if *mode < 2 {
            report.oracle_failure(json!({"input": {"events": &req["tree.build ".len()..]},
                "what": "LuaTreeBuilder panicked on an event list with well-formed parent links", "class": Value::Null}));
        }
        if report.samples.len() < 2 {
            report.sample(json!({"events": &req["tree.build ".len()..], "tree": m}));
        }
    }

    // ---- texts ---------------------------------------------------------------------------
    let n_text = if args.thorough() { 400_000 } else { 20_000 };
    let max_pieces = if args.thorough() { 40 } else { 14 };
    let mut texts: Vec<(String, &'static str)> = corpus().into_iter().map(|t| (t, "corpus")).collect();
    texts.extend(prefix_family(args.thorough()).into_iter().map(|t| (t, "prefix-family")));
    texts.extend(limit_ladders(args.thorough()).into_iter().map(|t| (t, "limit-ladder")));
    texts.extend(doc_family(args.thorough()).into_iter().map(|t| (t, "doc-family")));
    texts.extend(big_texts().into_iter().map(|t| (t, "big")));
    for _ in 0..n_text {
        let mp = if rng.chance(1, 20) { max_pieces * 4 } else { max_pieces };
        let (t, cls) = tgen::text(&mut rng, mp);
        if rng.chance(1, 4) {
            texts.push((boost(&mut rng, &t), "boosted"));
        } else {
            texts.push((t, cls));
        }
    }
    // Every parse of a generated input runs in the watchdog child process first (2 MiB thread, time
    // budget, address-space limit): a hang, abort or memory blow-up of the parser is a concrete oracle
    // failure for that input and the run goes on; only inputs the child handled are parsed in-process
    // (model ties) afterwards.
    let tie_every = if args.thorough() { 8 } else { 4 };
    let mut planned: Vec<crate::c02::Case> = Vec::new();
    let mut plan_meta: Vec<(&'static str, bool)> = Vec::new(); // (class, tie_this)
    for (k, (t, cls)) in texts.iter().enumerate() {
        // corpus entries run under every configuration, generated texts under one random + default
        let cfgs: Vec<(LuaLanguageLevel, bool)> = if *cls == "corpus" || *cls == "prefix-family" {
            LEVELS.iter().flat_map(|l| [(*l, true), (*l, false)]).collect()
        } else if *cls == "doc-family" {
            let l = LEVELS[k % 8];
            vec![(l, true), (l, false), (LuaLanguageLevel::Lua55, true)]
        } else if *cls == "big" {
            vec![(LuaLanguageLevel::Lua54, true), (LuaLanguageLevel::LuaJIT, false)]
        } else if *cls == "limit-ladder" {
            let l = LEVELS[k % 8];
            if args.thorough() { vec![(l, true), (l, false), (LuaLanguageLevel::Lua55, true), (LuaLanguageLevel::Lua51, false)] }
            else { vec![(l, true), (LuaLanguageLevel::Lua55, false)] }
        } else {
            vec![(LEVELS[rng.below(8)], rng.chance(3, 4)), (LuaLanguageLevel::Lua55, true)]
        };
        for (level, doc) in cfgs {
            let lidx = LEVELS.iter().position(|l| *l == level).unwrap_or(0);
            let tie_this = match *cls {
                "corpus" => true,
                "prefix-family" => lidx % 4 == 0,
                "limit-ladder" => k % 24 == 0,   // long event streams: a sample is enough for the model tie
                "big" => false,
                "doc-family" => lidx % 2 == 0,
                _ => k % tie_every == 0,
            };
            planned.push(crate::c02::Case { text: t.clone(), level, doc, label: cls.to_string(), depth: 0 });
            plan_meta.push((*cls, tie_this));
        }
    }
    let outcomes = crate::c02::run_cases(&planned);
    let mut tie_cases: Vec<(String, LuaLanguageLevel, bool)> = Vec::new();
    let mut seen_t: HashSet<(String, usize, bool)> = HashSet::new();
    for ((c, (cls, tie_this)), o) in planned.iter().zip(plan_meta.iter()).zip(outcomes.iter()) {
        let (t, level, doc) = (&c.text, c.level, c.doc);
        report.evaluations += 1;
        report.count(&format!("text_{cls}"));
        report.count(&format!("level_{}", level_name(level)));
        if !doc { report.count("doc_off"); }
        if t.contains('\0') { report.count("has_nul"); }
        if t.contains('\r') { report.count("has_cr"); }
        if t.contains('\u{feff}') { report.count("has_bom"); }
        let lidx = LEVELS.iter().position(|l| *l == level).unwrap_or(0);
        let input = json!({"text_hex": hex(t), "text": if t.len() <= 4000 { t.as_str() } else { "(long, see text_hex)" }, "level": level_name(level), "doc": doc});
        match o {
            crate::c02::Outcome::Ok { lexer_tokens, failure, .. } => {
                if *lexer_tokens >= 2 && seen_t.insert((t.clone(), lidx, doc)) {
                    report.distinct_nontrivial += 1;
                }
                if let Some(f) = failure {
                    report.oracle_failure(json!({"input": input, "what": f, "class": classify(t)}));
                } else if *tie_this {
                    tie_cases.push((t.clone(), level, doc));
                }
            }
            crate::c02::Outcome::Skipped => {
                report.evaluations -= 1;
                report.count("skipped_after_failure_allowance");
            }
            other => {
                report.count("parser_did_not_return");
                report.oracle_failure(json!({"input": input, "what": format!("parser did not return a tree on this input: {}", other.describe()), "class": classify(t)}));
            }
        }
    }
    // ---- (B) event streams of real parses through the model ---------------------------------
    tie_parse(&tie_cases, report);
    // ---- (C) token-layer core ------------------------------------------------------------
    tie_core(&tie_cases, report);
    // ---- (C') doc-parser core: recorded operation traces replayed through Doc.run ----------------
    crate::doc::tie_doc(&tie_cases, report);
    // ---- (D) reader + lexer loop ------------------------------------------------------------
    let lex_texts: Vec<(String, LuaLanguageLevel)> = tie_cases.iter().map(|(t, l, _)| (t.clone(), *l)).collect();
    tie_reader(&mut rng, if args.thorough() { 100_000 } else { 5_000 }, &lex_texts, report);
}

/// text of a tree S-expression (concatenated token texts)
fn sexpr_text(sx: &str) -> String {
    let mut out = String::new();
    let b = sx.as_bytes();
    let mut i = 0;
    while i < b.len() {
        if b[i] == b'[' {
            let colon = sx[i..].find(':').unwrap() + i;
            let close = sx[i..].find(']').unwrap() + i;
            out.push_str(&unhex(&sx[colon + 1..close]).unwrap_or_default());
            i = close;
        }
        i += 1;
    }
    out
}

fn decode_events(s: &str) -> (String, Vec<MarkEvent>) {
    let mut text = String::new();
    let mut evs = Vec::new();
    if s == "-" {
        return (text, evs);
    }
    for item in s.split(',') {
        if item == "f" {
            evs.push(MarkEvent::NodeEnd);
        } else if item == "v" {
            evs.push(MarkEvent::Trivia);
        } else if let Some(rest) = item.strip_prefix('s') {
            let (k, p) = rest.split_once('.').unwrap();
            evs.push(MarkEvent::NodeStart { kind: nkind_of(k), parent: p.parse().unwrap_or(0) });
        } else if let Some(rest) = item.strip_prefix('t') {
            let (k, h) = rest.split_once('.').unwrap();
            let t = unhex(h).unwrap_or_default();
            let start = text.len();
            text.push_str(&t);
            evs.push(MarkEvent::EatToken { kind: tkind_of(k), range: SourceRange::new(start, t.len()) });
        }
    }
    (text, evs)
}

fn nkind_of(code: &str) -> LuaSyntaxKind {
    match code {
        "B" => LuaSyntaxKind::Block, "C" => LuaSyntaxKind::Chunk, "M" => LuaSyntaxKind::Comment,
        "U" => LuaSyntaxKind::TypeMultiLineUnion, "D" => LuaSyntaxKind::DocDescription, "N" => LuaSyntaxKind::None,
        o => {
            let n: u16 = o[1..].parse().unwrap_or(0);
            NKINDS.iter().copied().find(|k| *k as u16 == n).unwrap_or(LuaSyntaxKind::LocalStat)
        }
    }
}

fn tkind_of(code: &str) -> LuaTokenKind {
    match code {
        "w" => LuaTokenKind::TkWhitespace, "e" => LuaTokenKind::TkEndOfLine, "c" => LuaTokenKind::TkDocContinue,
        o => {
            let n: u16 = o[1..].parse().unwrap_or(0);
            TKINDS.iter().copied().find(|k| *k as u16 == n).unwrap_or(LuaTokenKind::TkName)
        }
    }
}

const READER_PIECES: &[&str] = &["a", "1", "23", " ", "\t", "=", "==", "\n", "\r", "\0", "é", "中", "😀", "-", "[", "\u{feff}"];
const READER_OPS: &[char] = &['b', 'b', 'b', 'r', 'r', 'D', 'S', 'N', 'X', 'Q'];

fn real_reader_run(text: &str, start: usize, ops: &str) -> String {
    let obs = |r: &mut Reader| {
        let rg = r.current_range();
        format!("{}:{}:{}:{}:{}:{}:{}", r.is_eof() as u8, r.current_char() as u32, r.next_char() as u32, r.prev_char() as u32,
            rg.start_offset, rg.length, r.get_current_end_pos())
    };
    let mut r = Reader::new_with_range(text, SourceRange::new(start, text.len()));
    let mut out = vec![obs(&mut r)];
    for c in ops.chars() {
        let n = match c {
            'b' => { r.bump(); None }
            'r' => { r.reset_buff(); None }
            'D' => Some(r.eat_while(|ch| ch.is_ascii_digit())),
            'S' => Some(r.eat_while(|ch| ch == ' ' || ch == '\t')),
            'N' => Some(r.eat_while(|ch| ch != '\n' && ch != '\r')),
            'X' => Some(r.eat_till_end()),
            'Q' => Some(r.eat_when('=')),
            _ => None,
        };
        let mut o = obs(&mut r);
        if let Some(k) = n { o.push_str(&format!("#{k}")); }
        out.push(o);
    }
    format!("ok {}", out.join(","))
}

/// (D): the real public `Reader` vs `Reader.R` on random op sequences; and the real token list of
/// `LuaLexer::tokenize` replayed as a bump schedule through the model's lexer loop
pub fn tie_reader(rng: &mut Rng, n: usize, texts: &[(String, LuaLanguageLevel)], report: &mut Report) {
    let mut reqs = Vec::new();
    let mut want = Vec::new();
    let mut inputs = Vec::new();
    for _ in 0..n {
        let np = rng.below(9);
        let text: String = (0..np).map(|_| *rng.pick(READER_PIECES)).collect();
        let nops = rng.below(30);
        let ops: String = (0..nops).map(|_| *rng.pick(READER_OPS)).collect();
        let start = if rng.chance(1, 3) { rng.below(50) } else { 0 };
        reqs.push(format!("tree.reader {} {} {}", hex(&text), start, if ops.is_empty() { "-".to_string() } else { ops.clone() }));
        let (t2, o2) = (text.clone(), ops.clone());
        want.push(vh_common::catch(move || real_reader_run(&t2, start, &o2)).unwrap_or_else(|_| "err panic".into()));
        inputs.push(json!({"reader_text_hex": hex(&text), "start": start, "ops": ops}));
        report.count("reader_op_sequences");
    }
    for (t, level) in texts {
        let toks = LuaLexer::new(Reader::new(t), LexerConfig::new(*level), None).tokenize();
        let ks: Vec<String> = toks.iter().map(|k| t[k.range.start_offset..k.range.end_offset()].chars().count().to_string()).collect();
        reqs.push(format!("tree.lexloop {} {}", hex(t), if ks.is_empty() { "-".to_string() } else { ks.join(".") }));
        let rs: Vec<String> = toks.iter().map(|k| format!("{}:{}", k.range.start_offset, k.range.length)).collect();
        want.push(format!("ok {}", if rs.is_empty() { "-".to_string() } else { rs.join(",") }));
        inputs.push(json!({"text_hex": hex(t), "text": t, "level": level_name(*level), "doc": true}));
        report.count("lexer_loops");
    }
    let model = run_driver(&reqs);
    for ((m, w), inp) in model.iter().zip(want.iter()).zip(inputs.iter()) {
        report.evaluations += 1;
        if m != w {
            report.mismatch(json!({"input": inp, "model": m, "impl": w, "tie": "correspondence tree.reader / tree.lexloop (Reader vs Reader.R)"}));
        } else {
            report.traces_validated += 1;
        }
    }
}

fn tk_class(k: LuaTokenKind) -> char {
    match k {
        LuaTokenKind::TkShortComment | LuaTokenKind::TkLongComment => 'c',
        LuaTokenKind::TkEndOfLine => 'e',
        LuaTokenKind::TkWhitespace => 'w',
        LuaTokenKind::TkShebang => 's',
        LuaTokenKind::TkEof | LuaTokenKind::None => 'x',
        _ => 'o',
    }
}

/// (C): the token-layer model (`Core.parseEvents`) vs the real event stream: direct EatTokens carry
/// the exact range (and class) of their lexer token, comment groups are tiled by doc tokens, and
/// the real tree has one Comment node per group, starting where the group starts.
pub fn tie_core(cases: &[(String, LuaLanguageLevel, bool)], report: &mut Report) {
    let mut reqs = Vec::new();
    let mut reals = Vec::new();
    for (t, level, doc) in cases {
        let (t2, l2, d2) = (t.clone(), *level, *doc);
        let r = vh_common::catch(move || {
            let (toks, evs, _) = LuaParser::verif_parse_events(&t2, config(l2, d2));
            let tree = LuaParser::parse(&t2, config(l2, d2));
            let comment_starts: Vec<usize> = tree
                .get_red_root()
                .descendants()
                .filter(|n| LuaSyntaxKind::from(n.kind()) == LuaSyntaxKind::Comment)
                .map(|n| u32::from(n.text_range().start()) as usize)
                .collect();
            (toks, evs, comment_starts)
        });
        match r {
            Ok((toks, evs, cs)) => {
                let kinds: String = toks.iter().map(|t| tk_class(t.kind)).collect();
                reqs.push(format!("tree.core {} {}", if kinds.is_empty() { "-".to_string() } else { kinds }, *doc as u8));
                reals.push(Some((toks, evs, cs)));
            }
            Err(_) => report.count("tie_core_skipped_panic"),
        }
    }
    let model = run_driver(&reqs);
    let mut it = reals.into_iter().flatten();
    for (m, (t, level, doc)) in model.iter().zip(cases.iter()) {
        let Some((toks, evs, comment_starts)) = it.next() else { break };
        report.evaluations += 1;
        report.count("core_event_streams");
        let eats: Vec<(LuaTokenKind, SourceRange)> = evs.iter().filter_map(|e| match e {
            MarkEvent::EatToken { kind, range } => Some((*kind, *range)),
            _ => None,
        }).collect();
        let mut problem: Option<String> = None;
        let mut pos = 0usize; // index into eats
        let mut group_starts: Vec<usize> = Vec::new();
        let items: Vec<&str> = if m == "ok -" { vec![] } else { m.trim_start_matches("ok ").split(',').collect() };
        if !m.starts_with("ok") {
            problem = Some(format!("model answered {m}"));
        }
        for (k, item) in items.iter().enumerate() {
            if problem.is_some() { break; }
            if let Some(i) = item.strip_prefix('e') {
                let i: usize = i.parse().unwrap_or(usize::MAX);
                match (toks.get(i), eats.get(pos)) {
                    (Some(tk), Some((kind, range))) if *range == tk.range && tk_class(*kind) == tk_class(tk.kind) => pos += 1,
                    (tk, ev) => problem = Some(format!("item {k} ({item}): lexer token {:?} but event {:?}", tk, ev)),
                }
            } else if let Some(r) = item.strip_prefix('d') {
                let (a, b) = r.split_once('-').unwrap_or(("0", "0"));
                let (a, b): (usize, usize) = (a.parse().unwrap_or(0), b.parse().unwrap_or(0));
                if a >= b || b > toks.len() { problem = Some(format!("item {k} ({item}): bad group")); break; }
                let (start, end) = (toks[a].range.start_offset, toks[b - 1].range.end_offset());
                group_starts.push(start);
                let mut p = start;
                while p < end {
                    match eats.get(pos) {
                        Some((kind, range)) if range.start_offset == p && range.end_offset() <= end
                            && !matches!(kind, LuaTokenKind::TkShortComment | LuaTokenKind::TkLongComment) && range.length > 0 => {
                            p = range.end_offset();
                            pos += 1;
                        }
                        ev => { problem = Some(format!("item {k} ({item}): doc tokens do not tile {start}..{end} at {p}: {:?}", ev)); break; }
                    }
                }
                report.count("comment_groups");
            }
        }
        if problem.is_none() && pos != eats.len() {
            problem = Some(format!("{} real EatToken events beyond the model's items", eats.len() - pos));
        }
        if problem.is_none() && *doc && group_starts != comment_starts {
            problem = Some(format!("comment groups start at {:?} but the tree's Comment nodes start at {:?}", group_starts, comment_starts));
        }
        match problem {
            Some(pb) => report.mismatch(json!({"input": {"text_hex": hex(t), "text": t, "level": level_name(*level), "doc": doc},
                "model": m, "impl": pb, "tie": "correspondence tree.core (Core.parseEvents vs the EatToken events / Comment nodes of a real parse)"})),
            None => report.traces_validated += 1,
        }
    }
}

/// (B): model tree from the real event stream == real tree
pub fn tie_parse(cases: &[(String, LuaLanguageLevel, bool)], report: &mut Report) {
    let mut reqs = Vec::new();
    let mut impls = Vec::new();
    let mut kept = Vec::new();
    for (t, level, doc) in cases {
        let (t2, l2, d2) = (t.clone(), *level, *doc);
        let r = vh_common::catch(move || {
            let (_toks, evs, mark_level) = LuaParser::verif_parse_events(&t2, config(l2, d2));
            let enc = encode_events(&t2, &evs);
            let tree = LuaParser::parse(&t2, config(l2, d2));
            let mut s = String::new();
            sexpr(&tree.get_red_root(), &mut s);
            let starts = evs.iter().filter(|e| matches!(e, MarkEvent::NodeStart { kind, .. } if *kind != LuaSyntaxKind::None)).count();
            let ends = evs.iter().filter(|e| matches!(e, MarkEvent::NodeEnd)).count();
            (enc, s, mark_level, evs.len(), starts as i64 - ends as i64)
        });
        match r {
            Ok((enc, s, mark_level, nev, open)) => {
                reqs.push(format!("tree.build {enc}"));
                impls.push(format!("ok {s}"));
                kept.push((t.clone(), *level, *doc, mark_level, nev));
                // Marker.C01_mark_level_inv on the implementation: mark_level = #NodeStart(non-None) - #NodeEnd
                if open != mark_level as i64 {
                    report.mismatch(json!({"input": {"text_hex": hex(t), "text": t, "level": level_name(*level), "doc": doc},
                        "model": format!("mark_level = starts - ends = {open}"), "impl": format!("mark_level = {mark_level}"),
                        "tie": "mark_level invariant (Marker.C01_mark_level_inv) on the event stream of a real parse"}));
                }
            }
            Err(_) => report.count("tie_parse_skipped_panic"),
        }
    }
    let model = run_driver(&reqs);
    for ((m, i), (t, level, doc, mark_level, nev)) in model.iter().zip(impls.iter()).zip(kept.iter()) {
        report.evaluations += 1;
        report.count("parse_event_streams");
        report.add("parse_events_total", *nev as u64);
        if *mark_level != 0 {
            report.count("parse_final_mark_level_nonzero");
        }
        if m != i {
            report.mismatch(json!({"input": {"text_hex": hex(t), "text": t, "level": level_name(*level), "doc": doc},
                "model": m, "impl": i, "tie": "correspondence tree.build on the event stream of a real parse vs LuaParser::parse"}));
        } else {
            report.traces_validated += 1;
        }
        if report.samples.len() < 5 {
            report.sample(json!({"text": t, "level": level_name(*level), "doc": doc, "tree": m}));
        }
    }
}
