//! C02: parsing never crashes or hangs.
//! Implementation-side oracle: every case is parsed in a *child process* on a thread with a 2 MiB
//! stack (the size of a tokio worker thread) under a wall-clock budget proportional to the input
//! size, so that aborts (stack overflow) and hangs are observed instead of killing the harness.
//! Cases: nesting ladders (parentheses, tables, closures, blocks, unary/right-associative chains,
//! calls, indexes, doc-type parens/generics/unions/functions/objects/tuples …, closed and unclosed)
//! at depths around and far beyond the parser's syntax-level limit, plus large token soup.
//! Tie: the syntax-level limit reported by the parser (first depth at which the "too many syntax
//! levels" error appears on each ladder) vs the Lean skeleton model's prediction.
use crate::c01::{LEVELS, level_name, level_of};
use crate::tgen;
use emmylua_parser::LuaLanguageLevel;
use serde_json::{Value, json};
use std::collections::HashSet;
use std::io::{BufRead, BufReader, Write};
use std::process::{Command, Stdio};
use std::time::{Duration, Instant};
use vh_common::{Args, Report, Rng, hex, unhex};

pub const STACK_BYTES: usize = 2 * 1024 * 1024;

/// (name, is_doc, builder) — `n` levels of nesting
pub fn ladder(kind: &str, n: usize) -> Option<String> {
    let rep = |s: &str, n: usize| s.repeat(n);
    Some(match kind {
        "paren" => format!("x = {}1{}", rep("(", n), rep(")", n)),
        "paren-open" => format!("x = {}1", rep("(", n)),
        "paren-stat" => format!("{}f{}()", rep("(", n), rep(")", n)),
        "table" => format!("x = {}{}", rep("{", n), rep("}", n)),
        "table-open" => format!("x = {}", rep("{", n)),
        "table-field" => format!("x = {}1{}", rep("{a=", n), rep("}", n)),
        "table-index-field" => format!("x = {}1{}", rep("{[1]=", n), rep("}", n)),
        "closure" => format!("x = {}1{}", rep("function() return ", n), rep(" end", n)),
        "closure-open" => format!("x = {}1", rep("function() return ", n)),
        "func-stat" => format!("{}{}", rep("function f() ", n), rep(" end", n)),
        "local-func" => format!("{}{}", rep("local function f() ", n), rep(" end", n)),
        "do" => format!("{}{}", rep("do ", n), rep(" end", n)),
        "do-open" => rep("do ", n),
        "if" => format!("{}{}", rep("if x then ", n), rep(" end", n)),
        "if-else" => format!("{}{}", rep("if x then else ", n), rep(" end", n)),
        "elseif-chain" => format!("if x then {} end", rep("elseif x then ", n)),
        "while" => format!("{}{}", rep("while x do ", n), rep(" end", n)),
        "for" => format!("{}{}", rep("for i = 1, 2 do ", n), rep(" end", n)),
        "for-in" => format!("{}{}", rep("for k, v in p do ", n), rep(" end", n)),
        "repeat" => format!("{}{}", rep("repeat ", n), rep(" until x", n)),
        "unary-minus" => format!("x = {}1", rep("- ", n)),
        "unary-not" => format!("x = {}1", rep("not ", n)),
        "concat" => format!("x = {}a", rep("a .. ", n)),
        "pow" => format!("x = {}a", rep("a ^ ", n)),
        "plus" => format!("x = {}a", rep("a + ", n)),
        "and-or" => format!("x = {}a", rep("a and b or ", n)),
        "call" => format!("x = {}1{}", rep("f(", n), rep(")", n)),
        "call-open" => format!("x = {}1", rep("f(", n)),
        "index" => format!("x = {}1{}", rep("a[", n), rep("]", n)),
        "dot-chain" => format!("x = a{}", rep(".b", n)),
        "method-chain" => format!("x = a{}", rep(":b()", n)),
        "call-chain" => format!("f{}", rep("()", n)),
        "string-call" => format!("f{}", rep("'s'", n)),
        "ternary" => format!("x = {}a{}", rep("a ? ", n), rep(" : a", n)),
        "semicolons" => rep(";", n),
        "labels" => rep("::a:: ", n),
        "return-nest" => format!("{}{}", rep("do return ", n), rep(" end", n)),
        "mixed" => format!("x = {}1{}", rep("({f(function() return ", n), rep(" end)})", n)),
        "ends" => rep("end ", n),
        "closers" => rep(")]} ", n),
        "long-bracket" => format!("x = {}", rep("[", n)),
        "long-string-eq" => format!("x = [{}[", rep("=", n)),
        "comment-lines" => rep("-- c\n", n),
        "doc-lines" => format!("{}local x", rep("---@field a number\n", n)),
        "doc-paren" => format!("---@type {}A{}\nlocal x", rep("(", n), rep(")", n)),
        "doc-paren-open" => format!("---@type {}A\nlocal x", rep("(", n)),
        "doc-generic" => format!("---@type {}A{}\nlocal x", rep("A<", n), rep(">", n)),
        "doc-generic-open" => format!("---@type {}A\nlocal x", rep("A<", n)),
        "doc-union" => format!("---@type {}A\nlocal x", rep("A|", n)),
        "doc-intersection" => format!("---@type {}A\nlocal x", rep("A&", n)),
        "doc-array" => format!("---@type A{}\nlocal x", rep("[]", n)),
        "doc-nullable" => format!("---@type A{}\nlocal x", rep("?", n)),
        "doc-fun" => format!("---@type {}A{}\nlocal x", rep("fun(a: ", n), rep(")", n)),
        "doc-fun-ret" => format!("---@type {}A\nlocal x", rep("fun(): ", n)),
        "doc-object" => format!("---@type {}A{}\nlocal x", rep("{a: ", n), rep("}", n)),
        "doc-tuple" => format!("---@type {}A{}\nlocal x", rep("[", n), rep("]", n)),
        "doc-keyof" => format!("---@type {}A\nlocal x", rep("keyof ", n)),
        "doc-conditional" => format!("---@alias X {}A{}\n", rep("A extends B and (", n), rep(") or C", n)),
        "doc-conditional-chain" => format!("---@alias X {}A{}\n", rep("A extends B and ", n), rep(" or C", n)),
        "doc-conditional-else-chain" => format!("---@alias X {}A\n", rep("A extends B and C or ", n)),
        "doc-multiline-union" => format!("---@alias X\n{}\n", rep("---| 'a'\n", n)),
        "doc-param-fun" => format!("---@param a {}A{}\nfunction f(a) end", rep("fun(x: ", n), rep("): A", n)),
        "doc-overload" => format!("---@overload {}A{}\nlocal x", rep("fun(a: ", n), rep(")", n)),
        "doc-class-generic" => format!("---@class A<{}T{}>\nlocal x", rep("T: A<", n), rep(">", n)),
        "doc-cast" => format!("---@cast x {}A{}\n", rep("(", n), rep(")", n)),
        "doc-attribute" => format!("---@[{}a{}]\nlocal x", rep("a(", n), rep(")", n)),
        "doc-in-nest" => format!("x = {}\n---@type {}A{}\nlocal y = 1\n{}", rep("function()\n", n / 2 + 1), rep("(", n / 2 + 1), rep(")", n / 2 + 1), rep(" end", n / 2 + 1)),
        // nesting constructs interleaved with doc comments whose types are nested themselves, at every level:
        // code depth and doc-type depth share one level counter
        "mixed-doc-table" => format!("x = {}1{}", rep("{\n---@type ((((((((((((((((A))))))))))))))))\n", n), rep("}", n)),
        "mixed-doc-table-open" => format!("x = {}", rep("{\n---@type ((((((((((((((((A))))))))))))))))\n", n)),
        "mixed-doc-paren" => format!("x = {}1{}", rep("(\n---@type A<A<A<A<A<A<A<A<A<A<A<A<A<A<A<A<A>>>>>>>>>>>>>>>>\n", n.min(5000)), rep(")", n.min(5000))),
        "mixed-doc-call" => format!("x = {}1{}", rep("f(\n---@type fun(a: fun(a: fun(a: fun(a: fun(a: fun(a: fun(a: fun(a: fun(a: fun(a: A))))))))))\n", n.min(5000)), rep(")", n.min(5000))),
        "mixed-doc-closure" => format!("x = {}1{}", rep("function()\n---@type {a: {a: {a: {a: {a: {a: {a: {a: {a: {a: A}}}}}}}}}}\nreturn ", n), rep(" end", n)),
        "mixed-doc-do" => format!("{}{}", rep("---@type ((((((((((((((((A))))))))))))))))\ndo\n", n), rep("end\n", n)),
        "mixed-doc-if" => format!("{}{}", rep("---@type [[[[[[[[[[[[[[[[A]]]]]]]]]]]]]]]]\nif x then\n", n), rep("end\n", n)),
        "mixed-doc-func" => format!("{}{}", rep("---@param a fun(x: fun(x: fun(x: fun(x: fun(x: fun(x: fun(x: fun(x: A))))))))\nfunction f(a)\n", n), rep("end\n", n)),
        "mixed-doc-deep-type" => format!("x = {}1{}", rep(&format!("{{\n---@type {}A{}\n", "(".repeat(210), ")".repeat(210)), n.min(3000)), rep("}", n.min(3000))),
        "mixed-doc-conditional" => format!("x = {}1{}", rep("{\n---@type A extends B and A extends B and A extends B and A extends B and A extends B and A or C or C or C or C or C\n", n.min(5000)), rep("}", n.min(5000))),
        "nested-comment-in-table" => format!("x = {}\n--- doc\n1{}", rep("{", n), rep("}", n)),
        _ => return None,
    })
}

pub const LADDERS: &[&str] = &[
    "paren", "paren-open", "paren-stat", "table", "table-open", "table-field", "table-index-field", "closure", "closure-open",
    "func-stat", "local-func", "do", "do-open", "if", "if-else", "elseif-chain", "while", "for", "for-in", "repeat",
    "unary-minus", "unary-not", "concat", "pow", "plus", "and-or", "call", "call-open", "index", "dot-chain", "method-chain",
    "call-chain", "string-call", "ternary", "semicolons", "labels", "return-nest", "mixed", "ends", "closers", "long-bracket",
    "long-string-eq", "comment-lines", "doc-lines", "doc-paren", "doc-paren-open", "doc-generic", "doc-generic-open", "doc-union",
    "doc-intersection", "doc-array", "doc-nullable", "doc-fun", "doc-fun-ret", "doc-object", "doc-tuple", "doc-keyof",
    "doc-conditional", "doc-conditional-chain", "doc-conditional-else-chain", "doc-multiline-union", "doc-param-fun", "doc-overload", "doc-class-generic", "doc-cast", "doc-attribute",
    "doc-in-nest", "nested-comment-in-table",
    "mixed-doc-table", "mixed-doc-table-open", "mixed-doc-paren", "mixed-doc-call", "mixed-doc-closure", "mixed-doc-do", "mixed-doc-if",
    "mixed-doc-func", "mixed-doc-deep-type", "mixed-doc-conditional",
];

/// child mode: one case per stdin line `<level> <doc 0|1> <hex text>`; one answer line per case
pub fn child_main() {
    let stdin = std::io::stdin();
    let stdout = std::io::stdout();
    {
        let mut o = stdout.lock();
        let _ = writeln!(o, "ready");
        let _ = o.flush();
    }
    // one long-lived worker with the stack size of a tokio worker thread; a stack overflow aborts the
    // whole process, which is what the parent observes
    type Job = (LuaLanguageLevel, bool, String);
    type Res = Option<(usize, bool, usize, Option<String>)>;
    let (jtx, jrx) = std::sync::mpsc::channel::<Job>();
    let (rtx, rrx) = std::sync::mpsc::channel::<Res>();
    std::thread::Builder::new()
        .stack_size(STACK_BYTES)
        .spawn(move || {
            // self-test of the watchdog (never set by `check`): inputs containing the marker behave like a
            // parser that never returns and keeps allocating
            let selftest = std::env::var("VH_TREE_SELFTEST_HANG").ok();
            for (level, doc, text) in jrx {
                if let Some(m) = &selftest {
                    if text.contains(m.as_str()) {
                        let mut junk: Vec<Vec<u8>> = Vec::new();
                        loop {
                            junk.push(vec![1u8; 1 << 20]);
                            std::thread::sleep(Duration::from_micros(200));
                        }
                    }
                }
                // parse + the full C01 oracle (text equality, token contiguity, lexer tiling)
                let f = crate::c01::oracle_text_ex(&text, level, doc);
                let panicked = f.failure.as_deref().map(|m| m.starts_with("panic:")).unwrap_or(false);
                let r = if panicked { None } else { Some((f.errors, f.too_deep, f.lexer_tokens, f.failure)) };
                if rtx.send(r).is_err() {
                    break;
                }
            }
        })
        .expect("spawn");
    for line in stdin.lock().lines() {
        let Ok(line) = line else { break };
        let mut it = line.split(' ');
        let level = level_of(it.next().unwrap_or("Lua55"));
        let doc = it.next() == Some("1");
        let text = unhex(it.next().unwrap_or("-")).unwrap_or_default();
        let t0 = Instant::now();
        if jtx.send((level, doc, text)).is_err() {
            break;
        }
        let res = rrx.recv();
        let us = t0.elapsed().as_micros();
        let mut out = stdout.lock();
        match res {
            Ok(Some((nerr, too_deep, ntoks, failure))) => {
                let fh = failure.as_deref().map(hex).unwrap_or_else(|| "-".to_string());
                let _ = writeln!(out, "ok {nerr} {} {} {us} {ntoks} {fh}", too_deep as u8, failure.is_none() as u8);
            }
            Ok(None) => {
                let _ = writeln!(out, "panic 0 0 0 {us} 0 -");
            }
            Err(_) => break,
        }
        let _ = out.flush();
    }
}

#[derive(Clone)]
pub struct Case {
    pub text: String,
    pub level: LuaLanguageLevel,
    pub doc: bool,
    pub label: String,
    pub depth: usize,
}

#[derive(Debug, Clone)]
pub enum Outcome {
    Ok { errors: usize, too_deep: bool, lossless: bool, micros: u128, lexer_tokens: usize, failure: Option<String> },
    Panic,
    Crash(String), // child died: stack overflow / abort
    Timeout(u128),
    /// not run: the run already spent its allowance on inputs the parser did not return on
    Skipped,
}

impl Outcome {
    pub fn describe(&self) -> String {
        match self {
            Outcome::Ok { .. } => "ok".into(),
            Outcome::Panic => "LuaParser::parse panicked".into(),
            Outcome::Crash(st) => format!("the child process died while parsing on a 2 MiB stack / 4 GiB address space ({st}): stack overflow, abort or out of memory"),
            Outcome::Timeout(ms) => format!("no result within the budget of {ms} ms (hang or far beyond linear time)"),
            Outcome::Skipped => "skipped".into(),
        }
    }
}

struct Child {
    proc: std::process::Child,
    stdin: std::process::ChildStdin,
    lines: std::sync::mpsc::Receiver<String>,
}

fn spawn_child() -> Child {
    let exe = std::env::current_exe().expect("exe");
    // 4 GiB address-space limit: a memory blow-up (e.g. an error list growing without bound) ends as an
    // allocation failure (abort) of the child, not as an out-of-memory condition of the machine
    let mut proc = Command::new("sh")
        .arg("-c")
        .arg("ulimit -v 4194304 2>/dev/null; exec \"$0\" c02-child")
        .arg(exe)
        .stdin(Stdio::piped())
        .stdout(Stdio::piped())
        .stderr(Stdio::null())
        .spawn()
        .expect("child");
    let stdin = proc.stdin.take().unwrap();
    let stdout = proc.stdout.take().unwrap();
    let (tx, rx) = std::sync::mpsc::channel();
    std::thread::spawn(move || {
        for l in BufReader::new(stdout).lines() {
            match l {
                Ok(l) => { if tx.send(l).is_err() { break; } }
                Err(_) => break,
            }
        }
    });
    // handshake: process start-up is not part of any case's budget
    let _ = rx.recv_timeout(Duration::from_secs(60));
    Child { proc, stdin, lines: rx }
}

/// budget: generous constant + linear part (the property: "roughly linear time")
pub fn budget(len: usize) -> Duration {
    Duration::from_millis(3000) + Duration::from_micros((len as u64) * 40)
}

fn case_line(c: &Case) -> String {
    format!("{} {} {}\n", level_name(c.level), c.doc as u8, hex(&c.text))
}

fn parse_answer(l: &str) -> Outcome {
    let f: Vec<&str> = l.split(' ').collect();
    if f[0] == "ok" && f.len() >= 5 {
        Outcome::Ok {
            errors: f[1].parse().unwrap_or(0),
            too_deep: f[2] == "1",
            lossless: f[3] == "1",
            micros: f[4].parse().unwrap_or(0),
            lexer_tokens: f.get(5).and_then(|x| x.parse().ok()).unwrap_or(0),
            failure: f.get(6).and_then(|x| if *x == "-" { None } else { unhex(x) }),
        }
    } else {
        Outcome::Panic
    }
}

/// one synchronous attempt at one case on a fresh child (used to confirm a failure)
fn attempt_alone(c: &Case, b: Duration) -> Outcome {
    let mut child = spawn_child();
    let _ = child.stdin.write_all(case_line(c).as_bytes()).and_then(|_| child.stdin.flush());
    let o = match child.lines.recv_timeout(b) {
        Ok(l) => parse_answer(&l),
        Err(std::sync::mpsc::RecvTimeoutError::Timeout) => Outcome::Timeout(b.as_millis()),
        Err(std::sync::mpsc::RecvTimeoutError::Disconnected) => {
            let status = child.proc.wait().map(|s| format!("{s}")).unwrap_or_else(|e| format!("{e}"));
            Outcome::Crash(status)
        }
    };
    let _ = child.proc.kill();
    let _ = child.proc.wait();
    o
}

/// Run every case in a watchdog child process. Cases are streamed to the child (a writer thread keeps
/// its stdin full), answers are read in order; the budget of a case runs from the previous answer.
/// A missing answer (timeout) or a dead child (stack overflow, abort, allocation failure) is
/// attributed to the first unanswered case, confirmed by up to two more attempts on a fresh child
/// (the machine may just be busy) — only for the first few failures of a run — and the run continues
/// with the next case on a new child.
pub fn run_cases(cases: &[Case]) -> Vec<Outcome> {
    let mut out: Vec<Outcome> = Vec::with_capacity(cases.len());
    let mut confirmed = 0usize;
    // wall-clock allowance for inputs the parser does not return on: when a defect makes very many
    // generated inputs hang, the first failures are reported concretely and the rest is skipped, so that
    // the check itself always ends
    let allowance = Duration::from_secs(if cases.len() > 500_000 { 900 } else { 240 });
    let mut spent = Duration::ZERO;
    while out.len() < cases.len() {
        if spent > allowance {
            out.push(Outcome::Skipped);
            continue;
        }
        let first = out.len();
        let child = spawn_child();
        let Child { mut proc, stdin, lines } = child;
        let failed: Option<Outcome> = std::thread::scope(|sc| {
            let rest = &cases[first..];
            sc.spawn(move || {
                let mut w = std::io::BufWriter::with_capacity(1 << 16, stdin);
                for c in rest {
                    if w.write_all(case_line(c).as_bytes()).is_err() {
                        return;
                    }
                    // keep latency low for the case the reader is waiting for
                    if w.flush().is_err() {
                        return;
                    }
                }
            });
            let mut res = None;
            while out.len() < cases.len() {
                let c = &cases[out.len()];
                let b = budget(c.text.len());
                match lines.recv_timeout(b) {
                    Ok(l) => out.push(parse_answer(&l)),
                    Err(std::sync::mpsc::RecvTimeoutError::Timeout) => {
                        res = Some(Outcome::Timeout(b.as_millis()));
                        break;
                    }
                    Err(std::sync::mpsc::RecvTimeoutError::Disconnected) => {
                        let status = proc.wait().map(|s| format!("{s}")).unwrap_or_else(|e| format!("{e}"));
                        res = Some(Outcome::Crash(status));
                        break;
                    }
                }
            }
            // stop the child (this also unblocks the writer thread: its pipe breaks)
            let _ = proc.kill();
            let _ = proc.wait();
            res
        });
        if let Some(mut o) = failed {
            let c = &cases[out.len()];
            let b = budget(c.text.len());
            let t_fail = Instant::now();
            if matches!(o, Outcome::Timeout(_)) {
                spent += b;
            }
            if confirmed < 6 {
                for _ in 0..2 {
                    let o2 = attempt_alone(c, b);
                    if matches!(o2, Outcome::Ok { .. }) {
                        o = o2;
                        break;
                    }
                    o = o2;
                }
            }
            if !matches!(o, Outcome::Ok { .. }) {
                confirmed += 1;
            }
            spent += t_fail.elapsed();
            out.push(o);
        }
    }
    out
}

/// ladders whose *tree* depth grows with n although the parser does not recurse: left-nested
/// chains built iteratively with `precede` (suffix chains, left-associative operators, doc
/// unions/arrays/nullables) and `local function` nests flattened after the syntax-level limit
/// (a swallowed error leaves one node open per statement). rowan drops and re-hashes green trees
/// recursively, so very deep trees overflow a 2 MiB stack / take quadratic time.
pub const DEEP_TREE_LADDERS: &[&str] = &[
    "and-or", "call-chain", "doc-array", "doc-intersection", "doc-nullable", "doc-union", "dot-chain", "local-func",
    "method-chain", "plus", "string-call",
];
pub const DEEP_TREE_MIN: usize = 8000;

/// known-finding class, computed from the input only
pub fn classify(c: &Case) -> Value {
    if c.depth >= DEEP_TREE_MIN && DEEP_TREE_LADDERS.contains(&c.label.as_str()) {
        json!("iterative-chain-depth>=8000")
    } else {
        Value::Null
    }
}

pub fn run(args: &Args, report: &mut Report) {
    let mut rng = Rng::new(args.seed);
    report.rule = format!("child process, parse on a thread with a {} byte stack, budget 3 s + 40 us/byte, over budget only if three attempts in a row are; {} nesting ladders (closed and unclosed, Lua and doc types) at depths around the syntax-level limit and far beyond, large token soup, NUL/CR/BOM variants; language levels rotated. Non-trivial: nesting depth >= 50 or text >= 1 KiB; distinct by (text, level, doc)", STACK_BYTES, LADDERS.len());
    let mut cases: Vec<Case> = Vec::new();
    if let Some(p) = &args.replay {
        let v: Value = serde_json::from_str(&std::fs::read_to_string(p).expect("replay file")).expect("json");
        let inp = &v["input"];
        let text = if let Some(l) = inp.get("ladder").and_then(|l| l.as_str()) {
            ladder(l, inp["depth"].as_u64().unwrap_or(1) as usize).unwrap_or_default()
        } else {
            unhex(inp["text_hex"].as_str().unwrap_or("-")).unwrap_or_default()
        };
        cases.push(Case { text, level: level_of(inp["level"].as_str().unwrap_or("Lua55")), doc: inp["doc"].as_bool().unwrap_or(true),
            label: inp["ladder"].as_str().unwrap_or("text").to_string(), depth: inp["depth"].as_u64().unwrap_or(0) as usize });
    } else {
        let depths: Vec<usize> = if args.thorough() {
            vec![1, 10, 50, 100, 150, 190, 198, 199, 200, 201, 202, 250, 400, 500, 1000, 2000, 5000, 20_000, 100_000]
        } else {
            vec![1, 10, 100, 198, 199, 200, 201, 250, 500, 2000, 20_000]
        };
        for (li, l) in LADDERS.iter().enumerate() {
            for (di, d) in depths.iter().enumerate() {
                let level = LEVELS[(li + di) % 8];
                cases.push(Case { text: ladder(l, *d).unwrap(), level, doc: true, label: l.to_string(), depth: *d });
                if *d == 500 || *d == 201 {
                    cases.push(Case { text: ladder(l, *d).unwrap(), level: LuaLanguageLevel::LuaJIT, doc: false, label: l.to_string(), depth: *d });
                }
            }
        }
        // token soup, small and large
        let only_ladders = args.extra.get("only").map(|s| s == "ladder").unwrap_or(false);
        let (n_small, n_big, big_pieces) = if only_ladders { (0, 0, 0) } else if args.thorough() { (20_000, 60, 120_000) } else { (2_500, 6, 12_000) };
        for _ in 0..n_small {
            let (t, _) = tgen::text(&mut rng, 40);
            cases.push(Case { text: t, level: LEVELS[rng.below(8)], doc: rng.chance(3, 4), label: "soup".into(), depth: 0 });
        }
        for _ in 0..n_big {
            let (t, _) = tgen::text(&mut rng, big_pieces);
            cases.push(Case { text: t, level: LEVELS[rng.below(8)], doc: true, label: "big-soup".into(), depth: 0 });
        }
        // structured families shared with C01 (rare prefixes, doc-tag lines in contexts, comments at the limit)
        if !only_ladders {
            let mut fam = crate::c01::prefix_family(args.thorough());
            fam.extend(crate::c01::doc_family(false));
            fam.extend(crate::c01::limit_ladders(false));
            let step = if args.thorough() { 1 } else { 3 };
            for (i, t) in fam.into_iter().enumerate().step_by(step) {
                cases.push(Case { text: t, level: LEVELS[i % 8], doc: i % 5 != 0, label: "family".into(), depth: 0 });
            }
        }
        // repeated statements: long flat files must stay linear
        let flat = if args.thorough() { 200_000 } else { 20_000 };
        cases.push(Case { text: "local a = f(1, 'x') -- c\n".repeat(flat), level: LuaLanguageLevel::Lua54, doc: true, label: "flat".into(), depth: 0 });
        cases.push(Case { text: "---@param a number\n".repeat(flat), level: LuaLanguageLevel::Lua54, doc: true, label: "flat-doc".into(), depth: 0 });
        cases.push(Case { text: "x = {".to_string() + &"1, ".repeat(flat) + "}", level: LuaLanguageLevel::Lua54, doc: true, label: "flat-table".into(), depth: 0 });
    }
    let outcomes = run_cases(&cases);
    let mut seen: HashSet<(String, String, bool)> = HashSet::new();
    let mut first_too_deep: std::collections::BTreeMap<String, usize> = Default::default();
    let mut max_us_per_byte: f64 = 0.0;
    for (c, o) in cases.iter().zip(outcomes.iter()) {
        report.evaluations += 1;
        report.count(&format!("kind_{}", if c.depth > 0 { "ladder" } else { c.label.as_str() }));
        if (c.depth >= 50 || c.text.len() >= 1024) && seen.insert((c.text.clone(), level_name(c.level).to_string(), c.doc)) {
            report.distinct_nontrivial += 1;
        }
        let input = if c.depth > 0 {
            json!({"ladder": c.label, "depth": c.depth, "level": level_name(c.level), "doc": c.doc, "bytes": c.text.len()})
        } else {
            json!({"text_hex": hex(&c.text), "level": level_name(c.level), "doc": c.doc, "bytes": c.text.len(), "label": c.label})
        };
        match o {
            Outcome::Ok { errors, too_deep, lossless, micros, failure, .. } => {
                if *too_deep {
                    report.count("reported_too_many_syntax_levels");
                    if c.depth > 0 {
                        let e = first_too_deep.entry(c.label.clone()).or_insert(usize::MAX);
                        *e = (*e).min(c.depth);
                    }
                }
                if *errors > 0 { report.count("with_syntax_errors"); }
                if !lossless {
                    report.oracle_failure(json!({"input": input, "what": format!("parsed without crash but not lossless: {}", failure.clone().unwrap_or_default()), "class": classify(c)}));
                }
                if c.text.len() >= 4096 {
                    max_us_per_byte = max_us_per_byte.max(*micros as f64 / c.text.len() as f64);
                }
                if report.samples.len() < 5 && c.depth >= 500 {
                    report.sample(json!({"input": input, "errors": errors, "too_many_levels_reported": too_deep, "micros": micros.to_string()}));
                }
            }
            Outcome::Skipped => report.count("skipped_after_failure_allowance"),
            other => report.oracle_failure(json!({"input": input, "what": format!("parser did not return a tree on this input: {}", other.describe()), "class": classify(c)})),
        }
    }
    // tie of the token-layer model used by the C02 theorems (`Core.bump`, `Core.chunkLoop`): the real
    // event streams of the small cases that parsed fine in the child
    let tie_cases: Vec<(String, LuaLanguageLevel, bool)> = cases.iter().zip(outcomes.iter())
        .filter(|(c, o)| c.text.len() <= 4096 && matches!(o, Outcome::Ok { .. }))
        .map(|(c, _)| (c.text.clone(), c.level, c.doc))
        .take(if args.thorough() { 20_000 } else { 3_000 })
        .collect();
    crate::c01::tie_core(&tie_cases, report);
    report.extra.insert("first_depth_reporting_too_many_levels".into(), json!(first_too_deep));
    report.extra.insert("max_micros_per_byte_on_inputs_over_4KiB".into(), json!(max_us_per_byte));
    report.extra.insert("stack_bytes".into(), json!(STACK_BYTES));
}
