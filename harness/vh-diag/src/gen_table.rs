//! T-exec generator for C20: evaluates the real decision functions of `DiagnosticContext`
//! (through the `verif` hook `diagnostic_verif`) over their whole finite domain and writes the table
//! as a Lean file. Invoked by checklib/gen/diag_table.py as `vh-diag gen-table --out FILE`.
use crate::common::all_code_names;
use emmylua_code_analysis::{DiagnosticCode, DiagnosticSeveritySetting, Emmyrc, VirtualWorkspace, diagnostic_verif as hook};
use emmylua_parser::LuaLanguageLevel;
use std::fmt::Write;
use std::str::FromStr;
use vh_common::Args;

pub const LEVELS: &[(LuaLanguageLevel, &str)] = &[
    (LuaLanguageLevel::Lua51, "Lua51"),
    (LuaLanguageLevel::LuaJIT2, "LuaJIT2"),
    (LuaLanguageLevel::LuaJIT, "LuaJIT"),
    (LuaLanguageLevel::LuaJIT3, "LuaJIT3"),
    (LuaLanguageLevel::Lua52, "Lua52"),
    (LuaLanguageLevel::Lua53, "Lua53"),
    (LuaLanguageLevel::Lua54, "Lua54"),
    (LuaLanguageLevel::Lua55, "Lua55"),
];

pub fn sev_num(s: Option<lsp_types::DiagnosticSeverity>) -> u32 {
    match s {
        Some(lsp_types::DiagnosticSeverity::ERROR) => 1,
        Some(lsp_types::DiagnosticSeverity::WARNING) => 2,
        Some(lsp_types::DiagnosticSeverity::INFORMATION) => 3,
        Some(lsp_types::DiagnosticSeverity::HINT) => 4,
        _ => 0,
    }
}

pub fn sev_setting(n: u32) -> Option<DiagnosticSeveritySetting> {
    match n {
        1 => Some(DiagnosticSeveritySetting::Error),
        2 => Some(DiagnosticSeveritySetting::Warning),
        3 => Some(DiagnosticSeveritySetting::Information),
        4 => Some(DiagnosticSeveritySetting::Hint),
        _ => None,
    }
}

fn b(x: bool) -> &'static str {
    if x { "true" } else { "false" }
}

pub fn file_text(name: &str, meta: bool, fe: bool, fd: bool) -> String {
    let mut t = String::new();
    if meta {
        t.push_str("---@meta\n");
    }
    if fe {
        writeln!(t, "---@diagnostic enable: {name}").unwrap();
    }
    if fd {
        writeln!(t, "---@diagnostic disable: {name}").unwrap();
    }
    t.push_str("local _ = 1\n");
    t
}

pub fn run(args: &Args) {
    let names = all_code_names();
    let mut out = String::new();
    out.push_str("/-! GENERATED on every run by checklib/gen/diag_table.py (`vh-diag gen-table`) by executing the real\n");
    out.push_str("`DiagnosticContext::is_checker_enable_by_code`, `get_severity`, `is_code_default_enable`,\n");
    out.push_str("`get_default_severity` of /repo over their whole domain. Do not edit. -/\n");
    out.push_str("namespace Gen.Diag\n\n");
    writeln!(out, "def codeNames : List String := [{}]\n", names.iter().map(|n| format!("\"{n}\"")).collect::<Vec<_>>().join(", ")).unwrap();
    for (i, n) in names.iter().enumerate() {
        writeln!(out, "def c_{} : Nat := {i}", n.replace('-', "_")).unwrap();
    }
    writeln!(out, "\ndef levelNames : List String := [{}]", LEVELS.iter().map(|l| format!("\"{}\"", l.1)).collect::<Vec<_>>().join(", ")).unwrap();
    for (i, l) in LEVELS.iter().enumerate() {
        writeln!(out, "def lv_{} : Nat := {i}", l.1).unwrap();
    }
    let default_level = Emmyrc::default().get_language_level();
    let dl = LEVELS.iter().position(|l| l.0 == default_level).expect("default level listed");
    writeln!(out, "def lv_default : Nat := {dl}\n").unwrap();

    // --- is_checker_enable_by_code over code × {wsEnabled, wsDisabled, meta, fileEnabled, fileDisabled}
    let mut ws = VirtualWorkspace::new();
    out.push_str("/-- (code, workspace enabled, workspace disabled, meta file, file enabled, file disabled, result of\n`is_checker_enable_by_code`) at the default language level -/\n");
    out.push_str("def enableRows : List (Nat × Bool × Bool × Bool × Bool × Bool × Bool) := [\n");
    let mut rows = Vec::new();
    let mut sev_rows = Vec::new();
    for (i, n) in names.iter().enumerate() {
        let code = DiagnosticCode::from_str(n).expect("code name parses back");
        assert_eq!(code.get_name(), n.as_str(), "name round trip");
        for bits in 0..8u32 {
            let (meta, fe, fd) = (bits & 4 != 0, bits & 2 != 0, bits & 1 != 0);
            let id = ws.def_file(&format!("t_{i}_{bits}.lua"), &file_text(n, meta, fe, fd));
            for cfgbits in 0..4u32 {
                let (wse, wsd) = (cfgbits & 2 != 0, cfgbits & 1 != 0);
                let mut rc = Emmyrc::default();
                if wse {
                    rc.diagnostics.enables.push(code);
                }
                if wsd {
                    rc.diagnostics.disable.push(code);
                }
                let db = ws.analysis.compilation.get_db();
                let r = hook::checker_enabled(db, id, &rc, code);
                rows.push(format!("  ({i}, {}, {}, {}, {}, {}, {})", b(wse), b(wsd), b(meta), b(fe), b(fd), b(r)));
            }
            if bits == 0 {
                for ov in 0..5u32 {
                    let mut rc = Emmyrc::default();
                    if let Some(s) = sev_setting(ov) {
                        rc.diagnostics.severity.insert(code, s);
                    }
                    let db = ws.analysis.compilation.get_db();
                    sev_rows.push(format!("  ({i}, {ov}, {})", sev_num(hook::severity(db, id, &rc, code))));
                }
            }
        }
    }
    out.push_str(&rows.join(",\n"));
    out.push_str("]\n\n");
    out.push_str("/-- (code, language level, `is_code_default_enable`) -/\ndef defaultRows : List (Nat × Nat × Bool) := [\n");
    let mut drows = Vec::new();
    for (i, n) in names.iter().enumerate() {
        let code = DiagnosticCode::from_str(n).unwrap();
        for (k, l) in LEVELS.iter().enumerate() {
            drows.push(format!("  ({i}, {k}, {})", b(hook::default_enabled(code, l.0))));
        }
    }
    out.push_str(&drows.join(",\n"));
    out.push_str("]\n\n");
    out.push_str("/-- (code, `get_default_severity`: 1 error, 2 warning, 3 information, 4 hint) -/\ndef defaultSeverityRows : List (Nat × Nat) := [\n");
    let srows: Vec<String> = names
        .iter()
        .enumerate()
        .map(|(i, n)| format!("  ({i}, {})", sev_num(Some(hook::default_severity(DiagnosticCode::from_str(n).unwrap())))))
        .collect();
    out.push_str(&srows.join(",\n"));
    out.push_str("]\n\n");
    out.push_str("/-- (code, `diagnostics.severity` entry for the code: 0 none / 1..4, result of `get_severity`: 0 = None) -/\ndef severityRows : List (Nat × Nat × Nat) := [\n");
    out.push_str(&sev_rows.join(",\n"));
    out.push_str("]\n\nend Gen.Diag\n");
    let changed = std::fs::read_to_string(&args.out).map(|old| old != out).unwrap_or(true);
    if changed {
        std::fs::write(&args.out, &out).expect("write table");
    }
    println!("{{\"codes\": {}, \"enable_rows\": {}, \"default_rows\": {}, \"severity_rows\": {}, \"changed\": {}}}",
        names.len(), rows.len(), drows.len(), sev_rows.len(), changed);
}
