//! C20 — configuration controls diagnostics. Beside the T-exec table (gen_table.rs + Lean bridge) this
//! runs the real `diagnose_file` on generated programs × generated configurations × placements and
//! compares with (a) the Lean model's prediction from the all-enabled run of the same program (tie,
//! `diag.config`) and (b) the six clauses of the property evaluated directly on the output (oracle).
use crate::common::*;
use crate::gen_table::LEVELS;
use emmylua_code_analysis::{EmmyLuaAnalysis, Emmyrc, WorkspaceFolder, WorkspaceId, file_path_to_uri};
use serde_json::{Value, json};
use std::collections::{BTreeMap, BTreeSet, HashSet};
use std::path::PathBuf;
use std::sync::Arc;
use tokio_util::sync::CancellationToken;
use vh_common::{Args, Report, Rng, hex, run_driver};

/// self-contained snippets, each raising particular codes; `#` is replaced by a unique number
const SNIPPETS: &[&str] = &[
    "g#()\n",
    "h#()\n",
    "local u# = 1\n",
    "pf(\"a#\")\n",
    "pf()\n",
    "pf(1, 2)\n",
    "---@return integer\nlocal function r#()\nend\nr#()\n",
    "---@type integer\nlocal a# = \"s\"\nprint(a#)\n",
    "---@type string?\nlocal n#\nlocal _ = n#:len()\n",
    "---@class C#\n---@field x integer\n---@type C#\nlocal v# = nil\nprint(v#.nofield)\n",
    "local t# = {a = 1, a = 2}\nprint(t#)\n",
    "local q# = 1\nlocal q# = 2\nprint(q#)\n",
    "---@deprecated\nlocal function dep#() end\ndep#()\n",
    "---@nodiscard\nlocal function nd#() return 1 end\nnd#()\n",
    "local k# <const> = 1\nk# = 2\n",
    "local m#, o# = 1\nprint(m#, o#)\n",
    "---@param a integer\nfunction G#(a, b) end\n",
    "function F#(a) return a end\n",
    "---@foobar#\n",
    "assert(g#)\n",
    "---@type NoSuchType#\nlocal tn#\nprint(tn#)\n",
    "---@param zz integer\nlocal function udp#() end\nudp#()\n",
    "---@class D#\n---@class D#\n",
    "if true then end\n",
    "---@cast\n",
    "local function w#() return 1 end\nlocal x# = w#()\nx# = nil\n",
    "for i# = 1, 2 do i# = 3 end\n",
    "local s# = \"é😀\" g#()\n",
];

#[derive(Clone, Debug)]
pub struct Case {
    body: String,
    meta: bool,
    /// spelling of the meta tag line when `meta` (`---@meta`, `---@meta _`, `---@meta no-require`, `---@meta name`, …)
    meta_line: String,
    file_enable: Vec<String>,
    file_disable: Vec<String>,
    disable: Vec<String>,
    enables: Vec<String>,
    severity: BTreeMap<String, u32>,
    globals: Vec<String>,
    globals_regex: Vec<String>,
    enable: bool,
    level: usize,
    place: char, // m main, l library, r remote, s std, o outside every workspace
}

impl Case {
    fn text(&self, neutral: bool) -> String {
        let mut t = String::new();
        let tag = if neutral { "--- " } else { "---@" };
        if self.meta {
            // kept in the raw text too: `---@meta` also changes the analysis itself (e.g. duplicate classes);
            // the raw run of a meta case is placed outside every workspace, where the meta gate is inert
            t.push_str(if self.meta_line.is_empty() { "---@meta" } else { &self.meta_line });
            t.push('\n');
        }
        for c in &self.file_enable {
            t.push_str(&format!("{tag}diagnostic enable: {c}\n"));
        }
        for c in &self.file_disable {
            t.push_str(&format!("{tag}diagnostic disable: {c}\n"));
        }
        t.push_str("---@param x integer\nlocal function pf(x) return x end\n");
        t.push_str(&self.body);
        t
    }
    fn rc_json(&self) -> Value {
        let version = match LEVELS[self.level].1 {
            "Lua51" => "Lua5.1",
            "Lua52" => "Lua5.2",
            "Lua53" => "Lua5.3",
            "Lua54" => "Lua5.4",
            "Lua55" => "Lua5.5",
            other => other,
        };
        let sev: BTreeMap<&String, &str> =
            self.severity.iter().map(|(k, v)| (k, ["", "error", "warning", "information", "hint"][*v as usize])).collect();
        json!({
            "runtime": {"version": version},
            "diagnostics": {
                "enable": self.enable, "disable": self.disable, "enables": self.enables, "severity": sev,
                "globals": self.globals, "globalsRegex": self.globals_regex,
            }
        })
    }
    fn to_json(&self) -> Value {
        json!({"body_hex": hex(&self.body), "text": self.text(false), "meta": self.meta, "meta_line": self.meta_line, "file_enable": self.file_enable,
            "file_disable": self.file_disable, "rc": self.rc_json(), "level": self.level, "place": self.place.to_string()})
    }
    fn from_json(v: &Value) -> Case {
        let strs = |x: &Value| x.as_array().map(|a| a.iter().filter_map(|s| s.as_str().map(String::from)).collect()).unwrap_or_default();
        let d = &v["rc"]["diagnostics"];
        let sev = d["severity"]
            .as_object()
            .map(|o| {
                o.iter()
                    .map(|(k, s)| (k.clone(), ["", "error", "warning", "information", "hint"].iter().position(|x| Some(*x) == s.as_str()).unwrap_or(2) as u32))
                    .collect()
            })
            .unwrap_or_default();
        Case {
            body: vh_common::unhex(v["body_hex"].as_str().unwrap_or("-")).unwrap_or_default(),
            meta: v["meta"].as_bool().unwrap_or(false),
            meta_line: v["meta_line"].as_str().unwrap_or("---@meta").to_string(),
            file_enable: strs(&v["file_enable"]),
            file_disable: strs(&v["file_disable"]),
            disable: strs(&d["disable"]),
            enables: strs(&d["enables"]),
            severity: sev,
            globals: strs(&d["globals"]),
            globals_regex: strs(&d["globalsRegex"]),
            enable: d["enable"].as_bool().unwrap_or(true),
            level: v["level"].as_u64().unwrap_or(7) as usize,
            place: v["place"].as_str().unwrap_or("m").chars().next().unwrap_or('m'),
        }
    }
}

const HOT: &[&str] = &[
    "undefined-global", "unused", "param-type-mismatch", "missing-parameter", "redundant-parameter", "missing-return",
    "assign-type-mismatch", "need-check-nil", "undefined-field", "duplicate-index", "redefined-local", "deprecated",
    "discard-returns", "local-const-reassign", "unbalanced-assignments", "incomplete-signature-doc", "missing-global-doc",
    "unknown-doc-tag", "non-literal-expressions-in-assert", "type-not-found", "undefined-doc-param", "duplicate-type",
    "unnecessary-if", "doc-syntax-error", "syntax-error", "iter-variable-reassign", "code-style-check",
];

fn pick_codes(rng: &mut Rng, names: &[String], max: usize) -> Vec<String> {
    let k = rng.below(max + 1);
    let mut v = Vec::new();
    for _ in 0..k {
        let c = if rng.chance(3, 4) { rng.pick(HOT).to_string() } else { rng.pick(names).clone() };
        if !v.contains(&c) {
            v.push(c);
        }
    }
    v
}

fn gen_case(rng: &mut Rng, names: &[String], n: u32) -> Case {
    let mut body = String::new();
    let k = rng.range(4, 12);
    for j in 0..k {
        let s = rng.pick(SNIPPETS);
        body.push_str(&s.replace('#', &format!("{}", (j as u32 * 7 + n) % 10)));
    }
    let mut severity = BTreeMap::new();
    for c in pick_codes(rng, names, 3) {
        severity.insert(c, rng.range(1, 4) as u32);
    }
    let globals = (0..rng.below(3)).map(|_| format!("{}{}", rng.pick(&["g", "h", "print", "assert"]), rng.below(10))).collect::<Vec<_>>();
    let globals = globals.into_iter().map(|g| if g.starts_with("print") { "print".into() } else if g.starts_with("assert") { "assert".into() } else { g }).collect();
    const VALID_RE: &[&str] = &["^g[0-4]$", "^h", "[13579]$", "^pr", "^(g|h)7$", "^g"];
    const INVALID_RE: &[&str] = &["(", "[A-Z", "*a", "g{2"];
    let mut globals_regex: Vec<String> = (0..rng.below(4))
        .map(|_| if rng.chance(1, 4) { rng.pick(INVALID_RE).to_string() } else { rng.pick(VALID_RE).to_string() })
        .collect();
    if rng.chance(1, 5) {
        // an invalid pattern next to valid ones: the valid ones must keep working
        globals_regex = vec![rng.pick(INVALID_RE).to_string(), rng.pick(VALID_RE).to_string()];
        if rng.chance(1, 2) {
            globals_regex.reverse();
        }
        globals_regex.push(rng.pick(VALID_RE).to_string());
    }
    let meta = rng.chance(1, 4);
    let meta_line = rng
        .pick(&[
            "---@meta", "---@meta", "---@meta _", "---@meta no-require", "---@meta mylib", "---@meta my.lib.sub", "---@meta case",
            "---@meta mylib some trailing text", "---@meta _ trailing", "--- @meta mylib", "---@meta  spaced.name",
        ])
        .to_string();
    // meta cases: mostly bare configurations (default / only `enables`), so that nothing but the meta gate hides the output
    let bare = meta && rng.chance(2, 3);
    let with_enables = rng.chance(1, 2);
    Case {
        body,
        meta,
        meta_line,
        file_enable: if !bare && rng.chance(1, 4) { pick_codes(rng, names, 2) } else { vec![] },
        file_disable: if !bare && rng.chance(1, 4) { pick_codes(rng, names, 2) } else { vec![] },
        disable: if bare { vec![] } else { pick_codes(rng, names, 5) },
        enables: if bare && !with_enables { vec![] } else { pick_codes(rng, names, 5) },
        severity,
        globals,
        globals_regex,
        enable: bare || !rng.chance(1, 20),
        level: if bare { 7 } else { *rng.pick(&[7usize, 7, 7, 7, 6, 6, 5, 4, 2, 0]) },
        place: if bare { *rng.pick(&['m', 'm', 'm', 'l', 'o']) } else { *rng.pick(&['m', 'm', 'm', 'm', 'm', 'm', 'l', 'r', 's', 'o']) },
    }
}

struct World {
    analysis: EmmyLuaAnalysis,
}

impl World {
    fn new() -> World {
        let mut analysis = EmmyLuaAnalysis::new();
        analysis.add_main_workspace(PathBuf::from("/vw/main"));
        analysis.add_library_workspace(&WorkspaceFolder::new(PathBuf::from("/vw/lib"), true));
        let mi = analysis.compilation.get_db_mut().get_module_index_mut();
        mi.add_workspace_root(PathBuf::from("/vw/std"), WorkspaceId::STD);
        mi.add_workspace_root(PathBuf::from("/vw/remote"), WorkspaceId::REMOTE);
        World { analysis }
    }
    /// diagnose `text` placed at `place` under configuration `rc`; the file is removed afterwards
    fn run(&mut self, rc: Emmyrc, place: char, text: &str) -> Option<Vec<D>> {
        self.analysis.update_config(Arc::new(rc));
        let dir = match place {
            'm' => "/vw/main",
            'l' => "/vw/lib",
            'r' => "/vw/remote",
            's' => "/vw/std",
            _ => "/elsewhere",
        };
        let uri = file_path_to_uri(&PathBuf::from(format!("{dir}/case.lua"))).expect("uri");
        let id = self.analysis.update_file_by_uri(&uri, Some(text.to_string())).expect("file id");
        let r = self.analysis.diagnose_file(id, CancellationToken::new());
        self.analysis.update_file_by_uri(&uri, None);
        r.map(|v| v.iter().map(canon).collect())
    }
}

fn rc_of(v: &Value) -> Emmyrc {
    serde_json::from_value(v.clone()).expect("emmyrc json")
}

fn global_name(d: &D) -> Option<&str> {
    d.msg.strip_prefix("undefined global variable: ")
}

pub fn run(args: &Args, report: &mut Report) {
    let mut rng = Rng::new(args.seed ^ 0xC20);
    let names = all_code_names();
    let mut cases: Vec<Case> = corpus();
    if let Some(path) = &args.replay {
        let v: Value = serde_json::from_str(&std::fs::read_to_string(path).expect("replay file")).expect("json");
        cases = vec![Case::from_json(&v["input"])];
    } else {
        let n = if args.thorough() { 20_000 } else { 500 };
        for i in 0..n {
            cases.push(gen_case(&mut rng, &names, i as u32));
        }
    }
    report.rule = "programs = 4..12 snippets out of 28 (each raising particular codes, incl. default-off ones) × configurations (diagnostics.disable / enables / severity / globals / globalsRegex (valid and invalid patterns mixed in one list) / enable, runtime.version) × file switches (---@meta in every spelling: bare, `_`, `no-require`, simple and dotted module names, with trailing text, `--- @meta`; a quarter of all cases, two thirds of them with a bare configuration (default or only `enables`); top-level ---@diagnostic enable/disable) × placement (main, library, remote, std root, outside); each case is diagnosed once with everything enabled and the file switches neutralised (raw) and once as configured; non-trivial = raw run has >= 3 distinct codes and the configuration sets at least one switch; distinct by (text, configuration, placement)".into();

    let mut world = World::new();
    let mut seen = HashSet::new();
    let mut reqs = Vec::new();
    struct Run {
        case: Case,
        raw: Vec<D>,
        actual: Option<Vec<D>>,
        codes: Vec<usize>,
        req: usize,
    }
    let mut runs: Vec<Run> = Vec::new();
    for case in cases {
        report.evaluations += 1;
        let input = case.to_json();
        let all_on = json!({"runtime": case.rc_json()["runtime"], "diagnostics": {"enables": names}});
        let (rawtext, text) = (case.text(true), case.text(false));
        let rc = case.rc_json();
        let r = vh_common::catch(std::panic::AssertUnwindSafe(|| {
            let raw = world.run(rc_of(&all_on), if case.meta { 'o' } else { 'm' }, &rawtext);
            let actual = world.run(rc_of(&rc), case.place, &text);
            (raw, actual)
        }));
        let (raw, actual) = match r {
            Ok((Some(raw), actual)) => (raw, actual),
            Ok((None, _)) => {
                report.mismatch(json!({"input": input, "tie": "raw run returned None"}));
                continue;
            }
            Err(e) => {
                report.mismatch(json!({"input": input, "tie": format!("panic: {e}")}));
                world = World::new();
                continue;
            }
        };
        let raw_codes: BTreeSet<&str> = raw.iter().map(|d| d.code.as_str()).collect();
        for c in &raw_codes {
            report.count(&format!("raw_code:{c}"));
        }
        report.count(&format!("place:{}", case.place));
        if case.meta {
            report.count("meta");
            report.count(&format!("meta:{}@{}", case.meta_line.trim_start_matches("---").trim(), case.place));
        }
        if case.globals_regex.iter().any(|r| regex::Regex::new(r).is_err()) && case.globals_regex.iter().any(|r| regex::Regex::new(r).is_ok()) {
            report.count("globalsRegex:invalid+valid");
        }
        if !case.enable {
            report.count("enable=false");
        }
        let switches = !case.disable.is_empty() || !case.enables.is_empty() || !case.severity.is_empty() || case.meta
            || !case.file_enable.is_empty() || !case.file_disable.is_empty() || !case.globals.is_empty() || !case.globals_regex.is_empty();
        if raw_codes.len() >= 3 && switches && seen.insert(format!("{input}")) {
            report.distinct_nontrivial += 1;
        }
        let codes: Vec<usize> = raw_codes.iter().filter_map(|c| code_id(&names, c)).collect();
        let ids = |v: &[String]| enc_list(&v.iter().filter_map(|c| code_id(&names, c)).collect::<Vec<_>>());
        let ovs = if case.severity.is_empty() {
            "-".to_string()
        } else {
            case.severity.iter().filter_map(|(c, s)| code_id(&names, c).map(|i| format!("{i}:{s}"))).collect::<Vec<_>>().join(",")
        };
        let kind = match case.place {
            'm' => "m",
            'l' | 'r' => "l",
            's' => "s",
            _ => "o",
        };
        let req = reqs.len();
        reqs.push(format!("diag.config {} {} {} {} {} {} {} {} {} {}", enc_list(&codes), ids(&case.enables), ids(&case.disable),
            if case.meta { 1 } else { 0 }, ids(&case.file_enable), ids(&case.file_disable), case.level, ovs,
            if case.enable { 1 } else { 0 }, kind));
        runs.push(Run { case, raw, actual, codes, req });
    }
    // the real standard library: every std file reports nothing; a main file that uses it does
    if args.replay.is_none() {
        let r = vh_common::catch(|| {
            let mut ws = emmylua_code_analysis::VirtualWorkspace::new_with_init_std_lib();
            let db = ws.analysis.compilation.get_db();
            let ids = db.get_vfs().get_all_file_ids();
            let mut std_files = 0u64;
            let mut bad = Vec::new();
            for id in ids {
                if db.get_module_index().get_workspace_id(id).map(|w| w.is_std()).unwrap_or(false) {
                    std_files += 1;
                    if let Some(ds) = ws.analysis.diagnose_file(id, CancellationToken::new()) {
                        if !ds.is_empty() {
                            bad.push(format!("{:?}: {} diagnostics", db.get_vfs().get_file_path(&id), ds.len()));
                        }
                    }
                }
            }
            let (_, main) = diagnose(&mut ws, "uses_std.lua", "print(string.format(\"%d\", 1))\nundefined_name()\n");
            (std_files, bad, main)
        });
        match r {
            Ok((n, bad, main)) => {
                report.add("real_std_files_checked", n);
                report.evaluations += n;
                if let Some(b) = bad.first() {
                    report.oracle_failure(json!({"input": {"std_file": b}, "what": format!("standard-library file reports: {b}"), "class": null}));
                }
                let main = main.unwrap_or_default();
                if n == 0 || main.len() != 1 || main[0].code != "undefined-global" {
                    report.oracle_failure(json!({"input": {"text": "print(string.format(\"%d\", 1))\nundefined_name()\n"},
                        "what": format!("with the std library loaded ({n} files) a main file using it should report exactly the one undefined global, got {main:?}"), "class": null}));
                }
            }
            Err(e) => report.oracle_failure(json!({"input": {"std": true}, "what": format!("panic while loading/diagnosing the std library: {e}"), "class": null})),
        }
    }
    let answers = run_driver(&reqs);
    for r in &runs {
        let case = &r.case;
        let input = case.to_json();
        let regexes: Vec<regex::Regex> = case.globals_regex.iter().filter_map(|s| regex::Regex::new(s).ok()).collect();
        let allowed = |name: &str| case.globals.iter().any(|g| g == name) || regexes.iter().any(|re| re.is_match(name));
        let mut actual_sorted = r.actual.clone();
        if let Some(a) = &mut actual_sorted {
            a.sort();
        }
        // ---------------- tie
        let ans = &answers[r.req];
        if ans == "ok none" {
            if r.actual.is_some() {
                report.mismatch(json!({"input": input, "tie": "diag.config", "model": ans, "impl": format!("{:?}", r.actual)}));
            } else {
                report.traces_validated += 1;
            }
        } else if let Some(list) = ans.strip_prefix("ok ") {
            let per: Vec<u32> = if list.is_empty() { vec![] } else { list.split(',').map(|x| x.parse().unwrap_or(99)).collect() };
            let mut predicted: Vec<D> = Vec::new();
            for d in &r.raw {
                let Some(ci) = code_id(&names, &d.code) else { continue };
                let Some(k) = r.codes.iter().position(|c| *c == ci) else { continue };
                if per.get(k).copied().unwrap_or(0) == 0 {
                    continue;
                }
                if let Some(n) = global_name(d) {
                    if allowed(n) {
                        continue;
                    }
                }
                let mut e = d.clone();
                e.sev = Some(per[k] as i32);
                predicted.push(e);
            }
            predicted.sort();
            match &actual_sorted {
                Some(a) if *a == predicted => report.traces_validated += 1,
                other => {
                    let a = other.clone().unwrap_or_default();
                    let only_model: Vec<&D> = predicted.iter().filter(|d| !a.contains(d)).collect();
                    let only_impl: Vec<&D> = a.iter().filter(|d| !predicted.contains(d)).collect();
                    report.mismatch(json!({"input": input, "tie": "correspondence diag.config (diagnose_file vs model prediction from the all-enabled run)",
                        "model": ans, "impl_is_none": other.is_none(), "model_only": format!("{only_model:?}"), "impl_only": format!("{only_impl:?}")}));
                }
            }
        } else {
            report.mismatch(json!({"input": input, "tie": "diag.config", "model": ans}));
        }
        // ---------------- oracle: the clauses of the statement, directly
        let out: Vec<D> = r.actual.clone().unwrap_or_default();
        let mut fails: Vec<String> = Vec::new();
        for c in &case.disable {
            if !case.file_enable.contains(c) && out.iter().any(|d| d.code == *c) {
                fails.push(format!("code {c} is in diagnostics.disable (and not enabled by the file) but is reported"));
            }
        }
        let visible = case.enable && matches!(case.place, 'm' | 'o');
        if visible && !case.meta {
            for c in &case.enables {
                if case.disable.contains(c) || case.file_disable.contains(c) {
                    continue;
                }
                for d in r.raw.iter().filter(|d| d.code == *c) {
                    if global_name(d).map(|n| allowed(n)).unwrap_or(false) {
                        continue;
                    }
                    if !out.iter().any(|o| o.code == d.code && (o.sl, o.sc, o.el, o.ec) == (d.sl, d.sc, d.el, d.ec)) {
                        fails.push(format!("code {c} is in diagnostics.enables but its diagnostic at {}:{} is missing", d.sl, d.sc));
                        break;
                    }
                }
            }
        }
        for d in &out {
            if let Some(s) = case.severity.get(&d.code) {
                if d.sev != Some(*s as i32) {
                    fails.push(format!("{} reported with severity {:?}, diagnostics.severity says {s}", d.code, d.sev));
                }
            }
            if d.sev.is_none() {
                fails.push(format!("{} reported without severity", d.code));
            }
            if d.code == "undefined-global" {
                if let Some(n) = global_name(d) {
                    if allowed(n) {
                        fails.push(format!("global {n} is listed in globals/globalsRegex but reported as undefined"));
                    }
                }
            }
        }
        // meta files report nothing. Narrow exceptions (open findings): a file outside every workspace root, and
        // codes the file itself enables with `---@diagnostic enable`.
        let mut meta_class: Option<&'static str> = None;
        if case.meta && !out.is_empty() {
            if case.place == 'o' {
                meta_class = Some("meta-outside-workspace");
                fails.push(format!("meta file ({}) outside every workspace reports {} diagnostics, e.g. {}", case.meta_line, out.len(), out[0].code));
            } else if let Some(d) = out.iter().find(|d| !case.file_enable.contains(&d.code)) {
                fails.insert(0, format!("meta file ({}) reports {} diagnostics, e.g. {} which the file does not enable", case.meta_line, out.len(), d.code));
            } else {
                meta_class = Some("meta-file-enable");
                fails.push(format!("meta file ({}) reports {} diagnostics of codes it enables itself, e.g. {}", case.meta_line, out.len(), out[0].code));
            }
        }
        if matches!(case.place, 'l' | 'r' | 's') && !out.is_empty() {
            fails.push(format!("file in a non-main workspace ({}) reports {} diagnostics", case.place, out.len()));
        }
        if !case.enable && !out.is_empty() {
            fails.push(format!("diagnostics.enable = false but {} diagnostics reported", out.len()));
        }
        if let Some(first) = fails.first() {
            // classified only when the meta exception is the *only* thing wrong with the output
            let class = if fails.len() == 1 { meta_class } else { None };
            let key = format!("oracle_class:{}", class.unwrap_or("unclassified"));
            report.count(&key);
            if report.distribution[&key] <= 8 {
                report.oracle_failure(json!({"input": input, "what": first, "all": fails, "class": class}));
            }
        }
        report.add("raw_diagnostics", r.raw.len() as u64);
        report.add("reported_diagnostics", out.len() as u64);
        report.sample(json!({"text": case.text(false), "rc": case.rc_json(), "place": case.place.to_string(), "raw": r.raw.len(), "reported": r.actual.as_ref().map(|a| a.len())}));
    }
}

fn corpus() -> Vec<Case> {
    let base = Case {
        body: "g1()\nlocal u1 = 1\n---@foobar\nassert(g2)\n".into(),
        meta: false,
        meta_line: "---@meta".into(),
        file_enable: vec![],
        file_disable: vec![],
        disable: vec![],
        enables: vec![],
        severity: BTreeMap::new(),
        globals: vec![],
        globals_regex: vec![],
        enable: true,
        level: 7,
        place: 'm',
    };
    let s = |v: &[&str]| v.iter().map(|x| x.to_string()).collect::<Vec<_>>();
    vec![
        base.clone(),
        Case { disable: s(&["undefined-global"]), ..base.clone() },
        Case { disable: s(&["undefined-global"]), file_enable: s(&["undefined-global"]), ..base.clone() },
        Case { enables: s(&["unknown-doc-tag", "non-literal-expressions-in-assert"]), ..base.clone() },
        Case { severity: [("unused".to_string(), 1u32)].into_iter().collect(), ..base.clone() },
        Case { globals: s(&["g1"]), globals_regex: s(&["^g2$"]), ..base.clone() },
        Case { meta: true, ..base.clone() },
        Case { meta: true, file_enable: s(&["undefined-global"]), ..base.clone() },
        Case { meta: true, meta_line: "---@meta _".into(), ..base.clone() },
        Case { meta: true, meta_line: "---@meta no-require".into(), ..base.clone() },
        Case { meta: true, meta_line: "---@meta mylib".into(), ..base.clone() },
        Case { meta: true, meta_line: "---@meta my.lib.sub".into(), enables: s(&["unknown-doc-tag", "missing-global-doc"]), ..base.clone() },
        Case { meta: true, meta_line: "---@meta mylib trailing text".into(), ..base.clone() },
        Case { meta: true, meta_line: "---@meta mylib".into(), place: 'l', ..base.clone() },
        Case { globals_regex: s(&["[A-Z", "^g1$"]), ..base.clone() },
        Case { globals_regex: s(&["^g2$", "(", "^g1$"]), ..base.clone() },
        Case { place: 'l', ..base.clone() },
        Case { place: 's', ..base.clone() },
        Case { enable: false, ..base.clone() },
        Case { file_disable: s(&["unused"]), enables: s(&["unused"]), ..base },
    ]
}
