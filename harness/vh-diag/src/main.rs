//! Harness binary for the diagnostics cluster (C19, C20, C21).
mod c19;
mod c20;
mod c21;
mod common;
mod gen_table;

use vh_common::{Args, Report};

fn main() {
    let args = Args::parse();
    vh_common::silence_panics();
    let mut report = Report::default();
    match args.prop.as_str() {
        "probe" => common::probe(&args),
        "gen-table" => {
            gen_table::run(&args);
            return;
        }
        "C19" => c19::run(&args, &mut report),
        "C20" => c20::run(&args, &mut report),
        "C21" => c21::run(&args, &mut report),
        other => {
            eprintln!("vh-diag: unknown property {other}");
            std::process::exit(2);
        }
    }
    report.write(&args.out);
}
