//! C19 — suppression scopes. Programs with diagnostics at generated positions ± `---@diagnostic`
//! comments; the surviving set of the real `diagnose_file` is compared with (a) the Lean model's
//! prediction (tie) and (b) the property statement evaluated by lines on the generator's own
//! knowledge of the program structure (oracle, independent of the model and of the parser).
use crate::common::*;
use emmylua_code_analysis::{Emmyrc, VirtualWorkspace};
use serde_json::{Value, json};
use std::collections::HashSet;
use vh_common::{Args, Report, Rng, hex, run_driver};

type Pos = (u32, u32);
const INF: Pos = (u32::MAX, 0);

#[derive(Clone, Debug)]
pub struct GTag {
    kind: char, // d n l e
    codes: Option<Vec<String>>,
    start: Pos,     // start of the comment node
    last_line: u32, // last line of the comment node
    block: usize,
}

#[derive(Clone, Debug)]
pub struct GBlock {
    open: Pos,
    close: Option<Pos>,
    top: bool,
    /// the block contains a statement (a block holding only comments gets no `Block` node)
    has_stmt: bool,
}

#[derive(Clone, Debug, Default)]
pub struct Prog {
    pub text: String,
    pub tags: Vec<GTag>,
    pub blocks: Vec<GBlock>,
    pub shape: Vec<&'static str>,
}

struct W {
    text: String,
    line: u32,
    col: u32,
}

impl W {
    fn put(&mut self, s: &str) {
        for ch in s.chars() {
            self.text.push(ch);
            self.col += ch.len_utf16() as u32;
        }
    }
    fn eol(&mut self, e: &str) {
        self.text.push_str(e);
        self.line += 1;
        self.col = 0;
    }
    fn pos(&self) -> Pos {
        (self.line, self.col)
    }
}

const CODES: &[&str] = &[
    "undefined-global", "unused", "param-type-mismatch", "missing-return", "syntax-error", "doc-syntax-error", "no-such-code",
];

struct G<'a> {
    rng: &'a mut Rng,
    w: W,
    tags: Vec<GTag>,
    blocks: Vec<GBlock>,
    shape: Vec<&'static str>,
    n: u32,
    eol_mode: usize,
    prev_comment: bool,
    budget: i32,
    carets: bool,
}

impl<'a> G<'a> {
    fn eol(&mut self) {
        let e = match self.eol_mode {
            0 => "\n",
            1 => "\r\n",
            2 => "\r",
            _ => *self.rng.pick(&["\n", "\n", "\r\n", "\r"]),
        };
        // a lone `\r` followed by `\n` would read as one `\r\n` line break
        let e = if e == "\n" && self.w.text.ends_with('\r') { "\r\n" } else { e };
        // the Lua lexer reads `\n\r` as one line break (the line index as two): never put `\r` after `\n`
        let e = if e.starts_with('\r') && self.w.text.ends_with('\n') { "\n" } else { e };
        self.w.eol(e);
    }
    fn name(&mut self, p: &str) -> String {
        self.n += 1;
        format!("{p}{}", self.n)
    }
    fn indent(&mut self, depth: usize) {
        let k = match self.rng.below(4) {
            0 => 0,
            _ => depth * 2,
        };
        self.w.put(&" ".repeat(k));
    }
    fn codes(&mut self) -> Option<Vec<String>> {
        match self.rng.below(6) {
            0 => None,
            _ => {
                let k = self.rng.range(1, 3);
                Some((0..k).map(|_| self.rng.pick(CODES).to_string()).collect())
            }
        }
    }
    fn tag_text(&mut self, kind: char) -> (String, Option<Vec<String>>) {
        let word = match kind {
            'd' => "disable",
            'n' => "disable-next-line",
            'l' => "disable-line",
            _ => "enable",
        };
        let codes = if kind == 'e' {
            Some(vec![self.rng.pick(&["undefined-global", "unused", "syntax-error"]).to_string()])
        } else {
            self.codes()
        };
        let s = match &codes {
            None => format!("---@diagnostic {word}"),
            Some(cs) => format!("---@diagnostic {word}: {}", cs.join(", ")),
        };
        (s, codes)
    }
    fn pick_kind(&mut self) -> char {
        *self.rng.pick(&['n', 'n', 'n', 'l', 'l', 'd', 'd', 'e'])
    }
    /// a statement producing at least one diagnostic, on the current line (no eol)
    fn simple_stmt(&mut self) {
        match self.rng.below(5) {
            0 | 1 => {
                let g = self.name("g");
                self.w.put(&format!("{g}()"));
                self.shape.push("global-call");
            }
            2 => {
                let u = self.name("u");
                self.w.put(&format!("local {u} = 1"));
                self.shape.push("unused-local");
            }
            3 => {
                let (s, g) = (self.name("s"), self.name("g"));
                self.w.put(&format!("local {s} = \"é😀\" {g}()"));
                self.shape.push("non-ascii-prefix");
            }
            _ => {
                let (g, h) = (self.name("g"), self.name("g"));
                self.w.put(&format!("{g}() {h}()"));
                self.shape.push("two-calls");
            }
        }
    }
    fn trailing_tag(&mut self, blk: usize) {
        let kind = *self.rng.pick(&['l', 'l', 'n', 'd']);
        let (s, codes) = self.tag_text(kind);
        self.w.put(" ");
        let start = self.w.pos();
        self.w.put(&s);
        self.tags.push(GTag { kind, codes, start, last_line: self.w.line, block: blk });
        self.shape.push("trailing-tag");
    }
    fn comment_group(&mut self, blk: usize, depth: usize) {
        if self.prev_comment {
            self.eol(); // blank line: keeps comment nodes apart
        }
        let lines = self.rng.range(1, 3);
        let tag_at = self.rng.below(lines);
        let second_tag = if lines > 1 && self.rng.chance(1, 3) { Some(self.rng.below(lines)) } else { None };
        let mut start = None;
        let mut pending: Vec<(char, Option<Vec<String>>)> = Vec::new();
        for i in 0..lines {
            self.indent(depth);
            if start.is_none() {
                start = Some(self.w.pos());
            }
            if i == tag_at || Some(i) == second_tag {
                let kind = self.pick_kind();
                let (s, codes) = self.tag_text(kind);
                self.w.put(&s);
                pending.push((kind, codes));
            } else if self.carets && self.rng.chance(1, 2) {
                self.w.put("---@cast"); // zero-width doc error at the end of this line (+ one on the tag)
                self.shape.push("caret-line");
            } else {
                self.w.put("--- note é");
            }
            if i + 1 < lines {
                self.eol();
            }
        }
        let last_line = self.w.line;
        for (kind, codes) in pending {
            self.tags.push(GTag { kind, codes, start: start.unwrap(), last_line, block: blk });
        }
        if lines > 1 {
            self.shape.push("multi-line-comment");
        }
        self.eol();
        self.prev_comment = true;
    }
    fn items(&mut self, blk: usize, depth: usize) {
        let n = self.rng.range(1, 5);
        for _ in 0..n {
            if self.budget <= 0 {
                break;
            }
            self.budget -= 1;
            let choice = self.rng.below(12);
            match choice {
                0..=3 => {
                    self.blocks[blk].has_stmt = true;
                    self.indent(depth);
                    self.simple_stmt();
                    if self.rng.chance(1, 4) {
                        self.trailing_tag(blk);
                    }
                    self.eol();
                    self.prev_comment = false;
                }
                4..=6 => self.comment_group(blk, depth),
                7 => {
                    // multi-line diagnostic: param-type-mismatch over a long string
                    self.blocks[blk].has_stmt = true;
                    self.indent(depth);
                    self.w.put("pf([[a");
                    self.eol();
                    self.w.put("b]])");
                    if self.rng.chance(1, 3) {
                        let g = self.name("g");
                        self.w.put(&format!(" {g}()"));
                    }
                    self.eol();
                    self.prev_comment = false;
                    self.shape.push("multi-line-diag");
                }
                8 | 9 if depth < 3 => {
                    self.blocks[blk].has_stmt = true;
                    self.nested(depth)
                }
                10 => {
                    // one-line block with neighbours on the same line
                    self.blocks[blk].has_stmt = true;
                    self.indent(depth);
                    let (a, b) = (self.name("g"), self.name("g"));
                    self.w.put("do");
                    let open = self.w.pos();
                    self.w.put(&format!(" {a}() "));
                    let nb = self.blocks.len();
                    if self.rng.chance(1, 2) {
                        let (s, codes) = self.tag_text('d');
                        let start = self.w.pos();
                        self.w.put(&s);
                        self.tags.push(GTag { kind: 'd', codes, start, last_line: self.w.line, block: nb });
                        self.eol();
                        self.indent(depth);
                    }
                    let close = self.w.pos();
                    self.blocks.push(GBlock { open, close: Some(close), top: false, has_stmt: true });
                    self.w.put(&format!("end {b}()"));
                    self.eol();
                    self.prev_comment = false;
                    self.shape.push("one-line-block");
                }
                _ => {
                    self.eol();
                    self.prev_comment = false;
                }
            }
        }
    }
    fn nested(&mut self, depth: usize) {
        let form = self.rng.below(5);
        self.indent(depth);
        let g = self.name("g");
        let mut until = None;
        match form {
            0 => self.w.put("do"),
            1 => self.w.put(&format!("if {g} then")),
            2 => self.w.put(&format!("while {g} do")),
            3 => {
                if self.prev_comment {
                    self.eol(); // keep the doc comment apart from a preceding comment node
                    self.indent(depth);
                }
                self.w.put("---@return integer");
                self.eol();
                self.indent(depth);
                let r = self.name("r");
                self.w.put(&format!("local function {r}()"));
            }
            _ => {
                self.w.put("repeat");
                until = Some(g.clone());
            }
        }
        let open = self.w.pos();
        let nb = self.blocks.len();
        self.blocks.push(GBlock { open, close: None, top: false, has_stmt: false });
        self.eol();
        self.prev_comment = false;
        self.items(nb, depth + 1);
        self.indent(depth);
        self.blocks[nb].close = Some(self.w.pos());
        match until {
            Some(g) => self.w.put(&format!("until {g}")),
            None => self.w.put("end"),
        }
        if self.rng.chance(1, 3) {
            let h = self.name("g");
            self.w.put(&format!(" {h}()"));
        }
        self.eol();
        self.prev_comment = false;
        self.shape.push(match form {
            0 => "block-do",
            1 => "block-if",
            2 => "block-while",
            3 => "block-function",
            _ => "block-repeat",
        });
    }
}

pub fn gen_prog(rng: &mut Rng, size: i32, carets: bool) -> Prog {
    let eol_mode = *rng.pick(&[0usize, 0, 0, 0, 1, 1, 2, 3]);
    let mut g = G {
        rng,
        w: W { text: String::new(), line: 0, col: 0 },
        tags: vec![],
        blocks: vec![GBlock { open: (0, 0), close: None, top: true, has_stmt: true }],
        shape: vec![],
        n: 0,
        eol_mode,
        prev_comment: false,
        budget: size,
        carets,
    };
    g.w.put("---@param x integer");
    g.eol();
    g.w.put("local function pf(x) return x end");
    g.eol();
    g.eol();
    while g.budget > 0 {
        g.items(0, 0);
    }
    // end of file: with / without a trailing line terminator
    if g.rng.chance(1, 2) {
        let t = &mut g.w.text;
        while t.ends_with('\n') || t.ends_with('\r') {
            t.pop();
        }
        g.shape.push("no-trailing-newline");
    }
    Prog { text: g.w.text, tags: g.tags, blocks: g.blocks, shape: g.shape }
}

// ---------------------------------------------------------------------------------------------

fn neutralise(text: &str) -> String {
    text.replace("---@diagnostic", "--- diagnostic")
}

fn tags_json(p: &Prog) -> Value {
    json!({
        "tags": p.tags.iter().map(|t| json!({"kind": t.kind.to_string(), "codes": t.codes, "start": [t.start.0, t.start.1],
            "last_line": t.last_line, "block": t.block})).collect::<Vec<_>>(),
        "blocks": p.blocks.iter().map(|b| json!({"open": [b.open.0, b.open.1],
            "close": b.close.map(|c| vec![c.0, c.1]), "top": b.top, "has_stmt": b.has_stmt})).collect::<Vec<_>>(),
    })
}

fn prog_from_json(v: &Value) -> Prog {
    let pos = |x: &Value| (x[0].as_u64().unwrap_or(0) as u32, x[1].as_u64().unwrap_or(0) as u32);
    let text = vh_common::unhex(v["text_hex"].as_str().unwrap_or("-")).unwrap_or_default();
    let tags = v["gen"]["tags"]
        .as_array()
        .map(|a| {
            a.iter()
                .map(|t| GTag {
                    kind: t["kind"].as_str().unwrap_or("o").chars().next().unwrap_or('o'),
                    codes: t["codes"].as_array().map(|c| c.iter().map(|x| x.as_str().unwrap_or("").to_string()).collect()),
                    start: pos(&t["start"]),
                    last_line: t["last_line"].as_u64().unwrap_or(0) as u32,
                    block: t["block"].as_u64().unwrap_or(0) as usize,
                })
                .collect()
        })
        .unwrap_or_default();
    let blocks = v["gen"]["blocks"]
        .as_array()
        .map(|a| {
            a.iter()
                .map(|b| GBlock {
                    open: pos(&b["open"]),
                    close: if b["close"].is_null() { None } else { Some(pos(&b["close"])) },
                    top: b["top"].as_bool().unwrap_or(false),
                    has_stmt: b["has_stmt"].as_bool().unwrap_or(true),
                })
                .collect()
        })
        .unwrap_or_else(|| vec![GBlock { open: (0, 0), close: None, top: true, has_stmt: true }]);
    Prog { text, tags, blocks, shape: vec![] }
}

/// The property statement, by lines, on the generator's knowledge: is diagnostic `d` in the scope of
/// a suppression comment that selects its code?
fn oracle_suppressed(p: &Prog, d: &D) -> Option<String> {
    let (ds, de) = ((d.sl, d.sc), (d.el, d.ec));
    let selected = |t: &GTag| match &t.codes {
        None => true,
        Some(cs) => cs.iter().any(|c| *c == d.code),
    };
    let overlaps = |from: Pos, to: Pos| if ds == de { from <= ds && ds < to } else { ds < to && from < de };
    // whole file at top level, unless the file enables the code again
    let file_enabled = p.tags.iter().any(|t| t.kind == 'e' && selected(t) && t.codes.is_some());
    for t in &p.tags {
        if !selected(t) {
            continue;
        }
        match t.kind {
            'n' => {
                if overlaps(t.start, (t.last_line + 2, 0)) {
                    return Some(format!("disable-next-line comment ending on line {}", t.last_line));
                }
            }
            'l' => {
                if overlaps((t.last_line, 0), (t.last_line + 1, 0)) {
                    return Some(format!("disable-line on line {}", t.last_line));
                }
            }
            'd' => {
                let b = &p.blocks[t.block];
                if b.top && t.codes.is_some() {
                    if !file_enabled {
                        return Some("file-level disable".into());
                    }
                } else if overlaps(b.open, b.close.unwrap_or(INF)) {
                    return Some(format!("disable in block opened at {:?}", b.open));
                }
            }
            _ => {}
        }
    }
    None
}

/// class of an oracle failure, computed from the input only (what known findings match on)
fn classify(p: &Prog) -> Option<&'static str> {
    if p.tags.iter().any(|t| t.kind == 'd' && !p.blocks[t.block].has_stmt) {
        return Some("comment-only-block");
    }
    None
}

fn is_nontrivial(p: &Prog, raw: &[D]) -> bool {
    !p.tags.is_empty() && raw.len() >= 2
}

pub fn run(args: &Args, report: &mut Report) {
    let mut rng = Rng::new(args.seed ^ 0xC19);
    let names = all_code_names();
    let mut progs: Vec<Prog> = corpus();
    if let Some(path) = &args.replay {
        let v: Value = serde_json::from_str(&std::fs::read_to_string(path).expect("replay file")).expect("json");
        progs = vec![prog_from_json(&v["input"])];
    } else {
        let t = template_progs(args.thorough());
        report.extra.insert("exhaustive_scope".into(), json!(format!(
            "{} programs: every placement of one suppression comment (3 kinds x own-line/trailing x 6 lines x 4 code lists x trailing newline or not) in a 6-line template with a call at column 0 of every line and {} do-end block layouts (calls outside and inside on the opener/closer lines); enumerated completely, in addition to the random stream",
            t.len(), if args.thorough() { "all 15 + none" } else { "2 + none" })));
        progs.extend(t);
        let n = if args.thorough() { 30_000 } else { 700 };
        for i in 0..n {
            let size = 2 + (i % 9) as i32;
            progs.push(gen_prog(&mut rng, size, i % 3 == 0));
        }
    }
    report.rule = "generated Lua programs (statements raising undefined-global / unused / param-type-mismatch (multi-line) / missing-return (on `end`) / zero-width syntax errors; do/if/while/function/repeat blocks, one-line blocks with neighbours on the same line; \\n, \\r\\n, \\r line ends; non-ASCII prefixes) with `---@diagnostic disable-next-line|disable-line|disable|enable` comments (own-line, trailing, multi-line comment nodes; no/one/several/unknown codes); each program is diagnosed with the comments active and neutralised (`--- diagnostic`, equal length); non-trivial = at least one tag and at least two raw diagnostics; distinct by text".into();

    let mut ws = VirtualWorkspace::new();
    ws.update_emmyrc(Emmyrc::default());
    let mut seen = HashSet::new();
    let mut reqs = Vec::new();
    struct Case {
        prog: Prog,
        raw: Vec<D>,
        actual: Vec<D>,
        raw_ranges: Vec<(usize, usize, usize)>,
        req: Option<usize>,
    }
    let mut cases: Vec<Case> = Vec::new();
    for (i, prog) in progs.into_iter().enumerate() {
        report.evaluations += 1;
        let text0 = neutralise(&prog.text);
        let r = vh_common::catch(std::panic::AssertUnwindSafe(|| {
            let (_, raw) = diagnose(&mut ws, &format!("c19_{i}_raw.lua"), &text0);
            let (id, actual) = diagnose(&mut ws, &format!("c19_{i}.lua"), &prog.text);
            let tags = tree_tags(&ws, id, &names);
            (raw, actual, tags)
        }));
        let (raw, actual, tags) = match r {
            Ok((Some(raw), Some(actual), tags)) => (raw, actual, tags),
            Ok(_) => {
                report.mismatch(json!({"input": {"text_hex": hex(&prog.text), "gen": tags_json(&prog)}, "tie": "diagnose_file returned None in the main workspace"}));
                continue;
            }
            Err(e) => {
                report.mismatch(json!({"input": {"text_hex": hex(&prog.text), "gen": tags_json(&prog)}, "tie": format!("panic: {e}")}));
                continue;
            }
        };
        for s in &prog.shape {
            report.count(&format!("shape:{s}"));
        }
        for t in &prog.tags {
            report.count(&format!("tag:{}{}", t.kind, if t.codes.is_some() { ":codes" } else { "" }));
        }
        report.add("raw_diagnostics", raw.len() as u64);
        if is_nontrivial(&prog, &raw) && seen.insert(prog.text.clone()) {
            report.distinct_nontrivial += 1;
        }
        // byte ranges of the raw diagnostics, with an independent position converter
        let starts = line_starts(&prog.text);
        let mut raw_ranges = Vec::new();
        let mut ok = true;
        for d in &raw {
            let s = pos_to_offset(&prog.text, &starts, d.sl, d.sc);
            let e = pos_to_offset(&prog.text, &starts, d.el, d.ec);
            match (s, e, code_id(&names, &d.code)) {
                (Some(s), Some(e), Some(c)) if s <= e => raw_ranges.push((c, s, e)),
                _ => {
                    ok = false;
                    report.mismatch(json!({"input": {"text_hex": hex(&prog.text), "gen": tags_json(&prog)},
                        "tie": format!("diagnostic position is not a char boundary of its line or code unknown: {d:?}")}));
                }
            }
        }
        // assumptions of the theorem, validated on the real tree (TagOK)
        for t in &tags {
            let inside = t.block.map(|((a, b), _)| a <= t.comment.0 && t.comment.1 <= b && b <= prog.text.len()).unwrap_or(true);
            if !(t.comment.0 < t.comment.1 && t.comment.1 <= prog.text.len() && inside) {
                ok = false;
                report.mismatch(json!({"input": {"text_hex": hex(&prog.text), "gen": tags_json(&prog)},
                    "tie": format!("TagOK assumption violated by the syntax tree: {t:?}")}));
            }
        }
        let mut req = None;
        if ok {
            let diags = if raw_ranges.is_empty() {
                "-".to_string()
            } else {
                raw_ranges.iter().map(|(c, s, e)| format!("{c}_{s}_{e}")).collect::<Vec<_>>().join(";")
            };
            // every raw diagnostic was reported under the default configuration: its code is on by default
            let mut on: Vec<usize> = raw_ranges.iter().map(|x| x.0).collect();
            on.sort();
            on.dedup();
            req = Some(reqs.len());
            reqs.push(format!("diag.report {} {} {} 0 - - {}", hex(&prog.text), enc_tags(&tags), diags, enc_list(&on)));
        }
        cases.push(Case { prog, raw, actual, raw_ranges, req });
    }
    let answers = run_driver(&reqs);
    for c in &cases {
        let input = json!({"text_hex": hex(&c.prog.text), "text": c.prog.text, "gen": tags_json(&c.prog)});
        let mut actual = c.actual.clone();
        actual.sort();
        // ---- tie: the model's surviving set vs the implementation's
        if let Some(k) = c.req {
            let ans = &answers[k];
            let bits = ans.strip_prefix("ok r=").and_then(|r| r.split(' ').next()).unwrap_or("");
            if !ans.starts_with("ok ") || bits.len() != c.raw.len() {
                report.mismatch(json!({"input": input, "tie": "diag.report", "model": ans}));
            } else {
                let mut predicted: Vec<D> =
                    c.raw.iter().zip(bits.chars()).filter(|(_, b)| *b == '1').map(|(d, _)| d.clone()).collect();
                predicted.sort();
                if predicted != actual {
                    let only_model: Vec<&D> = predicted.iter().filter(|d| !actual.contains(d)).collect();
                    let only_impl: Vec<&D> = actual.iter().filter(|d| !predicted.contains(d)).collect();
                    report.mismatch(json!({"input": input, "tie": "correspondence diag.report (diagnose_file survivors vs Diag model)",
                        "model_only": format!("{only_model:?}"), "impl_only": format!("{only_impl:?}"), "model": ans}));
                } else {
                    report.traces_validated += 1;
                    report.add("suppressed_by_model", bits.chars().filter(|b| *b == '0').count() as u64);
                    for ((_, s, e), b) in c.raw_ranges.iter().zip(bits.chars()) {
                        if s == e {
                            report.count(if b == '0' { "zero_width_suppressed" } else { "zero_width_reported" });
                        }
                    }
                }
            }
        }
        // ---- oracle: the property statement by lines, directly on the two outputs
        let mut expected: Vec<D> = c.raw.iter().filter(|d| oracle_suppressed(&c.prog, d).is_none()).cloned().collect();
        expected.sort();
        if expected != actual {
            let hidden: Vec<&D> = expected.iter().filter(|d| !actual.contains(d)).collect();
            let shown: Vec<&D> = actual.iter().filter(|d| !expected.contains(d)).collect();
            let what = if let Some(d) = hidden.first() {
                format!("{} at {}:{}-{}:{} is outside every selecting suppression scope but is not reported", d.code, d.sl, d.sc, d.el, d.ec)
            } else if let Some(d) = shown.first() {
                format!("{} at {}:{}-{}:{} is reported although in scope of: {}", d.code, d.sl, d.sc, d.el, d.ec,
                    oracle_suppressed(&c.prog, d).unwrap_or("(not a raw diagnostic)".into()))
            } else {
                "multiplicity differs".to_string()
            };
            // at most 8 listed per class, so that a rare unlisted class is not crowded out of the report
            let class = classify(&c.prog);
            let key = format!("oracle_class:{}", class.unwrap_or("unclassified"));
            report.count(&key);
            if report.distribution[&key] <= 8 {
                report.oracle_failure(json!({"input": input, "what": what, "class": class,
                    "wrongly_hidden": format!("{hidden:?}"), "wrongly_shown": format!("{shown:?}")}));
            }
        }
        report.add("suppressed_by_oracle", (c.raw.len() - expected.len()) as u64);
        report.sample(json!({"text": c.prog.text, "raw": c.raw.len(), "reported": c.actual.len()}));
    }
}

/// Exhaustive placements in a 6-line template: every line carries a call at column 0 (`gI()`), optionally a
/// `do … end` block from line a to line b (`gA() do hA()` … `hB() end gB()`: calls outside and inside on the
/// opener and closer lines); one suppression comment of every kind × own-line/trailing × every line ×
/// {no codes, matching, other, unknown+matching} × with/without trailing newline.
pub fn template_progs(full: bool) -> Vec<Prog> {
    let mut out = Vec::new();
    let mut blocks: Vec<Option<(usize, usize)>> = vec![None];
    for a in 0..6 {
        for b in a + 1..6 {
            if full || (a, b) == (1, 4) || (a, b) == (2, 3) {
                blocks.push(Some((a, b)));
            }
        }
    }
    let code_sets: [Option<Vec<&str>>; 4] =
        [None, Some(vec!["undefined-global"]), Some(vec!["unused"]), Some(vec!["no-such-code", "undefined-global"])];
    for blk in &blocks {
        for kind in ['n', 'l', 'd'] {
            for own_line in [true, false] {
                for k in 0..6usize {
                    if own_line && blk.map(|(a, b)| k == a || k == b).unwrap_or(false) {
                        continue;
                    }
                    for codes in &code_sets {
                        for newline in [true, false] {
                            let word = match kind {
                                'n' => "disable-next-line",
                                'l' => "disable-line",
                                _ => "disable",
                            };
                            let tag = match codes {
                                None => format!("---@diagnostic {word}"),
                                Some(cs) => format!("---@diagnostic {word}: {}", cs.join(", ")),
                            };
                            let mut lines: Vec<String> = (0..6).map(|i| format!("g{i}()")).collect();
                            let mut gblocks = vec![GBlock { open: (0, 0), close: None, top: true, has_stmt: true }];
                            let mut tag_block = 0;
                            if let Some((a, b)) = *blk {
                                lines[a] = format!("g{a}() do h{a}()");
                                lines[b] = format!("h{b}() end g{b}()");
                                gblocks.push(GBlock { open: (a as u32, 7), close: Some((b as u32, 5)), top: false, has_stmt: true });
                                if (a < k && k < b) || k == a {
                                    tag_block = 1;
                                }
                            }
                            let start;
                            if own_line {
                                lines[k] = tag.clone();
                                start = (k as u32, 0);
                            } else {
                                start = (k as u32, lines[k].len() as u32 + 1);
                                lines[k] = format!("{} {}", lines[k], tag);
                            }
                            let mut text = lines.join("\n");
                            if newline {
                                text.push('\n');
                            }
                            out.push(Prog {
                                text,
                                tags: vec![GTag { kind, codes: codes.as_ref().map(|c| c.iter().map(|x| x.to_string()).collect()), start, last_line: k as u32, block: tag_block }],
                                blocks: gblocks,
                                shape: vec!["template"],
                            });
                        }
                    }
                }
            }
        }
    }
    out
}

fn corpus() -> Vec<Prog> {
    // hand-written regression programs (the defect of the unfixed tree first)
    let mk = |text: &str, tags: Vec<GTag>, blocks: Vec<GBlock>| Prog { text: text.into(), tags, blocks, shape: vec!["corpus"] };
    let top = || GBlock { open: (0, 0), close: None, top: true, has_stmt: true };
    let ug = || Some(vec!["undefined-global".to_string()]);
    vec![
        mk(
            "---@diagnostic disable-next-line: undefined-global\nfoo()\nbar()\n",
            vec![GTag { kind: 'n', codes: ug(), start: (0, 0), last_line: 0, block: 0 }],
            vec![top()],
        ),
        mk(
            "qux() ---@diagnostic disable-line\nquux()\n",
            vec![GTag { kind: 'l', codes: None, start: (0, 6), last_line: 0, block: 0 }],
            vec![top()],
        ),
        mk(
            "do\n  ---@diagnostic disable: undefined-global\n  baz()\nend bar()\nfoo()",
            vec![GTag { kind: 'd', codes: ug(), start: (1, 2), last_line: 1, block: 1 }],
            vec![top(), GBlock { open: (0, 2), close: Some((3, 0)), top: false, has_stmt: true }],
        ),
        // the end-of-file position belongs to the last line (fix 9bcb386)
        mk(
            "local u1 = 1\n---@diagnostic disable-next-line\n---@cast",
            vec![GTag { kind: 'n', codes: None, start: (1, 0), last_line: 2, block: 0 }],
            vec![top()],
        ),
        mk(
            "---@diagnostic disable-next-line: doc-syntax-error\n---@cast\n",
            vec![GTag { kind: 'n', codes: Some(vec!["doc-syntax-error".to_string()]), start: (0, 0), last_line: 1, block: 0 }],
            vec![top()],
        ),
        mk(
            "foo() ---@diagnostic disable-line: doc-syntax-error\n---@cast",
            vec![GTag { kind: 'l', codes: Some(vec!["doc-syntax-error".to_string()]), start: (0, 6), last_line: 0, block: 0 }],
            vec![top()],
        ),
        mk(
            "---@diagnostic disable: undefined-global\nfoo()\n---@diagnostic enable: undefined-global\n",
            vec![
                GTag { kind: 'd', codes: ug(), start: (0, 0), last_line: 0, block: 0 },
                GTag { kind: 'e', codes: ug(), start: (2, 0), last_line: 2, block: 0 },
            ],
            vec![top()],
        ),
    ]
}
