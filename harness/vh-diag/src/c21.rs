//! C21 — well-formed diagnostics, syntax errors complete. Generated valid and invalid programs (token
//! soup, truncated / damaged standard-library files, the snippet programs of C20) under the default and
//! the all-enabled configuration. Oracle: the statement itself on the real `diagnose_file` output vs the
//! real `LuaSyntaxTree::get_errors`. Tie: the Lean model's `syntaxDiags` / `translateRange` for the
//! parse errors of each file vs the diagnostics actually emitted for them.
use crate::common::*;
use emmylua_code_analysis::{Emmyrc, VirtualWorkspace};
use emmylua_parser::LuaParseErrorKind;
use serde_json::{Value, json};
use std::collections::{BTreeMap, HashMap, HashSet};
use vh_common::{Args, Report, Rng, hex, run_driver};

const TOKENS: &[&str] = &[
    "local", "function", "end", "if", "then", "else", "elseif", "while", "do", "for", "in", "repeat", "until", "return", "break",
    "goto", "nil", "true", "false", "and", "or", "not", "x", "y", "f", "t", "self", "_", "1", "0x", "1e", "3.14", "0xffffffffffffffffff",
    "9999999999999999999999", "1..2", "\"s\"", "'c'", "\"\\xZZ\"", "\"\\u{110000}\"", "\"open", "[[long]]", "[==[x", "...", "..", ".", ":", "::",
    ",", ";", "=", "==", "~=", "<", "<=", ">>", "//", "+", "-", "*", "/", "%", "^", "#", "&", "|", "~", "(", ")", "{", "}", "[", "]",
    "<const>", "<close>", "--c", "--[[b]]", "--[[open", "---@type", "---@param", "---@class", "---@field", "---@return", "---@alias",
    "---@cast", "---@generic", "---@overload", "---@type integer", "---@param x integer", "---@class A: B", "---@field x", "---@type {",
    "---@type fun(", "---@alias A B|", "---| 'a'", "--- text", "é", "😀", "\"é😀\"",
];
const SEPS: &[&str] = &[" ", " ", " ", "\n", "\n", "\r\n", "\t", ""];

fn token_soup(rng: &mut Rng, max: usize) -> String {
    let n = rng.range(1, max);
    let mut s = String::new();
    for _ in 0..n {
        s.push_str(*rng.pick(TOKENS));
        s.push_str(*rng.pick(SEPS));
    }
    s
}

/// valid-ish program built from the C20 snippets
fn snippet_prog(rng: &mut Rng) -> String {
    const S: &[&str] = &[
        "g1()\n", "local u = 1\n", "---@param x integer\nlocal function pf(x) return x end\npf(\"a\")\npf()\n",
        "---@return integer\nlocal function r()\nend\nr()\n", "---@type integer\nlocal a = \"s\"\nprint(a)\n",
        "local t = {a = 1, a = 2}\nprint(t)\n", "local q = 1\nlocal q = 2\nprint(q)\n", "local k <const> = 1\nk = 2\n",
        "---@class C\n---@field x integer\n---@type C\nlocal v = nil\nprint(v.nofield)\n", "---@foobar\n", "assert(g2)\n",
        "---@param a integer\nfunction G(a, b) end\n", "for i = 1, 2 do i = 3 end\n", "local s = \"é😀\" g3()\n",
        "local f = function(...) return ... end\nlocal function nv() return ... end\nprint(f, nv)\n",
        "local n = 0xffffffffffffffffffff\nlocal m = \"\\xZZ\"\nprint(n, m)\n", "goto done\n::done::\n",
        "---@type string?\nlocal ns\nlocal _ = ns:len()\n", "if true then end\n", "---@class D\n---@class D\n",
    ];
    let k = rng.range(2, 9);
    (0..k).map(|_| *rng.pick(S)).collect()
}

fn std_files() -> Vec<String> {
    let mut v = Vec::new();
    let mut stack = vec![std::path::PathBuf::from("/repo/crates/emmylua_code_analysis/resources/std")];
    while let Some(d) = stack.pop() {
        let mut entries: Vec<_> = std::fs::read_dir(&d).map(|r| r.filter_map(|e| e.ok()).map(|e| e.path()).collect()).unwrap_or_default();
        entries.sort();
        for p in entries {
            if p.is_dir() {
                stack.push(p);
            } else if p.extension().map(|e| e == "lua").unwrap_or(false) {
                if let Ok(t) = std::fs::read_to_string(&p) {
                    v.push(t);
                }
            }
        }
    }
    v
}

/// a damaged slice of a std file: a window of lines, truncated at a char boundary, one line possibly
/// removed; `---@meta` / `---@diagnostic` neutralised so that the file reports
fn damaged_std(rng: &mut Rng, files: &[String]) -> String {
    let f = rng.pick(files);
    let lines: Vec<&str> = f.split_inclusive('\n').collect();
    let start = rng.below(lines.len());
    let len = rng.range(3, 60).min(lines.len() - start);
    let mut w: Vec<&str> = lines[start..start + len].to_vec();
    if w.len() > 2 && rng.chance(1, 2) {
        w.remove(rng.below(w.len()));
    }
    let mut t: String = w.concat();
    if rng.chance(2, 3) && !t.is_empty() {
        let mut cut = rng.below(t.len());
        while !t.is_char_boundary(cut) {
            cut -= 1;
        }
        t.truncate(cut);
    }
    t.replace("@meta", " meta").replace("@diagnostic", " diagnostic")
}

fn placeholders(msg: &str) -> Option<&'static str> {
    if msg.contains("%{") {
        return Some("%{");
    }
    if msg.trim().is_empty() {
        return Some("empty message");
    }
    None
}

pub fn run(args: &Args, report: &mut Report) {
    let mut rng = Rng::new(args.seed ^ 0xC21);
    let names = all_code_names();
    let files = std_files();
    let mut texts: Vec<(String, &'static str)> = corpus().into_iter().map(|t| (t, "corpus")).collect();
    if let Some(path) = &args.replay {
        let v: Value = serde_json::from_str(&std::fs::read_to_string(path).expect("replay file")).expect("json");
        texts = vec![(vh_common::unhex(v["input"]["text_hex"].as_str().unwrap_or("-")).unwrap_or_default(), "replay")];
    } else {
        let n = if args.thorough() { 60_000 } else { 1500 };
        for i in 0..n {
            match i % 5 {
                0 | 1 => texts.push((token_soup(&mut rng, 4 + (i % 40)), "token-soup")),
                2 | 3 => texts.push((damaged_std(&mut rng, &files), "damaged-std")),
                _ => texts.push((snippet_prog(&mut rng), "snippets")),
            }
        }
    }
    report.rule = "texts: token soup over 100 Lua/doc tokens (malformed numbers, bad escapes, unterminated strings/comments, doc tags with missing operands, non-ASCII, \\r\\n), damaged windows of the real std library files (truncated at random char boundaries, lines removed, ---@meta neutralised), snippet programs raising ~25 codes; each under the default and the all-enabled configuration; non-trivial = at least one parse error or at least two diagnostics; distinct by (text, configuration)".into();

    let all_on: Emmyrc = serde_json::from_value(json!({"diagnostics": {"enables": names}})).expect("rc");
    let mut seen = HashSet::new();
    let mut reqs: Vec<String> = Vec::new();
    struct Pending {
        input: Value,
        req: usize,
        expect: Vec<(String, (u32, u32, u32, u32), String)>, // code, lsp range, message of each parse error (in order)
        diags: Vec<D>,
        msgs: Vec<String>,
    }
    let mut pend: Vec<Pending> = Vec::new();
    let mut ws_default = VirtualWorkspace::new();
    ws_default.update_emmyrc(Emmyrc::default());
    let mut ws_all = VirtualWorkspace::new();
    ws_all.update_emmyrc(all_on);
    for (i, (text, kind)) in texts.iter().enumerate() {
        for (cfg, ws) in [("default", &mut ws_default), ("all-enabled", &mut ws_all)] {
            report.evaluations += 1;
            report.count(&format!("kind:{kind}"));
            let input = json!({"text_hex": hex(text), "text": text, "config": cfg, "kind": kind});
            let name = format!("c21_{i}.lua");
            let r = vh_common::catch(std::panic::AssertUnwindSafe(|| {
                let (id, ds) = diagnose(ws, &name, text);
                let errs: Vec<(bool, usize, usize, String)> = {
                    let tree = ws.analysis.compilation.get_db().get_vfs().get_syntax_tree(&id).expect("tree");
                    tree.get_errors()
                        .iter()
                        .map(|e| (matches!(e.kind, LuaParseErrorKind::SyntaxError), u32::from(e.range.start()) as usize, u32::from(e.range.end()) as usize, e.message.clone()))
                        .collect()
                };
                // keep the workspace small: drop the file again
                let uri = ws.virtual_url_generator.new_uri(&name);
                ws.analysis.update_file_by_uri(&uri, None);
                (ds, errs)
            }));
            let (ds, errs) = match r {
                Ok((Some(ds), errs)) => (ds, errs),
                Ok((None, _)) => {
                    report.oracle_failure(json!({"input": input, "what": "diagnose_file returned None for a file of the main workspace", "class": null}));
                    continue;
                }
                Err(e) => {
                    // crashes belong to C12; count, rebuild the workspace, go on
                    report.count("panic_during_analysis");
                    report.notes.push(format!("panic (reported under C12, not C21): {e}"));
                    *ws = VirtualWorkspace::new();
                    if cfg == "all-enabled" {
                        ws.update_emmyrc(serde_json::from_value(json!({"diagnostics": {"enables": names}})).expect("rc"));
                    }
                    continue;
                }
            };
            if (!errs.is_empty() || ds.len() >= 2) && seen.insert((text.clone(), cfg)) {
                report.distinct_nontrivial += 1;
            }
            report.add("diagnostics", ds.len() as u64);
            report.add("parse_errors", errs.len() as u64);
            // ---------------- oracle
            let starts = line_starts(text);
            let mut fails: Vec<String> = Vec::new();
            let mut counts: HashMap<&D, usize> = HashMap::new();
            for d in &ds {
                *counts.entry(d).or_insert(0) += 1;
                report.count(&format!("code:{}", d.code));
                let s = pos_to_offset(text, &starts, d.sl, d.sc);
                let e = pos_to_offset(text, &starts, d.el, d.ec);
                match (s, e) {
                    (Some(s), Some(e)) => {
                        if s > e {
                            fails.push(format!("{}: start {}:{} after end {}:{}", d.code, d.sl, d.sc, d.el, d.ec));
                        }
                        if s == e {
                            report.count("zero_width");
                        }
                        if d.sl != d.el {
                            report.count("multi_line");
                        }
                    }
                    _ => fails.push(format!("{}: range {}:{}-{}:{} is not inside the document ({} lines)", d.code, d.sl, d.sc, d.el, d.ec, starts.len())),
                }
                if code_id(&names, &d.code).is_none() || d.code == "none" {
                    fails.push(format!("unknown code name {:?}", d.code));
                }
                if d.sev.is_none() || d.sev == Some(0) {
                    fails.push(format!("{}: no severity", d.code));
                }
                if d.msg.contains("{}") {
                    report.count("message_contains_{}");
                    if !report.notes.iter().any(|n| n.starts_with("message with {}")) {
                        report.notes.push(format!("message with {{}} (inspected, not a failure): {} {:?}", d.code, d.msg));
                    }
                }
                if let Some(p) = placeholders(&d.msg) {
                    fails.push(format!("{}: message {:?} has an unsubstituted placeholder / is empty ({p})", d.code, d.msg));
                }
            }
            if let Some((d, n)) = counts.iter().find(|(_, n)| **n > 1) {
                fails.push(format!("exact duplicate: {} at {}:{}-{}:{} {:?} appears {n} times", d.code, d.sl, d.sc, d.el, d.ec, d.msg));
            }
            // every parse error appears (both codes are on by default; suppression comments are not generated)
            let mut expect = Vec::new();
            for (is_syntax, s, e, msg) in &errs {
                let code = if *is_syntax { "syntax-error" } else { "doc-syntax-error" };
                let to_pos = |o: usize| -> Option<(u32, u32)> {
                    if o > text.len() || !text.is_char_boundary(o) {
                        return None;
                    }
                    let l = starts.partition_point(|x| *x <= o) - 1;
                    Some((l as u32, text[starts[l]..o].encode_utf16().count() as u32))
                };
                match (to_pos(*s), to_pos(*e)) {
                    (Some(a), Some(b)) => {
                        if !ds.iter().any(|d| d.code == code && (d.sl, d.sc) == a && (d.el, d.ec) == b && d.msg == *msg) {
                            fails.push(format!("parse error {code} at {}:{}-{}:{} {:?} has no diagnostic", a.0, a.1, b.0, b.1, msg));
                        }
                        expect.push((code.to_string(), (a.0, a.1, b.0, b.1), msg.clone()));
                    }
                    _ => fails.push(format!("parse error range {s}..{e} is not a char-boundary range of the text")),
                }
            }
            if let Some(first) = fails.first() {
                report.oracle_failure(json!({"input": input, "what": first, "all": fails.iter().take(6).collect::<Vec<_>>(), "class": null}));
            }
            // ---------------- tie: model of the parse-error loop
            let mut msg_ids: BTreeMap<&str, usize> = BTreeMap::new();
            let mut msgs = Vec::new();
            let enc: Vec<String> = errs
                .iter()
                .map(|(is_syntax, s, e, m)| {
                    let k = msg_ids.len();
                    let id = *msg_ids.entry(m.as_str()).or_insert_with(|| {
                        msgs.push(m.clone());
                        k
                    });
                    format!("{}_{s}_{e}_{id}", if *is_syntax { 0 } else { 1 })
                })
                .collect();
            pend.push(Pending { input, req: reqs.len(), expect, diags: ds, msgs });
            reqs.push(format!("diag.syntax {} {}", hex(text), if enc.is_empty() { "-".into() } else { enc.join(";") }));
            if report.samples.len() < 5 && !errs.is_empty() {
                report.sample(json!({"text": text, "config": cfg, "parse_errors": errs.len()}));
            }
        }
    }
    let answers = run_driver(&reqs);
    for p in &pend {
        let ans = &answers[p.req];
        // model answer: `ok <kind>_<sl>_<sc>_<el>_<ec>_<msgid>;…` (de-duplicated, in order)
        let Some(list) = ans.strip_prefix("ok ") else {
            report.mismatch(json!({"input": p.input, "tie": "diag.syntax", "model": ans}));
            continue;
        };
        let mut ok = true;
        let mut model: Vec<(String, (u32, u32, u32, u32), String)> = Vec::new();
        for item in list.split(';').filter(|x| !x.is_empty() && *x != "-") {
            let f: Vec<u32> = item.split('_').map(|x| x.parse().unwrap_or(u32::MAX)).collect();
            if f.len() != 6 {
                ok = false;
                break;
            }
            let code = if f[0] == 0 { "syntax-error" } else { "doc-syntax-error" };
            model.push((code.to_string(), (f[1], f[2], f[3], f[4]), p.msgs.get(f[5] as usize).cloned().unwrap_or_default()));
        }
        // the model's list must be exactly the distinct parse errors with their ranges as the harness
        // converts them, and each must be emitted exactly once by the implementation
        let mut distinct: Vec<(String, (u32, u32, u32, u32), String)> = Vec::new();
        for e in &p.expect {
            if !distinct.contains(e) {
                distinct.push(e.clone());
            }
        }
        if !ok || model != distinct {
            report.mismatch(json!({"input": p.input, "tie": "correspondence diag.syntax (model list vs distinct parse errors, independent position conversion)",
                "model": format!("{model:?}"), "expected": format!("{distinct:?}")}));
            continue;
        }
        let mut bad = None;
        for (code, r, msg) in &model {
            let n = p.diags.iter().filter(|d| d.code == *code && (d.sl, d.sc, d.el, d.ec) == *r && d.msg == *msg).count();
            if n != 1 {
                bad = Some(format!("{code} {r:?} {msg:?} emitted {n} times by the implementation, once by the model"));
                break;
            }
        }
        match bad {
            Some(b) => report.mismatch(json!({"input": p.input, "tie": "correspondence diag.syntax (SyntaxErrorChecker vs model)", "detail": b})),
            None => report.traces_validated += 1,
        }
    }
}

fn corpus() -> Vec<String> {
    vec![
        "local x =".into(),
        "local = 1\n".into(),
        "---@type\nlocal a\n".into(),
        "x = = 1\nif then end\n".into(),
        "local s = \"é😀\" local = 2\r\nlocal t = {\n".into(),
        "---@diagnostic disable:\n".into(),
        "".into(),
        "return return".into(),
    ]
}
