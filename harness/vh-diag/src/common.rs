//! Shared helpers: run the real analyzer on one file and canonicalise its diagnostics.
use emmylua_code_analysis::{Emmyrc, FileId, VirtualWorkspace};
use lsp_types::{Diagnostic, NumberOrString};
use tokio_util::sync::CancellationToken;
use vh_common::Args;

#[derive(Clone, Debug, PartialEq, Eq, PartialOrd, Ord, Hash)]
pub struct D {
    pub code: String,
    pub sl: u32,
    pub sc: u32,
    pub el: u32,
    pub ec: u32,
    pub sev: Option<i32>,
    pub msg: String,
}

pub fn canon(d: &Diagnostic) -> D {
    D {
        code: match &d.code {
            Some(NumberOrString::String(s)) => s.clone(),
            Some(NumberOrString::Number(n)) => format!("#{n}"),
            None => "<none>".into(),
        },
        sl: d.range.start.line,
        sc: d.range.start.character,
        el: d.range.end.line,
        ec: d.range.end.character,
        sev: d.severity.map(|s| match s {
            lsp_types::DiagnosticSeverity::ERROR => 1,
            lsp_types::DiagnosticSeverity::WARNING => 2,
            lsp_types::DiagnosticSeverity::INFORMATION => 3,
            lsp_types::DiagnosticSeverity::HINT => 4,
            _ => 0,
        }),
        msg: d.message.clone(),
    }
}

pub fn diagnose(ws: &mut VirtualWorkspace, name: &str, text: &str) -> (FileId, Option<Vec<D>>) {
    let id = ws.def_file(name, text);
    let r = ws.analysis.diagnose_file(id, CancellationToken::new());
    (id, r.map(|v| v.iter().map(canon).collect()))
}

pub fn probe(args: &Args) {
    let path = args.extra.get("file").expect("--file");
    let text = std::fs::read_to_string(path).expect("read");
    let mut ws = VirtualWorkspace::new();
    let mut rc = Emmyrc::default();
    if let Some(j) = args.extra.get("rc") {
        rc = serde_json::from_str(j).expect("emmyrc json");
    }
    ws.update_emmyrc(rc);
    let (id, ds) = diagnose(&mut ws, "probe.lua", &text);
    let tree = ws.analysis.compilation.get_db().get_vfs().get_syntax_tree(&id).expect("tree");
    println!("{:#?}", tree.get_red_root());
    for e in tree.get_errors() {
        println!("parse-error {:?} {:?} {}", e.kind, e.range, e.message);
    }
    println!("{ds:#?}");
}

// ---------------------------------------------------------------------------------------------
// positions: an independent line table (\n, \r\n, lone \r) and UTF-16 columns → byte offsets

pub fn line_starts(t: &str) -> Vec<usize> {
    let b = t.as_bytes();
    let mut starts = vec![0usize];
    let mut i = 0;
    while i < b.len() {
        if b[i] == b'\n' {
            starts.push(i + 1);
        } else if b[i] == b'\r' {
            if i + 1 < b.len() && b[i + 1] == b'\n' {
                starts.push(i + 2);
                i += 1;
            } else {
                starts.push(i + 1);
            }
        }
        i += 1;
    }
    starts
}

/// (line, utf16 col) → byte offset; None when the position is not a char boundary of that line
pub fn pos_to_offset(t: &str, starts: &[usize], line: u32, col: u32) -> Option<usize> {
    let s = *starts.get(line as usize)?;
    let e = starts.get(line as usize + 1).copied().unwrap_or(t.len());
    let mut c = 0u32;
    for (i, ch) in t[s..e].char_indices() {
        if c == col {
            return Some(s + i);
        }
        c += ch.len_utf16() as u32;
    }
    if c == col { Some(e) } else { None }
}

pub fn all_code_names() -> Vec<String> {
    let mut v: Vec<String> = emmylua_code_analysis::DiagnosticCode::all().iter().map(|c| c.get_name().to_string()).collect();
    v.sort();
    v.dedup();
    v
}

pub fn code_id(names: &[String], name: &str) -> Option<usize> {
    names.binary_search_by(|n| n.as_str().cmp(name)).ok()
}

// ---------------------------------------------------------------------------------------------
// `---@diagnostic` tags as the syntax tree presents them to `analyze_diagnostic`

#[derive(Clone, Debug)]
pub struct TreeTag {
    pub kind: char, // d n l e o
    pub codes: Option<Vec<Option<usize>>>,
    pub comment: (usize, usize),
    pub block: Option<((usize, usize), bool)>,
}

pub fn tree_tags(ws: &VirtualWorkspace, id: FileId, names: &[String]) -> Vec<TreeTag> {
    use emmylua_parser::{LuaAstNode, LuaAstToken, LuaBlock, LuaChunk, LuaComment, LuaDocTag};
    use std::str::FromStr;
    let tree = ws.analysis.compilation.get_db().get_vfs().get_syntax_tree(&id).expect("tree");
    let root = tree.get_chunk_node();
    let mut out = Vec::new();
    for comment in root.descendants::<LuaComment>() {
        let cr = comment.get_range();
        let block = comment.ancestors::<LuaBlock>().next().map(|b| {
            let r = b.get_range();
            ((u32::from(r.start()) as usize, u32::from(r.end()) as usize), b.get_parent::<LuaChunk>().is_some())
        });
        for tag in comment.get_doc_tags() {
            if let LuaDocTag::Diagnostic(d) = tag {
                let Some(tok) = d.get_action_token() else { continue };
                let kind = match tok.get_text() {
                    "disable" => 'd',
                    "disable-next-line" => 'n',
                    "disable-line" => 'l',
                    "enable" => 'e',
                    _ => 'o',
                };
                let codes = d.get_code_list().map(|l| {
                    l.get_codes()
                        .map(|c| {
                            emmylua_code_analysis::DiagnosticCode::from_str(c.get_name_text())
                                .ok()
                                .and_then(|dc| code_id(names, dc.get_name()))
                        })
                        .collect::<Vec<_>>()
                });
                out.push(TreeTag {
                    kind,
                    codes,
                    comment: (u32::from(cr.start()) as usize, u32::from(cr.end()) as usize),
                    block,
                });
            }
        }
    }
    out
}

pub fn enc_tags(tags: &[TreeTag]) -> String {
    if tags.is_empty() {
        return "-".into();
    }
    tags.iter()
        .map(|t| {
            let b = match t.block {
                None => "-".to_string(),
                Some(((a, b), top)) => format!("{a}_{b}_{}", if top { 1 } else { 0 }),
            };
            let c = match &t.codes {
                None => "*".to_string(),
                Some(v) if v.is_empty() => "!".to_string(),
                Some(v) => v.iter().map(|x| x.map(|n| n.to_string()).unwrap_or("?".into())).collect::<Vec<_>>().join(","),
            };
            format!("{}:{}:{}:{}:{}", t.kind, t.comment.0, t.comment.1, b, c)
        })
        .collect::<Vec<_>>()
        .join(";")
}

pub fn enc_list(v: &[usize]) -> String {
    if v.is_empty() { "-".into() } else { v.iter().map(|x| x.to_string()).collect::<Vec<_>>().join(",") }
}
