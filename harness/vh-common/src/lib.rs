//! Shared harness utilities: PRNG, hex, driver client, result report.
use serde_json::{Value, json};
use std::collections::BTreeMap;
use std::io::Write;
use std::process::{Command, Stdio};

/// SplitMix64: every random choice of a run derives from one state seeded by VERIF_SEED.
#[derive(Clone)]
pub struct Rng(pub u64);

impl Rng {
    pub fn new(seed: u64) -> Self {
        Rng(seed.wrapping_mul(0x9E3779B97F4A7C15) ^ 0xD1B54A32D192ED03)
    }
    pub fn next(&mut self) -> u64 {
        self.0 = self.0.wrapping_add(0x9E3779B97F4A7C15);
        let mut z = self.0;
        z = (z ^ (z >> 30)).wrapping_mul(0xBF58476D1CE4E5B9);
        z = (z ^ (z >> 27)).wrapping_mul(0x94D049BB133111EB);
        z ^ (z >> 31)
    }
    pub fn below(&mut self, n: usize) -> usize {
        if n == 0 { 0 } else { (self.next() % n as u64) as usize }
    }
    pub fn range(&mut self, lo: usize, hi: usize) -> usize {
        lo + self.below(hi - lo + 1)
    }
    pub fn chance(&mut self, num: usize, den: usize) -> bool {
        self.below(den) < num
    }
    pub fn pick<'a, T>(&mut self, xs: &'a [T]) -> &'a T {
        &xs[self.below(xs.len())]
    }
    pub fn fork(&mut self) -> Rng {
        Rng(self.next())
    }
}

pub fn hex(s: &str) -> String {
    if s.is_empty() {
        return "-".to_string();
    }
    let mut out = String::with_capacity(s.len() * 2);
    for b in s.as_bytes() {
        out.push_str(&format!("{:02x}", b));
    }
    out
}

pub fn unhex(s: &str) -> Option<String> {
    if s == "-" {
        return Some(String::new());
    }
    let b = s.as_bytes();
    if b.len() % 2 != 0 {
        return None;
    }
    let mut v = Vec::new();
    for i in (0..b.len()).step_by(2) {
        v.push(u8::from_str_radix(std::str::from_utf8(&b[i..i + 2]).ok()?, 16).ok()?);
    }
    String::from_utf8(v).ok()
}

/// Run the Lean model driver once over a batch of request lines; returns one response per request.
pub fn run_driver(requests: &[String]) -> Vec<String> {
    let path = std::env::var("VDRIVER").unwrap_or_else(|_| "/verif/lean/.lake/build/bin/vdriver".to_string());
    // the driver may be re-linked by a concurrent check: retry for a while before giving up
    let mut child = None;
    for attempt in 0..60 {
        match Command::new(&path).stdin(Stdio::piped()).stdout(Stdio::piped()).spawn() {
            Ok(c) => { child = Some(c); break; }
            Err(e) if attempt == 59 => panic!("cannot start model driver {path}: {e}"),
            Err(_) => std::thread::sleep(std::time::Duration::from_millis(500)),
        }
    }
    let mut child = child.expect("driver");
    let mut stdin = child.stdin.take().expect("stdin");
    let data: String = requests.iter().map(|r| format!("{r}\n")).collect();
    let writer = std::thread::spawn(move || {
        let _ = stdin.write_all(data.as_bytes());
    });
    let out = child.wait_with_output().expect("driver output");
    let _ = writer.join();
    let text = String::from_utf8_lossy(&out.stdout).to_string();
    let lines: Vec<String> = text.lines().map(|l| l.to_string()).collect();
    assert_eq!(
        lines.len(),
        requests.len(),
        "driver answered {} lines for {} requests",
        lines.len(),
        requests.len()
    );
    lines
}

pub struct Args {
    pub prop: String,
    pub tier: String,
    pub seed: u64,
    pub out: String,
    pub replay: Option<String>,
    pub extra: BTreeMap<String, String>,
}

impl Args {
    pub fn parse() -> Args {
        let mut a = Args {
            prop: String::new(),
            tier: "quick".into(),
            seed: 1,
            out: "/dev/stdout".into(),
            replay: None,
            extra: BTreeMap::new(),
        };
        let v: Vec<String> = std::env::args().skip(1).collect();
        let mut i = 0;
        while i < v.len() {
            match v[i].as_str() {
                "--tier" => { a.tier = v[i + 1].clone(); i += 2; }
                "--seed" => { a.seed = v[i + 1].parse().unwrap_or(1); i += 2; }
                "--out" => { a.out = v[i + 1].clone(); i += 2; }
                "--replay" => { a.replay = Some(v[i + 1].clone()); i += 2; }
                s if s.starts_with("--") => { a.extra.insert(s[2..].to_string(), v[i + 1].clone()); i += 2; }
                s => { a.prop = s.to_string(); i += 1; }
            }
        }
        a
    }
    pub fn thorough(&self) -> bool {
        self.tier == "thorough"
    }
}

/// What one harness run reports to `check`. Model disagreements (tie) and implementation-vs-oracle
/// failures are kept apart.
#[derive(Default)]
pub struct Report {
    pub evaluations: u64,
    pub distinct_nontrivial: u64,
    pub rule: String,
    pub samples: Vec<Value>,
    pub mismatches: Vec<Value>,
    pub oracle_failures: Vec<Value>,
    pub distribution: BTreeMap<String, u64>,
    pub notes: Vec<String>,
    pub traces_validated: u64,
    pub extra: BTreeMap<String, Value>,
}

impl Report {
    pub fn count(&mut self, key: &str) {
        *self.distribution.entry(key.to_string()).or_insert(0) += 1;
    }
    pub fn add(&mut self, key: &str, n: u64) {
        *self.distribution.entry(key.to_string()).or_insert(0) += n;
    }
    pub fn sample(&mut self, v: Value) {
        if self.samples.len() < 5 {
            self.samples.push(v);
        }
    }
    pub fn mismatch(&mut self, v: Value) {
        if self.mismatches.len() < 20 {
            self.mismatches.push(v);
        } else {
            self.count("mismatches_not_listed");
        }
        self.count("mismatches_total");
    }
    pub fn oracle_failure(&mut self, v: Value) {
        // cap per class so that failures of an already-listed (known) class never crowd out
        // unclassified ones: at most 10 listed per class, 50 without a class
        let class = v.get("class").and_then(|c| c.as_str()).map(|s| s.to_string());
        let same = self
            .oracle_failures
            .iter()
            .filter(|o| o.get("class").and_then(|c| c.as_str()).map(|s| s.to_string()) == class)
            .count();
        let cap = if class.is_some() { 10 } else { 50 };
        if same < cap {
            self.oracle_failures.push(v);
        } else {
            self.count("oracle_failures_not_listed");
        }
        self.count("oracle_failures_total");
    }
    pub fn write(&self, path: &str) {
        let v = json!({
            "evaluations": self.evaluations,
            "distinct_nontrivial": self.distinct_nontrivial,
            "rule": self.rule,
            "samples": self.samples,
            "mismatches": self.mismatches,
            "oracle_failures": self.oracle_failures,
            "distribution": self.distribution,
            "notes": self.notes,
            "traces_validated_against_impl": self.traces_validated,
            "extra": self.extra,
        });
        let s = serde_json::to_string_pretty(&v).expect("json");
        if path == "/dev/stdout" {
            println!("{s}");
        } else {
            std::fs::write(path, s).expect("write report");
        }
    }
}

/// Run `f` catching panics; returns Err(message) on panic.
pub fn catch<T>(f: impl FnOnce() -> T + std::panic::UnwindSafe) -> Result<T, String> {
    match std::panic::catch_unwind(f) {
        Ok(v) => Ok(v),
        Err(e) => {
            let msg = if let Some(s) = e.downcast_ref::<&str>() {
                s.to_string()
            } else if let Some(s) = e.downcast_ref::<String>() {
                s.clone()
            } else {
                "panic".to_string()
            };
            Err(msg)
        }
    }
}

pub fn silence_panics() {
    std::panic::set_hook(Box::new(|_| {}));
}

/// Text generators shared by several families.
pub mod gen_text {
    use super::Rng;

    pub const ALPHABET: &[&str] = &[
        "a", "b", "z", " ", "\t", "\n", "\n", "\r", "\r\n", "é", "ß", "中", "文", "😀", "𝒳", "\u{feff}", "-", "(", "x", "1",
    ];

    /// texts over {ASCII, BMP, astral, \n, \r, \r\n, BOM}
    pub fn text(rng: &mut Rng, max_len: usize) -> String {
        let n = rng.below(max_len + 1);
        let mode = rng.below(4);
        let mut s = String::new();
        for _ in 0..n {
            let piece = match mode {
                0 => *rng.pick(&ALPHABET[..9]),     // ASCII + terminators
                1 => *rng.pick(&ALPHABET[5..15]),   // terminators + non-ASCII
                _ => *rng.pick(ALPHABET),
            };
            s.push_str(piece);
        }
        s
    }

    /// all texts over `symbols` of length ≤ n
    pub fn all_texts(symbols: &[&str], n: usize) -> Vec<String> {
        let mut out = vec![String::new()];
        let mut frontier = vec![String::new()];
        for _ in 0..n {
            let mut next = Vec::new();
            for f in &frontier {
                for s in symbols {
                    let mut t = f.clone();
                    t.push_str(s);
                    next.push(t);
                }
            }
            out.extend(next.iter().cloned());
            frontier = next;
        }
        out
    }
}
