//! C26: every structure-returning request on generated / fixed documents (valid and invalid, doc comments,
//! multi-byte text, CRLF), results validated against the document:
//!   * every range / position of the document lies inside it, start ≤ end;
//!   * semantic tokens: decoded tokens ordered, non-overlapping, inside the document, type / modifier indices
//!     inside the advertised legend; tie: the builder's recorded input entries re-encoded by the Lean model
//!     (`lspshape.build`) must equal the data the server returned;
//!   * document symbols nest (children inside parents, selectionRange inside range); folding start ≤ end;
//!   * selection ranges: each parent contains its child and is strictly larger (tie: model validators);
//!   * completion: the main edit is a single-line range containing the cursor;
//!   * workspace edits / formatting edits: the edits of one document never overlap (tie: model validator).
use crate::docs::{self, pos_json, range_json};
use crate::session::{Reply, Session, take_panics};
use emmylua_ls::verif_handlers::{server_capabilities, take_semantic_entries};
use emmylua_parser::{LuaParser, ParserConfig};
use lsp_types::ClientCapabilities;
use rowan::{NodeOrToken, WalkEvent};
use serde_json::{Value, json};
use vh_common::{Args, Report, Rng, run_driver};

type P = (u64, u64);
type R = (P, P);

fn pos(v: &Value) -> Option<P> {
    Some((v.get("line")?.as_u64()?, v.get("character")?.as_u64()?))
}
fn range(v: &Value) -> Option<R> {
    Some((pos(v.get("start")?)?, pos(v.get("end")?)?))
}

pub struct Doc<'a> {
    pub text: &'a str,
    pub lines: Vec<(usize, usize, usize)>,
    pub uri: &'a str,
}

impl Doc<'_> {
    fn pos_in_doc(&self, p: P) -> bool {
        (p.0 as usize) < self.lines.len() && p.1 as usize <= self.lines[p.0 as usize].2
    }
    /// None = fine
    fn check_range(&self, r: R) -> Option<String> {
        if r.0 > r.1 {
            return Some(format!("range start {:?} after end {:?}", r.0, r.1));
        }
        if !self.pos_in_doc(r.0) || !self.pos_in_doc(r.1) {
            return Some(format!(
                "range {:?}-{:?} outside the document ({} lines, line lengths {:?})",
                r.0,
                r.1,
                self.lines.len(),
                self.lines.iter().map(|l| l.2).take(12).collect::<Vec<_>>()
            ));
        }
        None
    }
}

const RANGE_KEYS: &[&str] = &["range", "selectionRange", "targetRange", "targetSelectionRange", "originSelectionRange", "insert", "replace"];

/// every range-valued field of objects that belong to our document
fn collect_ranges(v: &Value, uri: &str, out: &mut Vec<(String, R)>, path: &str) {
    match v {
        Value::Array(a) => {
            for (i, x) in a.iter().enumerate() {
                collect_ranges(x, uri, out, &format!("{path}[{i}]"));
            }
        }
        Value::Object(o) => {
            for k in ["uri", "targetUri"] {
                if let Some(u) = o.get(k).and_then(|u| u.as_str()) {
                    if u != uri {
                        return;
                    }
                }
            }
            // WorkspaceEdit.changes: uri -> edits
            if let Some(Value::Object(ch)) = o.get("changes") {
                for (u, edits) in ch {
                    if u == uri {
                        collect_ranges(edits, uri, out, &format!("{path}.changes"));
                    }
                }
            }
            for (k, x) in o {
                if k == "changes" {
                    continue;
                }
                if RANGE_KEYS.contains(&k.as_str()) {
                    if let Some(r) = range(x) {
                        out.push((format!("{path}.{k}"), r));
                        continue;
                    }
                }
                if k == "position" {
                    if let Some(p) = pos(x) {
                        out.push((format!("{path}.{k}"), (p, p)));
                        continue;
                    }
                }
                collect_ranges(x, uri, out, &format!("{path}.{k}"));
            }
        }
        _ => {}
    }
}

fn contains(outer: R, inner: R) -> bool {
    outer.0 <= inner.0 && inner.1 <= outer.1
}
fn overlaps(a: R, b: R) -> bool {
    !(a.1 <= b.0 || b.1 <= a.0)
}

fn check_symbols(doc: &Doc, v: &Value, parent: Option<R>, errs: &mut Vec<String>) {
    if let Some(a) = v.as_array() {
        for s in a {
            let (Some(r), Some(sel)) = (s.get("range").and_then(range), s.get("selectionRange").and_then(range)) else {
                continue; // SymbolInformation form: covered by the generic range check
            };
            if !contains(r, sel) {
                errs.push(format!("symbol {:?}: selectionRange {:?} not inside range {:?}", s.get("name"), sel, r));
            }
            if let Some(p) = parent {
                if !contains(p, r) {
                    errs.push(format!("symbol {:?}: range {:?} not inside its parent's range {:?}", s.get("name"), r, p));
                }
            }
            if let Some(ch) = s.get("children") {
                check_symbols(doc, ch, Some(r), errs);
            }
        }
    }
}

/// document symbols flattened in preorder: (range, selectionRange, index of the parent symbol)
fn flatten_symbols(v: &Value, parent: Option<usize>, out: &mut Vec<(R, R, Option<usize>)>) {
    if let Some(a) = v.as_array() {
        for s in a {
            let (Some(r), Some(sel)) = (s.get("range").and_then(range), s.get("selectionRange").and_then(range)) else { continue };
            let idx = out.len();
            out.push((r, sel, parent));
            if let Some(ch) = s.get("children") {
                flatten_symbols(ch, Some(idx), out);
            }
        }
    }
}

/// the real syntax tree as a `RangeTree`: nodes in preorder with the index of their parent; plus every node/token boundary
fn range_tree(text: &str) -> (Vec<(usize, usize, Option<usize>)>, std::collections::HashSet<usize>) {
    let tree = LuaParser::parse(text, ParserConfig::default());
    let mut nodes: Vec<(usize, usize, Option<usize>)> = vec![];
    let mut stack: Vec<usize> = vec![];
    let mut bounds = std::collections::HashSet::new();
    for ev in tree.get_red_root().preorder_with_tokens() {
        match ev {
            WalkEvent::Enter(NodeOrToken::Node(n)) => {
                let (s, e) = (u32::from(n.text_range().start()) as usize, u32::from(n.text_range().end()) as usize);
                bounds.insert(s);
                bounds.insert(e);
                nodes.push((s, e, stack.last().copied()));
                stack.push(nodes.len() - 1);
            }
            WalkEvent::Leave(NodeOrToken::Node(_)) => {
                stack.pop();
            }
            WalkEvent::Enter(NodeOrToken::Token(t)) => {
                bounds.insert(u32::from(t.text_range().start()) as usize);
                bounds.insert(u32::from(t.text_range().end()) as usize);
            }
            _ => {}
        }
    }
    (nodes, bounds)
}

/// byte offset of an LSP position, by the harness' own line table
fn offset_of(doc: &Doc, p: P) -> Option<usize> {
    let (s, e, _) = *doc.lines.get(p.0 as usize)?;
    let mut col = 0u64;
    for (i, c) in doc.text[s..e].char_indices() {
        if col == p.1 {
            return Some(s + i);
        }
        col += c.len_utf16() as u64;
    }
    if col == p.1 { Some(e) } else { None }
}

fn chain(v: &Value) -> Vec<R> {
    let mut out = vec![];
    let mut cur = Some(v);
    while let Some(c) = cur {
        if let Some(r) = c.get("range").and_then(range) {
            out.push(r);
        }
        cur = c.get("parent").filter(|p| !p.is_null());
    }
    out
}

fn ranges_arg(rs: &[R]) -> String {
    if rs.is_empty() {
        "-".into()
    } else {
        rs.iter().map(|r| format!("{}:{}:{}:{}", r.0.0, r.0.1, r.1.0, r.1.1)).collect::<Vec<_>>().join(";")
    }
}

/// classes of known findings, computed from the *input* (document text, request)
fn has_multiline_token(text: &str) -> bool {
    let tree = LuaParser::parse(text, ParserConfig::default());
    for ev in tree.get_red_root().preorder_with_tokens() {
        if let WalkEvent::Enter(NodeOrToken::Token(t)) = ev {
            let s = t.text();
            if s.contains('\n') || s.contains('\r') {
                let k = format!("{:?}", t.kind());
                if !k.contains("Whitespace") && !k.contains("EndOfLine") {
                    return true;
                }
            }
        }
    }
    false
}

struct Ctx<'a> {
    report: &'a mut Report,
    seen_kinds: std::collections::HashMap<String, u32>,
    driver_reqs: Vec<String>,
    driver_expect: Vec<(String, Value)>, // expected answer, input for the mismatch report
}

impl Ctx<'_> {
    fn fail(&mut self, what: String, text: &str, method: &str, params: &Value, class: Option<&str>) {
        // keep the listed failures varied: at most 3 per (method, class, message head)
        let head: String = what.split(": ").nth(1).unwrap_or("").chars().take(28).collect();
        let key = format!("{method}|{class:?}|{head}");
        let n = self.seen_kinds.entry(key.clone()).or_insert(0);
        *n += 1;
        self.report.count(&format!("fail[{key}]"));
        if *n > 3 {
            self.report.count("oracle_failures_total");
            self.report.count("oracle_failures_not_listed");
            return;
        }
        self.report.oracle_failure(json!({"what": what, "input": {"text": text, "method": method, "params": params},
            "class": class.map(|c| json!(c)).unwrap_or(Value::Null)}));
    }
    fn tie(&mut self, req: String, expect: String, input: Value) {
        self.driver_reqs.push(req);
        self.driver_expect.push((expect, input));
    }
}

fn result_of(cx: &mut Ctx, text: &str, method: &str, params: &Value, reply: Reply) -> Option<Value> {
    cx.report.evaluations += 1;
    cx.report.count(&format!("req_{method}"));
    match reply {
        Reply::Result(v) => {
            let _ = take_panics();
            if !v.is_null() {
                cx.report.count(&format!("nonnull_{method}"));
            }
            Some(v)
        }
        Reply::Error(code, msg) => {
            let p = take_panics();
            cx.fail(format!("{method}: error {code} {msg} {}", p.first().cloned().unwrap_or_default()), text, method, params, Some("handler-panic-is-C25"));
            None
        }
        Reply::Timeout => {
            cx.fail(format!("{method}: no response within 30 s"), text, method, params, None);
            None
        }
    }
}

fn generic_ranges(cx: &mut Ctx, doc: &Doc, method: &str, params: &Value, v: &Value) {
    let mut rs = vec![];
    collect_ranges(v, doc.uri, &mut rs, "");
    cx.report.add("ranges_checked", rs.len() as u64);
    for (path, r) in rs {
        if let Some(e) = doc.check_range(r) {
            // known finding: `LuaDocument::get_document_lsp_range` ends at (line_count, 0); keyed by the requests
            // that return a whole-document range and by exactly that end position
            let whole_doc = matches!(method, "textDocument/formatting" | "textDocument/rangeFormatting" | "textDocument/definition"
                | "textDocument/prepareCallHierarchy" | "callHierarchy/incomingCalls" | "callHierarchy/outgoingCalls");
            let class = if whole_doc && r.0 == (0, 0) && r.1.0 as usize == doc.lines.len() && r.1.1 == 0 { Some("whole-document-range-ends-at-line-count") } else { None };
            cx.fail(format!("{method}: result{path}: {e}"), doc.text, method, params, class);
            return;
        }
    }
}

fn edits_of(v: &Value, uri: &str) -> Vec<R> {
    // TextEdit[] | WorkspaceEdit{changes|documentChanges}
    let mut out = vec![];
    if let Some(a) = v.as_array() {
        for e in a {
            if let Some(r) = e.get("range").and_then(range) {
                out.push(r);
            }
        }
    }
    if let Some(Value::Object(ch)) = v.get("changes") {
        if let Some(Value::Array(a)) = ch.get(uri) {
            for e in a {
                if let Some(r) = e.get("range").and_then(range) {
                    out.push(r);
                }
            }
        }
    }
    if let Some(Value::Array(dc)) = v.get("documentChanges") {
        for d in dc {
            if d.get("textDocument").and_then(|t| t.get("uri")).and_then(|u| u.as_str()) == Some(uri) {
                if let Some(Value::Array(a)) = d.get("edits") {
                    for e in a {
                        if let Some(r) = e.get("range").and_then(range) {
                            out.push(r);
                        }
                    }
                }
            }
        }
    }
    out
}

fn check_edits(cx: &mut Ctx, doc: &Doc, method: &str, params: &Value, v: &Value) {
    let es = edits_of(v, doc.uri);
    if es.is_empty() {
        return;
    }
    cx.report.add("edit_sets_checked", 1);
    let mut disjoint = true;
    for i in 0..es.len() {
        for j in i + 1..es.len() {
            if overlaps(es[i], es[j]) || (es[i] == es[j]) {
                disjoint = false;
            }
        }
    }
    // two zero-width edits at the same position are reported as well: their order is client-defined
    if !disjoint {
        cx.fail(format!("{method}: edits of one document overlap: {:?}", &es[..es.len().min(6)]), doc.text, method, params, None);
    }
    let model_disjoint = {
        let mut d = true;
        for i in 0..es.len() {
            for j in i + 1..es.len() {
                if overlaps(es[i], es[j]) {
                    d = false;
                }
            }
        }
        d
    };
    if es.len() <= 200 {
        cx.tie(format!("lspshape.edits {}", ranges_arg(&es)), format!("ok disjoint={model_disjoint}"), json!({"text": doc.text, "method": method, "edits": format!("{es:?}")}));
    }
}

fn semantic_tokens(cx: &mut Ctx, s: &mut Session, doc: &Doc, multiline: bool, legend: (usize, usize)) {
    let method = "textDocument/semanticTokens/full";
    let params = json!({"textDocument": {"uri": doc.uri}});
    let _ = take_semantic_entries();
    let reply = s.request(method, params.clone());
    let Some(v) = result_of(cx, doc.text, method, &params, reply) else { return };
    let entries = take_semantic_entries();
    let Some(data) = v.get("data").and_then(|d| d.as_array()) else { return };
    let data: Vec<u64> = data.iter().filter_map(|x| x.as_u64()).collect();
    if data.len() % 5 != 0 {
        cx.fail(format!("{method}: data length {} is not a multiple of 5", data.len()), doc.text, method, &params, None);
        return;
    }
    // independent decoder
    let (mut line, mut col) = (0u64, 0u64);
    let mut toks: Vec<[u64; 5]> = vec![];
    for c in data.chunks(5) {
        line += c[0];
        col = if c[0] != 0 { c[1] } else { col + c[1] };
        toks.push([line, col, c[2], c[3], c[4]]);
    }
    cx.report.add("semantic_tokens_decoded", toks.len() as u64);
    if std::env::var("VH_DEBUG").is_ok() {
        eprintln!("multiline={multiline} entries={:?}\n toks={:?}", entries.last(), toks);
    }
    let ml_class = if !multiline && has_multiline_token(doc.text) { Some("semantic-token-multiline-flatten") } else { None };
    // legend
    for t in &toks {
        if t[3] as usize >= legend.0 || t[4] >> legend.1 != 0 {
            cx.fail(format!("{method}: token {t:?} has type/modifier outside the legend ({} types, {} modifiers)", legend.0, legend.1), doc.text, method, &params, None);
            break;
        }
    }
    // order / overlap
    for w in toks.windows(2) {
        let (a, b) = (w[0], w[1]);
        let ok = if multiline { (a[0], a[1]) < (b[0], b[1]) } else { a[0] < b[0] || (a[0] == b[0] && a[1] + a[2] <= b[1]) };
        if !ok {
            cx.fail(format!("{method}: decoded tokens out of order or overlapping: {a:?} then {b:?}"), doc.text, method, &params, ml_class);
            break;
        }
    }
    // in document
    for t in &toks {
        let l = t[0] as usize;
        let ok = l < doc.lines.len() && t[1] as usize <= doc.lines[l].2 && (multiline || (t[1] + t[2]) as usize <= doc.lines[l].2);
        if !ok {
            let class = if t[2] == 9999 { Some("semantic-token-multiline-flatten") } else { ml_class };
            cx.fail(format!("{method}: decoded token {t:?} does not lie inside the document (line lengths {:?})",
                doc.lines.iter().map(|l| l.2).take(12).collect::<Vec<_>>()), doc.text, method, &params, class);
            break;
        }
    }
    // tie: recorded builder input re-encoded by the model
    if let Some(es) = entries.last() {
        let mut keys: Vec<(u32, u32)> = es.iter().map(|e| (e[0], e[1])).collect();
        keys.sort();
        let dup = keys.windows(2).any(|w| w[0] == w[1]);
        if dup {
            cx.report.count("semantic_entries_with_equal_start");
        }
        let arg = if es.is_empty() { "-".to_string() } else {
            es.iter().map(|e| format!("{}:{}:{}:{}:{}", e[0], e[1], e[2], e[3], e[4])).collect::<Vec<_>>().join(";")
        };
        if es.len() <= 4000 {
            let expect = if data.is_empty() { "ok -".to_string() } else {
                format!("ok {}", data.chunks(5).map(|c| format!("{}:{}:{}:{}:{}", c[0], c[1], c[2], c[3], c[4])).collect::<Vec<_>>().join(";"))
            };
            cx.tie(format!("lspshape.build {arg}"), expect, json!({"text": doc.text, "method": method}));
        }
        // oracle on the builder itself: no token is invented — every decoded token is a pushed entry
        // (same start, type, modifiers), possibly shortened; nothing is lost when the entries were disjoint
        for t in &toks {
            let ok = es.iter().any(|e| e[0] as u64 == t[0] && e[1] as u64 == t[1] && e[3] as u64 == t[3] && e[4] as u64 == t[4] && t[2] <= e[2] as u64);
            if !ok {
                cx.fail(format!("{method}: decoded token {t:?} is not one of the builder's entries"), doc.text, method, &params, None);
                break;
            }
        }
        let mut sorted: Vec<&[u32; 5]> = es.iter().filter(|e| e[2] > 0).collect();
        sorted.sort_by_key(|e| (e[0], e[1]));
        let input_ordered = sorted.windows(2).all(|w| w[0][0] < w[1][0] || (w[0][0] == w[1][0] && w[0][1] + w[0][2] <= w[1][1]));
        if input_ordered && sorted.len() != toks.len() {
            cx.fail(format!("{method}: {} disjoint entries pushed but {} tokens decoded", sorted.len(), toks.len()), doc.text, method, &params, None);
        }
        if !input_ordered {
            cx.report.count("semantic_entries_overlapping_input");
        }
    } else if !toks.is_empty() {
        cx.report.count("semantic_entries_not_recorded");
    }
}

pub fn run(args: &Args, report: &mut Report) {
    let mut rng = Rng::new(args.seed ^ 0xC26);
    let thorough = args.thorough();
    let mut s = Session::new(ClientCapabilities::default(), true);
    let ml_caps: ClientCapabilities = serde_json::from_value(json!({"textDocument": {"semanticTokens": {
        "requests": {}, "tokenTypes": [], "tokenModifiers": [], "formats": [], "multilineTokenSupport": true}}})).expect("caps");
    let mut s_ml = Session::new(ml_caps, false);
    let uri = s.uri_str.clone();
    let caps = serde_json::to_value(server_capabilities(&ClientCapabilities::default())).expect("caps json");
    let legend = (
        caps["semanticTokensProvider"]["legend"]["tokenTypes"].as_array().map(|a| a.len()).unwrap_or(0),
        caps["semanticTokensProvider"]["legend"]["tokenModifiers"].as_array().map(|a| a.len()).unwrap_or(0),
    );
    report.extra.insert("legend".into(), json!({"types": legend.0, "modifiers": legend.1}));
    report.rule = "case = (document, structure-returning request [, position]); distinct by (text, method, params); \
        non-trivial = the request returned a non-null result that was validated"
        .into();
    let mut cx = Ctx { report, seen_kinds: Default::default(), driver_reqs: vec![], driver_expect: vec![] };

    let mut docs_list = if let Some(path) = &args.replay {
        let r: Value = serde_json::from_str(&std::fs::read_to_string(path).expect("replay")).expect("json");
        vec![(r["input"]["text"].as_str().unwrap_or("").to_string(), "replay")]
    } else {
        let (nv, ni) = if thorough { (600, 400) } else { (70, 50) };
        docs::documents(&mut rng, nv, ni)
    };
    // a second file so that cross-file results (other uri) occur
    s.set_file("b.lua", "---@class Animal\n---@field name string\nlocal M = {}\nfunction M.foo(a, b) return a end\nreturn M\n");
    for (text, kind) in docs_list.drain(..) {
        cx.report.count(&format!("docs_{kind}"));
        s.set_text(&text);
        s_ml.set_text(&text);
        let doc = Doc { text: &text, lines: docs::lines(&text), uri: &uri };
        let td = json!({"uri": uri});
        let before = cx.report.oracle_failures.len();

        // root cause of the former finding `text-contains-lf-cr-sequence`: no token may start or end between the
        // `\r` and `\n` of one line terminator (LSP positions cannot denote that point)
        {
            let (offs, _) = docs::token_offsets(&text);
            let b = text.as_bytes();
            if let Some(o) = offs.iter().find(|o| **o > 0 && **o < b.len() && b[**o - 1] == b'\r' && b[**o] == b'\n' && text.is_char_boundary(**o)) {
                // mid-token sample points are not boundaries: check real token starts only
                let tree = LuaParser::parse(&text, ParserConfig::default());
                let is_start = tree.get_red_root().preorder_with_tokens().any(|ev| matches!(ev, WalkEvent::Enter(NodeOrToken::Token(t)) if u32::from(t.text_range().start()) as usize == *o));
                if is_start {
                    cx.fail(format!("lexer: a token boundary at byte {o} lies between the \\r and \\n of a line terminator"), &text, "parse", &Value::Null, None);
                }
            }
            cx.report.evaluations += 1;
        }
        // obligation on rowan that the RangeTree theorems assume: the real tree is well nested (model validator)
        {
            let (nodes, _) = range_tree(&text);
            cx.report.add("tree_nodes", nodes.len() as u64);
            if !nodes.is_empty() && nodes.len() <= 1500 {
                let arg = nodes.iter().map(|(a, b, p)| format!("{a}:{b}:{}", p.map(|j| j.to_string()).unwrap_or_else(|| "x".into()))).collect::<Vec<_>>().join(";");
                cx.tie(format!("lspshape.tree {arg}"), "ok wellNested=true".to_string(), json!({"text": text, "what": "syntax tree as RangeTree"}));
            }
            // `lineOf` of the model vs `LineIndex::get_line` on the implementation's own line starts
            let li = emmylua_parser::LineIndex::parse(&text);
            let starts: Vec<usize> = (0..li.line_count()).filter_map(|l| li.get_line_offset(l)).map(|o| u32::from(o) as usize).collect();
            let mut offs: Vec<usize> = (0..=text.len()).filter(|o| text.is_char_boundary(*o)).collect();
            while offs.len() > 40 {
                let i = rng.below(offs.len());
                offs.swap_remove(i);
            }
            offs.sort();
            let got: Vec<String> = offs.iter().map(|o| li.get_line(rowan::TextSize::new(*o as u32)).map(|l| l.to_string()).unwrap_or_else(|| "none".into())).collect();
            if !starts.is_empty() && !offs.is_empty() {
                cx.tie(format!("lspshape.lines {} {}", starts.iter().map(|x| x.to_string()).collect::<Vec<_>>().join(":"), offs.iter().map(|x| x.to_string()).collect::<Vec<_>>().join(":")),
                    format!("ok {}", got.join(":")), json!({"text": text, "what": "lineOf vs LineIndex::get_line"}));
            }
        }
        semantic_tokens(&mut cx, &mut s, &doc, false, legend);
        semantic_tokens(&mut cx, &mut s_ml, &doc, true, legend);

        // ---- whole-document requests
        for method in ["textDocument/documentSymbol", "textDocument/foldingRange", "textDocument/codeLens", "textDocument/documentLink",
            "textDocument/documentColor", "textDocument/diagnostic", "emmy/annotator", "emmy/gutter", "textDocument/formatting", "workspace/symbol"] {
            let params = match method {
                "emmy/annotator" | "emmy/gutter" => json!({"uri": uri}),
                "textDocument/formatting" => json!({"textDocument": td, "options": {"tabSize": 4, "insertSpaces": true}}),
                "workspace/symbol" => json!({"query": "a"}),
                _ => json!({"textDocument": td}),
            };
            let reply = s.request(method, params.clone());
            let Some(v) = result_of(&mut cx, &text, method, &params, reply) else { continue };
            if v.is_null() {
                continue;
            }
            match method {
                "textDocument/foldingRange" => {
                    if let Some(a) = v.as_array() {
                        for f in a {
                            let (sl, el) = (f["startLine"].as_u64().unwrap_or(0), f["endLine"].as_u64().unwrap_or(0));
                            let bad = sl > el || el as usize >= doc.lines.len()
                                || (sl == el && f["startCharacter"].as_u64().unwrap_or(0) > f["endCharacter"].as_u64().unwrap_or(u64::MAX));
                            if bad {
                                cx.fail(format!("{method}: folding range {f} has start > end or lies outside the document ({} lines)", doc.lines.len()), &text, method, &params, None);
                                break;
                            }
                        }
                        let fs: Vec<(u64, u64)> = a.iter().map(|f| (f["startLine"].as_u64().unwrap_or(0), f["endLine"].as_u64().unwrap_or(0))).collect();
                        cx.report.add("folds_checked", fs.len() as u64);
                        let own_ok = fs.iter().all(|f| f.0 <= f.1 && (f.1 as usize) < doc.lines.len());
                        if fs.len() <= 400 {
                            let arg = if fs.is_empty() { "-".to_string() } else { fs.iter().map(|f| format!("{}:{}", f.0, f.1)).collect::<Vec<_>>().join(";") };
                            cx.tie(format!("lspshape.folds {} {arg}", doc.lines.len()), format!("ok valid={own_ok}"), json!({"text": text, "method": method}));
                        }
                    }
                }
                "textDocument/documentSymbol" => {
                    let mut errs = vec![];
                    check_symbols(&doc, &v, None, &mut errs);
                    if let Some(e) = errs.first() {
                        cx.fail(format!("{method}: {e}"), &text, method, &params, None);
                    }
                    // tie: the model's validator on the flattened result must agree with the harness' own
                    let mut flat = vec![];
                    flatten_symbols(&v, None, &mut flat);
                    cx.report.add("symbols_checked", flat.len() as u64);
                    let own_ok = flat.iter().enumerate().all(|(i, (r, sel, p))| {
                        r.0 <= r.1 && contains(*r, *sel) && p.map(|j| j < i && contains(flat[j].0, *r)).unwrap_or(true)
                    });
                    if own_ok != errs.is_empty() {
                        cx.report.count("symbol_validators_disagree");
                    }
                    if flat.len() <= 400 {
                        let arg = if flat.is_empty() { "-".to_string() } else {
                            flat.iter().map(|(r, sel, p)| format!("{}:{}:{}:{}:{}:{}:{}:{}:{}", r.0.0, r.0.1, r.1.0, r.1.1, sel.0.0, sel.0.1, sel.1.0, sel.1.1,
                                p.map(|j| j.to_string()).unwrap_or_else(|| "x".into()))).collect::<Vec<_>>().join(";")
                        };
                        cx.tie(format!("lspshape.symbols {arg}"), format!("ok valid={own_ok}"), json!({"text": text, "method": method}));
                    }
                    // producer discipline assumed by `C26_symbol_nesting`: a symbol's range and selection range start and end
                    // at node/token boundaries of the syntax tree (they are node ranges or covers of node ranges)
                    let (_, bounds) = range_tree(&text);
                    for (r, sel, _) in &flat {
                        for p in [r.0, r.1, sel.0, sel.1] {
                            match offset_of(&doc, p) {
                                Some(o) if bounds.contains(&o) => {}
                                _ => {
                                    cx.fail(format!("{method}: symbol position {p:?} is not a node/token boundary of the syntax tree"), &text, method, &params, None);
                                    break;
                                }
                            }
                        }
                    }
                    generic_ranges(&mut cx, &doc, method, &params, &v);
                }
                "textDocument/formatting" => {
                    generic_ranges(&mut cx, &doc, method, &params, &v);
                    check_edits(&mut cx, &doc, method, &params, &v);
                }
                _ => generic_ranges(&mut cx, &doc, method, &params, &v),
            }
        }

        // ---- position requests at (a sample of) every token
        let grid = docs::position_grid(&text, &mut rng, if thorough { 40 } else { 14 });
        // dense sweep for the cursor-dependent clauses (selection ranges, completion edits): every UTF-16 column of
        // short documents and of the lines holding comments / strings / trigger characters — boundaries *inside* a
        // token (markup items of a doc description, string content) are not token boundaries
        let mut dense = docs::dense_positions(&text, text.len() > 160);
        let cap = if thorough { 250 } else { 70 };
        while dense.len() > cap {
            let i = rng.below(dense.len());
            dense.swap_remove(i);
        }
        dense.retain(|p| !grid.contains(p));
        cx.report.add("dense_positions", dense.len() as u64);
        let plist: Vec<((u32, u32), bool)> = grid.iter().map(|p| (*p, false)).chain(dense.iter().map(|p| (*p, true))).collect();
        for (i, (p, is_dense)) in plist.iter().enumerate() {
            let in_doc = doc.pos_in_doc((p.0 as u64, p.1 as u64));
            for method in ["textDocument/selectionRange", "textDocument/completion", "textDocument/rename", "textDocument/hover",
                "textDocument/definition", "textDocument/references", "textDocument/documentHighlight", "textDocument/prepareRename",
                "textDocument/prepareCallHierarchy", "textDocument/signatureHelp", "textDocument/implementation"] {
                if *is_dense && !matches!(method, "textDocument/selectionRange" | "textDocument/completion") {
                    continue;
                }
                if !thorough && i % 2 == 1 && matches!(method, "textDocument/references" | "textDocument/implementation" | "textDocument/hover") {
                    continue;
                }
                let params = crate::c25::position_params(method, &uri, *p, *p);
                let reply = s.request(method, params.clone());
                let Some(v) = result_of(&mut cx, &text, method, &params, reply) else { continue };
                if v.is_null() {
                    continue;
                }
                match method {
                    "textDocument/selectionRange" => {
                        if let Some(a) = v.as_array() {
                            for sr in a {
                                let ch = chain(sr);
                                let nested = ch.windows(2).all(|w| contains(w[1], w[0]));
                                let strict = ch.windows(2).all(|w| contains(w[1], w[0]) && w[1] != w[0]);
                                if !nested {
                                    cx.fail(format!("{method}: a parent range does not contain its child: {ch:?}"), &text, method, &params, None);
                                } else if !strict {
                                    cx.fail(format!("{method}: selection ranges do not strictly grow (equal consecutive ranges): {ch:?}"), &text, method, &params, Some("selection-range-equal-steps"));
                                }
                                if ch.len() <= 200 {
                                    cx.tie(format!("lspshape.chain {}", ranges_arg(&ch)), format!("ok nested={nested} strict={strict} growStrict=true"),
                                        json!({"text": text, "method": method, "params": params}));
                                }
                            }
                        }
                        generic_ranges(&mut cx, &doc, method, &params, &v);
                    }
                    "textDocument/completion" => {
                        let items = v.get("items").cloned().unwrap_or(v.clone());
                        if let Some(a) = items.as_array() {
                            cx.report.add("completion_items", a.len() as u64);
                            for it in a {
                                if it.get("label").and_then(|l| l.as_str()).is_some_and(|l| l.starts_with('#')) {
                                    cx.report.count("completion_array_append_items");
                                }
                                if it.get("textEdit").is_some() {
                                    cx.report.count("completion_items_with_text_edit");
                                }
                                if let Some(te) = it.get("textEdit") {
                                    let rs: Vec<R> = ["range", "insert", "replace"].iter().filter_map(|k| te.get(*k).and_then(range)).collect();
                                    let cur = (p.0 as u64, p.1 as u64);
                                    if let Some(r) = rs.iter().find(|r| r.0.0 != r.1.0 || (in_doc && !(r.0 <= cur && cur <= r.1))) {
                                        cx.fail(format!("{method}: item {:?}: main edit range {r:?} is not a single-line range containing the cursor {cur:?}", it.get("label")), &text, method, &params, None);
                                        break;
                                    }
                                }
                            }
                        }
                        generic_ranges(&mut cx, &doc, method, &params, &v);
                    }
                    "textDocument/rename" => {
                        generic_ranges(&mut cx, &doc, method, &params, &v);
                        check_edits(&mut cx, &doc, method, &params, &v);
                    }
                    "textDocument/prepareCallHierarchy" => {
                        if let Some(a) = v.as_array() {
                            for it in a {
                                if it.get("uri").and_then(|u| u.as_str()) == Some(uri.as_str()) {
                                    if let (Some(r), Some(sel)) = (it.get("range").and_then(range), it.get("selectionRange").and_then(range)) {
                                        if !contains(r, sel) {
                                            cx.fail(format!("{method}: selectionRange {sel:?} not inside range {r:?}"), &text, method, &params, None);
                                        }
                                    }
                                }
                            }
                        }
                        generic_ranges(&mut cx, &doc, method, &params, &v);
                    }
                    _ => generic_ranges(&mut cx, &doc, method, &params, &v),
                }
            }
        }
        // ---- range requests
        for _ in 0..(if thorough { 8 } else { 3 }) {
            let a = grid[rng.below(grid.len())];
            let b = grid[rng.below(grid.len())];
            let (a, b) = if (a.0, a.1) <= (b.0, b.1) { (a, b) } else { (b, a) };
            for method in ["textDocument/inlayHint", "textDocument/inlineValue", "textDocument/codeAction", "textDocument/rangeFormatting"] {
                let params = crate::c25::range_params(method, &uri, a, b, &mut rng);
                let reply = s.request(method, params.clone());
                let Some(v) = result_of(&mut cx, &text, method, &params, reply) else { continue };
                if v.is_null() {
                    continue;
                }
                generic_ranges(&mut cx, &doc, method, &params, &v);
                if method == "textDocument/rangeFormatting" {
                    check_edits(&mut cx, &doc, method, &params, &v);
                }
            }
        }
        let _ = (pos_json((0, 0)), range_json((0, 0), (0, 0)));
        if cx.report.oracle_failures.len() == before {
            cx.report.distinct_nontrivial += 1;
        }
        if cx.report.samples.len() < 3 && text.len() > 40 {
            cx.report.sample(json!({"text": text, "kind": kind}));
        }
    }
    // distinct_nontrivial: count validated non-null results instead of documents
    let nonnull: u64 = cx.report.distribution.iter().filter(|(k, _)| k.starts_with("nonnull_")).map(|(_, v)| *v).sum();
    cx.report.distinct_nontrivial = nonnull;
    let answers = run_driver(&cx.driver_reqs);
    for ((expect, input), ans) in cx.driver_expect.iter().zip(answers.iter()) {
        if ans == expect {
            cx.report.traces_validated += 1;
        } else {
            cx.report.mismatch(json!({"what": "LspShape model and implementation/validator differ", "input": input, "impl": expect, "model": ans}));
        }
    }
}
