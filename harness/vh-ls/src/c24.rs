//! C24, in-process part: the real `ServerContext::task` / `cancel` wrapper and the real dispatch macro with
//! *forced* handler outcomes (finishes at once / still running when later messages arrive; panics or not),
//! which the stdio sessions cannot control. Each session is a list of operations in the `running` phase:
//!   task(id, slow, panics)  → `ctx.task(id, exec)` (stands for a registered method with well-formed params)
//!   request(id, method, params ok|bad) → `on_request_handler` (real handlers; bad params; unknown methods)
//!   cancel(target) / other notifications → `on_notification_handler`
//! At the end every slow handler is released. Oracle: exactly one response per id. Tie: the multiset
//! (id, kind) equals the Proto model's (`proto.run`) on the same abstract session.
use crate::session::{Reply, Session, take_panics};
use emmylua_ls::verif_handlers::lsp_server::{RequestId, Response};
use lsp_types::ClientCapabilities;
use serde_json::{Value, json};
use std::collections::BTreeMap;
use std::time::Duration;
use vh_common::{Args, Report, Rng, hex, run_driver};

#[derive(Clone, Debug)]
enum Op {
    Task { id: i32, slow: bool, panics: bool },
    Request { id: i32, method: String, ok: bool },
    Cancel { target: i32, ok: bool },
    Notif { method: String },
}

fn op_json(o: &Op) -> Value {
    match o {
        Op::Task { id, slow, panics } => json!({"op": "task", "id": id, "slow": slow, "panics": panics}),
        Op::Request { id, method, ok } => json!({"op": "request", "id": id, "method": method, "ok": ok}),
        Op::Cancel { target, ok } => json!({"op": "cancel", "target": target, "ok": ok}),
        Op::Notif { method } => json!({"op": "notif", "method": method}),
    }
}

fn op_from(v: &Value) -> Option<Op> {
    Some(match v["op"].as_str()? {
        "task" => Op::Task { id: v["id"].as_i64()? as i32, slow: v["slow"].as_bool()?, panics: v["panics"].as_bool()? },
        "request" => Op::Request { id: v["id"].as_i64()? as i32, method: v["method"].as_str()?.to_string(), ok: v["ok"].as_bool()? },
        "cancel" => Op::Cancel { target: v["target"].as_i64()? as i32, ok: v["ok"].as_bool()? },
        _ => Op::Notif { method: v["method"].as_str()?.to_string() },
    })
}

const REAL_METHODS: &[&str] = &["textDocument/hover", "textDocument/documentSymbol", "textDocument/foldingRange", "textDocument/semanticTokens/full", "textDocument/completion"];
const UNKNOWN: &[&str] = &["foo/bar", "initialize", "textDocument/hoverX", "shutdownX"];

fn gen_session(rng: &mut Rng) -> Vec<Op> {
    let n = rng.range(4, 24);
    let mut ops = vec![];
    let mut next = 2;
    let mut ids = vec![];
    for _ in 0..n {
        match rng.below(10) {
            0..=3 => {
                ops.push(Op::Task { id: next, slow: rng.chance(1, 2), panics: rng.chance(1, 3) });
                ids.push(next);
                next += 1;
            }
            4 | 5 => {
                let unknown = rng.chance(1, 3);
                let method = if unknown { *rng.pick(UNKNOWN) } else { *rng.pick(REAL_METHODS) };
                ops.push(Op::Request { id: next, method: method.to_string(), ok: rng.chance(1, 2) });
                ids.push(next);
                next += 1;
            }
            6..=8 => {
                let target = if !ids.is_empty() && rng.chance(4, 5) { *rng.pick(&ids) } else { next + 10 };
                ops.push(Op::Cancel { target, ok: rng.chance(5, 6) });
            }
            _ => ops.push(Op::Notif { method: (*rng.pick(&["foo/note", "$/setTrace", "textDocument/didSave"])).to_string() }),
        }
    }
    ops
}

fn model_line(ops: &[Op]) -> String {
    let mut toks = vec![
        format!("r:1:{}:o:fn", hex("initialize")),
        format!("n:{}:o:0", hex("initialized")),
        "i".to_string(),
    ];
    for o in ops {
        toks.push(match o {
            Op::Task { id, slow, panics } => format!(
                "r:{}:{}:o:{}{}",
                id,
                hex("textDocument/hover"),
                if *slow { "s" } else { "f" },
                if *panics { "p" } else { "n" }
            ),
            Op::Request { id, method, ok } => format!("r:{}:{}:{}:fn", id, hex(method), if *ok { "o" } else { "b" }),
            Op::Cancel { target, ok } => format!("n:{}:{}:{}", hex("$/cancelRequest"), if *ok { "o" } else { "b" }, target),
            Op::Notif { method } => format!("n:{}:o:0", hex(method)),
        });
    }
    format!("proto.run {}", toks.join(","))
}

fn run_session(s: &mut Session, ops: &[Op]) -> Vec<(String, String)> {
    let uri = s.uri_str.clone();
    let mut releases: Vec<tokio::sync::oneshot::Sender<()>> = vec![];
    let mut got: Vec<(String, String)> = vec![];
    for o in ops {
        match o {
            Op::Task { id, slow, panics } => {
                let (tx, rx) = tokio::sync::oneshot::channel::<()>();
                let (slow, panics, idv) = (*slow, *panics, *id);
                if slow {
                    releases.push(tx);
                } else {
                    drop(tx);
                }
                let ctx = &s.ctx;
                s.rt.block_on(async {
                    ctx.task(RequestId::from(idv), move |_token| async move {
                        if slow {
                            let _ = rx.await;
                        }
                        if panics {
                            panic!("forced handler panic (C24 in-process case)");
                        }
                        Some(Response::new_ok(RequestId::from(idv), Value::Null))
                    })
                    .await;
                });
                if !slow {
                    // a fast handler is over before the next message is processed
                    wait_for(s, &idv.to_string(), &mut got);
                }
            }
            Op::Request { id, method, ok } => {
                let params = if *ok {
                    match method.as_str() {
                        "textDocument/hover" | "textDocument/completion" => json!({"textDocument": {"uri": uri}, "position": {"line": 0, "character": 7}}),
                        _ => json!({"textDocument": {"uri": uri}}),
                    }
                } else {
                    json!("bad")
                };
                s.post(*id, method, params);
                wait_for(s, &id.to_string(), &mut got);
            }
            Op::Cancel { target, ok } => {
                let params = if *ok { json!({"id": target}) } else { json!({"id": {"x": 1}}) };
                s.notify("$/cancelRequest", params);
            }
            Op::Notif { method } => {
                let params = match method.as_str() {
                    "$/setTrace" => json!({"value": "off"}),
                    "textDocument/didSave" => json!({"textDocument": {"uri": uri}}),
                    _ => json!({}),
                };
                s.notify(method, params);
            }
        }
    }
    for tx in releases {
        let _ = tx.send(());
    }
    for o in ops {
        if let Op::Task { id, .. } | Op::Request { id, .. } = o {
            wait_for(s, &id.to_string(), &mut got);
        }
    }
    // a short settle time so that a duplicate response would be seen
    for (id, r) in s.drain(Duration::from_millis(60), Duration::from_secs(5)) {
        got.push((id, r.kind().to_string()));
    }
    let _ = take_panics();
    got
}

fn wait_for(s: &mut Session, id: &str, got: &mut Vec<(String, String)>) {
    use emmylua_ls::verif_handlers::lsp_server::Message;
    let end = std::time::Instant::now() + Duration::from_secs(20);
    while !got.iter().any(|(i, _)| i == id) && std::time::Instant::now() < end {
        if let Ok(Message::Response(r)) = s.client.receiver.recv_timeout(Duration::from_secs(1)) {
            let reply = match (r.result, r.error) {
                (_, Some(e)) => Reply::Error(e.code as i64, e.message),
                (Some(v), None) => Reply::Result(v),
                (None, None) => Reply::Result(Value::Null),
            };
            got.push((r.id.to_string(), reply.kind().to_string()));
        }
    }
}

pub fn run(args: &Args, report: &mut Report) {
    let mut rng = Rng::new(args.seed ^ 0xC24);
    let mut s = Session::new(ClientCapabilities::default(), false);
    s.set_text("local abc = 1\nprint(abc)\n");
    let mut sessions: Vec<Vec<Op>> = vec![];
    if let Some(path) = &args.replay {
        let r: Value = serde_json::from_str(&std::fs::read_to_string(path).expect("replay")).expect("json");
        if let Some(a) = r["input"]["inproc"].as_array() {
            sessions.push(a.iter().filter_map(op_from).collect());
        } else {
            report.write(&args.out);
            std::process::exit(0);
        }
    } else {
        // the four outcomes × cancel before / during / after, explicitly
        for slow in [false, true] {
            for panics in [false, true] {
                sessions.push(vec![Op::Task { id: 2, slow, panics }]);
                sessions.push(vec![Op::Task { id: 2, slow, panics }, Op::Cancel { target: 2, ok: true }]);
                sessions.push(vec![Op::Cancel { target: 2, ok: true }, Op::Task { id: 2, slow, panics }]);
                sessions.push(vec![Op::Task { id: 2, slow, panics }, Op::Cancel { target: 2, ok: false }]);
            }
        }
        let n = if args.thorough() { 1500 } else { 120 };
        for _ in 0..n {
            sessions.push(gen_session(&mut rng));
        }
    }
    let lines: Vec<String> = sessions.iter().map(|o| model_line(o)).collect();
    let answers = run_driver(&lines);
    let mut distinct = std::collections::HashSet::new();
    for (ops, ans) in sessions.iter().zip(answers.iter()) {
        let got = run_session(&mut s, ops);
        let input = json!({"inproc": ops.iter().map(op_json).collect::<Vec<_>>()});
        let mut per: BTreeMap<String, Vec<String>> = BTreeMap::new();
        for (i, k) in &got {
            per.entry(i.clone()).or_default().push(k.clone());
            report.count(&format!("resp_{k}"));
        }
        let mut sent = vec![];
        for o in ops {
            match o {
                Op::Task { id, slow, panics } => {
                    sent.push(*id);
                    report.count(&format!("task_slow{}_panics{}", *slow as u8, *panics as u8));
                    distinct.insert(format!("task{slow}{panics}"));
                }
                Op::Request { id, method, ok } => {
                    sent.push(*id);
                    distinct.insert(format!("{method}{ok}"));
                }
                Op::Cancel { .. } => report.count("cancel"),
                Op::Notif { .. } => report.count("notif"),
            }
        }
        report.evaluations += sent.len() as u64;
        // oracle: exactly one response per request id, none for other ids
        let mut bad = None;
        for id in &sent {
            let n = per.get(&id.to_string()).map(|v| v.len()).unwrap_or(0);
            if n != 1 {
                bad = Some(format!("in-process: request id {id} received {n} responses {:?}; expected exactly one", per.get(&id.to_string())));
                break;
            }
        }
        if bad.is_none() {
            if let Some(x) = per.keys().find(|k| !sent.iter().any(|i| &i.to_string() == *k)) {
                bad = Some(format!("in-process: response for id {x} that was never sent"));
            }
        }
        if let Some(what) = bad {
            report.oracle_failure(json!({"what": what, "input": input, "class": Value::Null}));
        }
        // tie
        let mut obs: Vec<(i64, String)> = got.iter().filter_map(|(i, k)| i.parse::<i64>().ok().map(|n| (n, k.clone()))).collect();
        obs.push((1, "result".into())); // the handshake's initialize, present in the model's session
        obs.sort();
        let obs_s = obs.iter().map(|(i, k)| format!("{i}:{k}")).collect::<Vec<_>>().join(",");
        let model_out = ans.split(' ').find(|p| p.starts_with("out=")).map(|p| p[4..].to_string()).unwrap_or_default();
        if model_out == obs_s && ans.starts_with("ok phase=running") {
            report.traces_validated += 1;
        } else {
            report.mismatch(json!({"what": "in-process task wrapper / dispatch: response multiset differs from the Proto model",
                "input": input, "impl": obs_s, "model": ans}));
        }
        if report.samples.len() < 2 && ops.len() > 3 {
            report.sample(json!({"inproc_ops": ops.iter().map(op_json).collect::<Vec<_>>(), "observed": obs_s}));
        }
    }
    report.distinct_nontrivial = distinct.len() as u64;
    report.rule = "in-process: evaluations = requests/tasks issued; distinct = (forced outcome | method × params ok/bad) classes".into();
    let _ = Reply::Timeout;
}
