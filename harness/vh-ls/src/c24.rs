pub fn run(_args: &vh_common::Args, _report: &mut vh_common::Report) {}
