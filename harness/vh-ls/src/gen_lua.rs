//! Seeded generator of Lua documents: grammar-directed valid programs with EmmyLua doc comments, multi-byte
//! text, CRLF / lone CR line ends, multi-line strings and comments; plus invalid documents (mutations,
//! truncations, token soup).
use vh_common::Rng;

const NAMES: &[&str] = &["a", "b", "foo", "bar", "self", "x1", "名前", "obj", "cb", "n"];
const TYPES: &[&str] = &["string", "number", "integer", "boolean", "Animal", "Dog", "table<string, number>", "string[]", "fun(x: number): string", "Animal?", "any"];
const STRINGS: &[&str] = &["\"x\"", "'é😀'", "\"#ff8800\"", "[[long\nstring]]", "\"a\\nb\"", "'mod.sub'", "\"%d items\"", "[==[\n]] x\n]==]"];

pub struct Gen<'a> {
    pub rng: &'a mut Rng,
    out: String,
    depth: usize,
    classes: Vec<String>,
}

impl<'a> Gen<'a> {
    pub fn new(rng: &'a mut Rng) -> Self {
        Gen { rng, out: String::new(), depth: 0, classes: vec![] }
    }
    fn name(&mut self) -> &'static str {
        *self.rng.pick(NAMES)
    }
    fn ty(&mut self) -> String {
        if !self.classes.is_empty() && self.rng.chance(1, 3) {
            return self.rng.pick(&self.classes).clone();
        }
        self.rng.pick(TYPES).to_string()
    }
    fn ind(&mut self) {
        for _ in 0..self.depth {
            self.out.push_str("  ");
        }
    }
    fn expr(&mut self, d: usize) -> String {
        let k = if d > 2 { self.rng.below(4) } else { self.rng.below(12) };
        match k {
            0 => self.name().to_string(),
            1 => format!("{}", self.rng.below(100)),
            2 => self.rng.pick(STRINGS).to_string(),
            3 => (*self.rng.pick(&["nil", "true", "false", "...", "0x1F", "1e3"])).to_string(),
            4 => format!("{} {} {}", self.expr(d + 1), self.rng.pick(&["+", "-", "*", "..", "==", "and", "or", "<", "//"]), self.expr(d + 1)),
            5 => format!("{}.{}", self.name(), self.name()),
            6 => format!("{}({})", self.name(), self.args(d + 1)),
            7 => format!("{}:{}({})", self.name(), self.name(), self.args(d + 1)),
            8 => format!("{{ {} = {}, {} }}", self.name(), self.expr(d + 1), self.expr(d + 1)),
            9 => format!("function({}) return {} end", self.name(), self.expr(d + 1)),
            10 => format!("{}[{}]", self.name(), self.expr(d + 1)),
            _ => format!("(not {})", self.expr(d + 1)),
        }
    }
    fn args(&mut self, d: usize) -> String {
        let n = self.rng.below(3);
        (0..n).map(|_| self.expr(d)).collect::<Vec<_>>().join(", ")
    }
    fn doc_block(&mut self, params: &[&str]) {
        if self.rng.chance(1, 2) {
            self.ind();
            let d = *self.rng.pick(&["--- does things", "--- **bold** `code` and a [link](http://x)", "--- 说明 😀", "---",
                "--- Returns `code` here.", "--- *em* then **strong**`c`*e2*", "--- - item one\n--- - item `two`\n--- - *three*",
                "--- ```lua\n--- local x = f(1)\n--- ```\n--- after the fence", "--- See [a](b)[c](d) and <http://x>.", "--- :ref:`target` and ``lit`` text",
                "--- 1. first\n--- 2. second **b**", "--- a\\_b \\*c\\* `d`e`f`", "--- @*param* not a tag `x`"]);
            self.out.push_str(d);
            self.out.push('\n');
        }
        for p in params {
            if self.rng.chance(3, 4) {
                self.ind();
                let t = self.ty();
                let d = *self.rng.pick(&["the", "the `code`", "*em* **st**", "see [l](u)", "- a\n--- - b"]);
                self.out.push_str(&format!("---@param {} {} {} {}\n", p, t, d, p));
            }
        }
        if self.rng.chance(1, 2) {
            self.ind();
            let t = self.ty();
            self.out.push_str(&format!("---@return {}\n", t));
        }
    }
    fn stat(&mut self) {
        let k = if self.depth > 3 { self.rng.below(5) } else { self.rng.below(16) };
        match k {
            0 | 1 => {
                self.ind();
                let (n, e) = (self.name(), self.expr(0));
                if self.rng.chance(1, 3) {
                    let t = self.ty();
                    self.out.push_str(&format!("---@type {}\n", t));
                    self.ind();
                }
                self.out.push_str(&format!("local {} = {}\n", n, e));
            }
            2 => {
                self.ind();
                if self.rng.chance(1, 3) {
                    // multi-name declaration / assignment whose values carry symbols of their own
                    let (a, b, p) = (self.name(), self.name(), self.name());
                    let kw = if self.rng.chance(1, 2) { "local " } else { "" };
                    let v2 = self.expr(1);
                    self.out.push_str(&format!("{kw}{a}, {b} = function({p}) local {p}2 = {p} end, {{ k = {v2}, f = function() end }}\n"));
                } else {
                    let (n, e) = (self.name(), self.expr(0));
                    self.out.push_str(&format!("{} = {}\n", n, e));
                }
            }
            3 => {
                self.ind();
                let (n, a) = (self.name(), self.args(0));
                self.out.push_str(&format!("{}({})\n", n, a));
            }
            4 => {
                self.ind();
                let c = *self.rng.pick(&["-- plain comment", "--[[ multi\nline\ncomment ]]", "---@diagnostic disable-next-line: undefined-global", "--region r", "--endregion"]);
                self.out.push_str(c);
                self.out.push('\n');
            }
            5 | 6 => {
                let (f, p1, p2) = (self.name(), self.name(), self.name());
                self.doc_block(&[p1, p2]);
                self.ind();
                let head = match self.rng.below(3) {
                    0 => format!("local function {}({}, {})\n", f, p1, p2),
                    1 => format!("function {}.{}({}, {})\n", self.name(), f, p1, p2),
                    _ => format!("function {}:{}({}, {})\n", self.name(), f, p1, p2),
                };
                self.out.push_str(&head);
                self.block();
                self.ind();
                self.out.push_str("end\n");
            }
            7 => {
                self.ind();
                let e = self.expr(0);
                self.out.push_str(&format!("if {} then\n", e));
                self.block();
                if self.rng.chance(1, 2) {
                    self.ind();
                    self.out.push_str("else\n");
                    self.block();
                }
                self.ind();
                self.out.push_str("end\n");
            }
            8 => {
                self.ind();
                let (i, e) = (self.name(), self.expr(1));
                self.out.push_str(&format!("for {} = 1, {} do\n", i, e));
                self.block();
                self.ind();
                self.out.push_str("end\n");
            }
            9 => {
                self.ind();
                let (k, v, e) = (self.name(), self.name(), self.expr(1));
                self.out.push_str(&format!("for {}, {} in pairs({}) do\n", k, v, e));
                self.block();
                self.ind();
                self.out.push_str("end\n");
            }
            10 => {
                self.ind();
                let e = self.expr(1);
                self.out.push_str(&format!("while {} do\n", e));
                self.block();
                self.ind();
                self.out.push_str("end\n");
            }
            11 => {
                let cname = (*self.rng.pick(&["Animal", "Dog", "Cfg", "Pt"])).to_string();
                self.ind();
                if self.rng.chance(1, 3) && !self.classes.is_empty() {
                    let sup = self.rng.pick(&self.classes).clone();
                    self.out.push_str(&format!("---@class {}: {}\n", cname, sup));
                } else {
                    self.out.push_str(&format!("---@class {}\n", cname));
                }
                for _ in 0..self.rng.below(3) {
                    self.ind();
                    let (n, t) = (self.name(), self.ty());
                    self.out.push_str(&format!("---@field {} {} # a field\n", n, t));
                }
                self.ind();
                self.out.push_str(&format!("local {} = {{}}\n", cname));
                self.classes.push(cname);
            }
            12 => {
                self.ind();
                let n = self.name();
                self.out.push_str(&format!("local {} = require({})\n", n, self.rng.pick(&["\"b\"", "'mod.sub'", "\"a\""])));
            }
            13 => {
                self.ind();
                self.out.push_str(&format!("---@alias Mode {}\n", self.rng.pick(&["'r'|'w'", "string|number", "\"a\" # first\n---| \"b\" # second"])));
                self.ind();
                self.out.push_str(&format!("---@enum E{}\nlocal En = {{ A = 1, B = 2 }}\n", self.rng.below(3)));
            }
            14 => {
                self.ind();
                let e = self.expr(1);
                self.out.push_str(&format!("do\n"));
                self.depth += 1;
                self.ind();
                self.out.push_str(&format!("return {}\n", e));
                self.depth -= 1;
                self.ind();
                self.out.push_str("end\n");
            }
            _ => {
                self.ind();
                let (a, b) = (self.name(), self.name());
                self.out.push_str(&format!("local {} <const>, {} <close> = 1, nil\ngoto done\n::done::\n", a, b));
            }
        }
    }
    fn block(&mut self) {
        self.depth += 1;
        for _ in 0..self.rng.range(0, 3) {
            self.stat();
        }
        self.depth -= 1;
    }
    pub fn program(mut self, stats: usize) -> String {
        for _ in 0..stats {
            self.stat();
        }
        self.out
    }
}

/// "split any token sequence across lines": line breaks (optionally with blanks) inserted behind completion
/// trigger characters of a valid program, so cursor-dependent providers see their context spread over lines
pub fn split_lines(rng: &mut Rng) -> String {
    let n = rng.range(1, 6);
    let mut fork = rng.fork();
    let t = Gen::new(&mut fork).program(n);
    let extra = *rng.pick(&["", "local t = {1,2,3}\nt[#]\n", "t[#t]\n", "f(a, b)\n", "a.b:c('x')\n", "local m = require('mod.sub')\n", "---@param a string\n", "x = #t + 1\n"]);
    let t = format!("{t}{extra}");
    let cs: Vec<char> = t.chars().collect();
    let mut out = String::new();
    let mut budget = rng.range(1, 4);
    for (i, c) in cs.iter().enumerate() {
        out.push(*c);
        if budget > 0 && matches!(c, '#' | '[' | '(' | '.' | ':' | '\'' | '"' | ',' | '@' | '=' | '{') && rng.chance(1, 3) && i + 1 < cs.len() {
            out.push_str(*rng.pick(&["\n", "\r\n", "  \n ", " \r\n  ", "\n\n"]));
            budget -= 1;
        }
    }
    out
}

pub fn valid(rng: &mut Rng) -> String {
    let n = rng.range(1, 9);
    let mut fork = rng.fork();
    let t = Gen::new(&mut fork).program(n);
    line_ends(rng, t)
}

fn line_ends(rng: &mut Rng, t: String) -> String {
    match rng.below(7) {
        6 => t.replace("\n\n", "\n\r\n").replacen('\n', "\n\r\n", 1),   // LF followed by CRLF
        0 => t.replace('\n', "\r\n"),
        1 => t.replace('\n', "\r"),
        2 => t.trim_end_matches('\n').to_string(),
        _ => t,
    }
}

const SOUP: &[&str] = &[
    "local", "function", "end", "if", "then", "else", "for", "in", "do", "while", "return", "(", ")", "{", "}", "[", "]", "=", ",", ".", ":", "..",
    "...", "\"s", "'é😀'", "[[", "]]", "--", "---@class", "---@param", "---@type", "---@field", "---@", "x", "y", "1", "0x", "\n", "\n", " ", "\t",
    "\r\n", "::", "goto", "<", ">", "#", "~=", "--[[", "\u{feff}", "名", "@", "|", "?", "fun(", "table<", "\r",
];

pub fn invalid(rng: &mut Rng) -> String {
    match rng.below(4) {
        0 => {
            // token soup
            let n = rng.range(1, 40);
            (0..n).map(|_| *rng.pick(SOUP)).collect::<Vec<_>>().join(if rng.chance(1, 2) { " " } else { "" })
        }
        1 => {
            // truncation of a valid program at a char boundary
            let t = valid(rng);
            let cut = rng.below(t.chars().count() + 1);
            t.chars().take(cut).collect()
        }
        2 => {
            // delete / duplicate / replace a few chars
            let mut cs: Vec<char> = valid(rng).chars().collect();
            for _ in 0..rng.range(1, 4) {
                if cs.is_empty() {
                    break;
                }
                let i = rng.below(cs.len());
                match rng.below(3) {
                    0 => {
                        cs.remove(i);
                    }
                    1 => {
                        let c = cs[i];
                        cs.insert(i, c);
                    }
                    _ => cs[i] = *rng.pick(&['(', ')', '"', '\n', '-', '@', ']', 'e', '😀']),
                }
            }
            cs.into_iter().collect()
        }
        _ => {
            // soup inserted into a valid program
            let t = valid(rng);
            let cs: Vec<char> = t.chars().collect();
            let i = rng.below(cs.len() + 1);
            let mut s: String = cs[..i].iter().collect();
            for _ in 0..rng.range(1, 5) {
                s.push_str(*rng.pick(SOUP));
            }
            s.extend(cs[i..].iter());
            s
        }
    }
}

/// a few fixed documents exercising specific producers
pub fn fixed() -> Vec<String> {
    vec![
        String::new(),
        "\n".into(),
        "x".into(),
        "local s = [[a\nb\nc]]\nlocal t = \"#ff0000\"\n--[[ c1\nc2 ]] local u = 1\n".into(),
        "---@class A\n---@field x number\nlocal A = {}\n\n---@param a A\n---@return number\nfunction A.f(a)\n  return a.x\nend\n\nlocal v = A.f({ x = 1 })\nprint(v)\n".into(),
        "--- desc **md**\n--- ```lua\n--- local x = 1\n--- ```\n---@param cb fun(a: string): boolean callback\nlocal function g(cb) return cb(\"é😀\") end\ng(function(a) return a == '' end)\n".into(),
        "local a = 1\r\nlocal b = a\r\n\r\nfunction f()\r\n  return a + b\r\nend\r\n".into(),
        "local a😀 = '😀😀'\nlocal é = a😀 .. '名前'\n".into(),
        "local t = {1,2,3}\nt[#\n]\n".into(),
        "local t = {1,2,3}\nt[#  \r\n ]\nt[# ]\nt[#]\n".into(),
        "---@class A\n---@field x number\nlocal a = {}\nlocal function f(p, q) end\nf(\na.\na:\nlocal m = require('\n".into(),
        "---@\n---@param \n---@type \n---@class\nlocal z = 1\n---@field".into(),
        "--- Returns `code` here.\n--- *em* **strong** [link](http://x) ``lit``\n--- - item one\n--- - item `two`\n---@param a string the `a` *value*\n---@return number # **count** of `a`\nlocal function f(a) return #a end\n".into(),
        "--- ```lua\n--- local x = 1\n--- ```\n--- tail `c`**b**\nlocal s = \"a `b` c\"\nlocal u = 'x' .. \"y\"\n".into(),
        "x = 1\n\r\ny = 2".into(),
        "local a, b = function(p) local z = 1 end, { k = 1, f = function() end }\nx, y = function(q) local w = 2 end, 3\n".into(),
        "--- a\n\r\n--- b `c`\n\r\nlocal s = 'q\n\r\nlocal t = [[l\n\r\nm]]\n\r".into(),
        "if x then\n  for i = 1, 2 do\n    while true do\n      repeat\n        local q = i\n      until q\n    end\n  end\nend\n".into(),
    ]
}
