//! C25: every position-taking request, at every token boundary, mid-token, past end of line, past end of
//! document, with inverted / empty ranges, on valid and invalid documents, through the real dispatch path
//! (`on_request_handler` → task wrapper → handler). A handler panic surfaces as an `InternalError` response
//! (the wrapper observes the task's JoinError) and is recorded with the panic message.
//! Tie: the handlers' common prelude (`LuaDocument::get_offset` + end-of-document guard, `to_rowan_range`)
//! is compared with the Lean `Pos` model on the same positions.
use crate::docs::{self, pos_json, range_json};
use crate::session::{Reply, Session, take_panics};
use emmylua_code_analysis::{FileId, LuaDocument};
use emmylua_parser::LineIndex;
use lsp_types::ClientCapabilities;
use serde_json::{Value, json};
use std::collections::HashSet;
use std::collections::hash_map::DefaultHasher;
use std::hash::{Hash, Hasher};
use vh_common::{Args, Report, Rng, hex, run_driver};

pub const POSITION_METHODS: &[&str] = &[
    "textDocument/hover",
    "textDocument/definition",
    "textDocument/implementation",
    "textDocument/references",
    "textDocument/rename",
    "textDocument/prepareRename",
    "textDocument/completion",
    "textDocument/signatureHelp",
    "textDocument/documentHighlight",
    "textDocument/selectionRange",
    "textDocument/prepareCallHierarchy",
    "textDocument/onTypeFormatting",
    "inlayHint/resolve",
];
pub const RANGE_METHODS: &[&str] = &[
    "textDocument/inlineValue",
    "textDocument/codeAction",
    "textDocument/rangeFormatting",
    "textDocument/inlayHint",
    "textDocument/colorPresentation",
    "documentLink/resolve",
    "codeLens/resolve",
    "callHierarchy/incomingCalls",
    "callHierarchy/outgoingCalls",
];
const DIAG_CODES: &[&str] = &[
    "need-check-nil", "unknown-doc-tag", "preferred-local-alias", "undefined-global", "unused", "syntax-error",
    "missing-parameter", "param-type-mismatch", "undefined-field", "inject-field", "not-a-code",
];

pub fn position_params(method: &str, uri: &str, p: (u32, u32), p2: (u32, u32)) -> Value {
    let td = json!({"uri": uri});
    match method {
        "textDocument/references" => json!({"textDocument": td, "position": pos_json(p), "context": {"includeDeclaration": true}}),
        "textDocument/rename" => json!({"textDocument": td, "position": pos_json(p), "newName": "renamed"}),
        "textDocument/selectionRange" => json!({"textDocument": td, "positions": [pos_json(p), pos_json(p2)]}),
        "textDocument/onTypeFormatting" => json!({"textDocument": td, "position": pos_json(p), "ch": "\n",
            "options": {"tabSize": 4, "insertSpaces": true}}),
        "textDocument/completion" => json!({"textDocument": td, "position": pos_json(p),
            "context": {"triggerKind": 1}}),
        "inlayHint/resolve" => json!({"position": pos_json(p), "label": "x", "data": uri}),
        _ => json!({"textDocument": td, "position": pos_json(p)}),
    }
}

pub fn range_params(method: &str, uri: &str, a: (u32, u32), b: (u32, u32), rng: &mut Rng) -> Value {
    let td = json!({"uri": uri});
    let r = range_json(a, b);
    match method {
        "textDocument/inlineValue" => json!({"textDocument": td, "range": r, "context": {"frameId": 1, "stoppedLocation": r}}),
        "textDocument/codeAction" => {
            let n = rng.range(1, 3);
            let diags: Vec<Value> = (0..n)
                .map(|_| json!({"range": r, "message": "m", "code": *rng.pick(DIAG_CODES), "source": "EmmyLua",
                    "data": if rng.chance(1, 2) { json!("x") } else { Value::Null }}))
                .collect();
            json!({"textDocument": td, "range": r, "context": {"diagnostics": diags}})
        }
        "textDocument/rangeFormatting" => json!({"textDocument": td, "range": r, "options": {"tabSize": 2, "insertSpaces": true}}),
        "textDocument/inlayHint" => json!({"textDocument": td, "range": r}),
        "textDocument/colorPresentation" => json!({"textDocument": td, "range": r, "color": {"red": 1.0, "green": 0.5, "blue": 0.0, "alpha": 1.0}}),
        "documentLink/resolve" => json!({"range": r, "data": uri}),
        "codeLens/resolve" => json!({"range": r, "data": {"uri": uri}}),
        _ => json!({"item": {"name": "foo", "kind": 12, "uri": uri, "range": r, "selectionRange": r,
            "data": if rng.chance(1, 2) { json!(uri) } else { Value::Null }}}),
    }
}

fn h64(s: &str) -> u64 {
    let mut h = DefaultHasher::new();
    s.hash(&mut h);
    h.finish()
}

/// the real prelude on a standalone `LuaDocument` (canonical strings as the driver prints them)
fn impl_prelude(text: &str, root_end: usize, ps: &[(u32, u32)], rs: &[((u32, u32), (u32, u32))]) -> Result<(String, String), String> {
    let t = text.to_string();
    let ps = ps.to_vec();
    let rs = rs.to_vec();
    vh_common::catch(move || {
        let li = LineIndex::parse(&t);
        let path = std::path::PathBuf::from("/virtual/a.lua");
        let doc = LuaDocument::new(FileId::new(0), &path, &t, &li);
        let offs: Vec<String> = ps
            .iter()
            .map(|p| match doc.get_offset(p.0 as usize, p.1 as usize) {
                None => "none".to_string(),
                Some(o) => {
                    let o = u32::from(o) as usize;
                    if o > root_end { "guard".to_string() } else { o.to_string() }
                }
            })
            .collect();
        let rngs: Vec<String> = rs
            .iter()
            .map(|(a, b)| {
                let r = lsp_types::Range {
                    start: lsp_types::Position { line: a.0, character: a.1 },
                    end: lsp_types::Position { line: b.0, character: b.1 },
                };
                match doc.to_rowan_range(r) {
                    None => "none".to_string(),
                    Some(tr) => format!("{}:{}", u32::from(tr.start()), u32::from(tr.end())),
                }
            })
            .collect();
        (if offs.is_empty() { "-".into() } else { offs.join(";") }, if rngs.is_empty() { "-".into() } else { rngs.join(";") })
    })
}

/// trigger characters the server advertises (completion + signature help, from the real `server_capabilities`)
/// plus the configured postfix trigger (`Emmyrc::default().completion.postfix`) and a few structural characters
fn trigger_chars() -> Vec<String> {
    let caps = serde_json::to_value(emmylua_ls::verif_handlers::server_capabilities(&ClientCapabilities::default())).unwrap_or(Value::Null);
    let mut v: Vec<String> = vec![];
    for path in [["completionProvider", "triggerCharacters"], ["signatureHelpProvider", "triggerCharacters"], ["signatureHelpProvider", "retriggerCharacters"]] {
        if let Some(a) = caps[path[0]][path[1]].as_array() {
            v.extend(a.iter().filter_map(|x| x.as_str().map(|s| s.to_string())));
        }
    }
    v.push(emmylua_code_analysis::Emmyrc::default().completion.postfix.clone());
    for c in ["@", ".", ":", "(", "[", "\"", "'", ",", "#", "-", "{", " ", "<", "|", "/", "\\", "=", "*", "`"] {
        v.push(c.to_string());
    }
    v.sort();
    v.dedup();
    v.retain(|c| !c.is_empty());
    v
}

/// tiny documents: every trigger character at offset 0, at end of file, alone on a line, after only whitespace,
/// doubled; single-token documents; the empty document
fn trigger_docs(triggers: &[String]) -> Vec<(String, String)> {
    let mut out: Vec<(String, String)> = vec![];
    for c in triggers {
        for d in [
            format!("{c}"), format!("{c}{c}"), format!("{c}x"), format!("{c} x"), format!("{c}\nlocal a = 1\n"), format!("local a = 1\nx{c}"),
            format!("local a = 1\na{c}{c}"), format!("local a = 1\n{c}\nlocal b = a\n"), format!("  {c}"), format!("\t{c}\n"), format!("\n{c}"),
            format!("\r\n {c}\r\n"), format!("x {c}"), format!("f({c}"), format!("---{c}"), format!("--{c}"), format!("x{c}\n{c}"),
        ] {
            out.push((d, c.clone()));
        }
    }
    for d in ["", "x", "1", "\"s\"", "'", "--c", "---", "local", "end", "...", "[[", "]]", "\n", "\r", "é", "😀", "\u{feff}", "::"] {
        out.push((d.to_string(), String::new()));
    }
    out
}

fn clampu(v: u32) -> u64 {
    v as u64
}

pub fn run(args: &Args, report: &mut Report) {
    let mut rng = Rng::new(args.seed ^ 0xC25);
    let thorough = args.thorough();
    let mut session = Session::new(ClientCapabilities::default(), true);
    let uri = session.uri_str.clone();
    report.rule = "case = (document, request method, position or range) sent through the real dispatch path; distinct by \
        (text, method, params); non-trivial = the document has at least one token (empty documents are counted separately)"
        .into();

    // replay of a single recorded case
    if let Some(path) = &args.replay {
        let r: Value = serde_json::from_str(&std::fs::read_to_string(path).expect("replay")).expect("json");
        let inp = &r["input"];
        if let (Some(text), Some(method)) = (inp["text"].as_str(), inp["method"].as_str()) {
            session.set_text(text);
            let params = fix_uri(&inp["params"], &uri);
            let reply = session.request(method, params.clone());
            report.evaluations = 1;
            judge(report, text, method, &params, &reply);
            return;
        }
    }

    // ---- family: trigger characters at offset 0 / EOF / alone / doubled, single-token and empty documents; every
    // column (+ past end) × every position method; completion and signature help with the trigger context set both ways
    let triggers = trigger_chars();
    report.extra.insert("trigger_characters".into(), json!(triggers));
    let mut seen_t: HashSet<(u64, u64)> = HashSet::new();
    for (text, trig) in trigger_docs(&triggers) {
        report.count("docs_trigger_family");
        session.set_text(&text);
        let mut ps = docs::dense_positions(&text, false);
        let n = docs::lines(&text).len() as u32;
        ps.push((0, 1));
        ps.push((0, 7));
        ps.push((n.saturating_sub(1), 1000));
        ps.push((n, 0));
        ps.sort();
        ps.dedup();
        let th = h64(&text);
        for p in &ps {
            let mut reqs: Vec<(&str, Value)> = POSITION_METHODS.iter().map(|m| (*m, position_params(m, &uri, *p, *p))).collect();
            let td = json!({"uri": uri});
            let tc = if trig.is_empty() { "@".to_string() } else { trig.clone() };
            reqs.push(("textDocument/completion", json!({"textDocument": td, "position": pos_json(*p), "context": {"triggerKind": 2, "triggerCharacter": tc}})));
            reqs.push(("textDocument/completion", json!({"textDocument": td, "position": pos_json(*p), "context": {"triggerKind": 3}})));
            reqs.push(("textDocument/completion", json!({"textDocument": td, "position": pos_json(*p)})));
            reqs.push(("textDocument/signatureHelp", json!({"textDocument": td, "position": pos_json(*p), "context": {"triggerKind": 2, "triggerCharacter": tc, "isRetrigger": false}})));
            reqs.push(("textDocument/signatureHelp", json!({"textDocument": td, "position": pos_json(*p), "context": {"triggerKind": 1, "isRetrigger": true}})));
            for (m, params) in reqs {
                let reply = session.request(m, params.clone());
                report.evaluations += 1;
                report.count(&format!("reply_{}", reply.kind()));
                report.count("requests_trigger_family");
                if seen_t.insert((th, h64(&format!("{m}{params}")))) && !text.is_empty() {
                    report.distinct_nontrivial += 1;
                }
                judge(report, &text, m, &params, &reply);
            }
        }
    }

    let (nv, ni) = if thorough { (900, 900) } else { (90, 90) };
    let docs = docs::documents(&mut rng, nv, ni);
    let mut seen: HashSet<(u64, u64)> = HashSet::new();
    let mut driver_reqs: Vec<String> = vec![];
    let mut driver_expect: Vec<(String, String, String)> = vec![]; // (kind, impl string, text)
    for (text, kind) in &docs {
        report.count(&format!("docs_{kind}"));
        session.set_text(text);
        let max_inside = if thorough { 60 } else { 24 };
        let grid = docs::position_grid(text, &mut rng, max_inside);
        let (toks, root_end) = docs::token_offsets(text);
        let nontrivial = toks.len() > 1;
        if root_end != text.len() {
            report.count("docs_tree_shorter_than_text");
        }
        let th = h64(text);
        // ---- position requests
        for (i, p) in grid.iter().enumerate() {
            let p2 = grid[(i * 7 + 3) % grid.len()];
            for m in POSITION_METHODS {
                // the expensive requests are sampled
                if matches!(*m, "textDocument/references" | "textDocument/rename" | "textDocument/completion") && !thorough && i % 2 == 1 {
                    continue;
                }
                let params = position_params(m, &uri, *p, p2);
                let reply = session.request(m, params.clone());
                report.evaluations += 1;
                report.count(&format!("reply_{}", reply.kind()));
                if let Reply::Result(v) = &reply {
                    if !v.is_null() {
                        report.count(&format!("nonnull_{m}"));
                    }
                }
                if nontrivial && seen.insert((th, h64(&format!("{m}{params}")))) {
                    report.distinct_nontrivial += 1;
                }
                judge(report, text, m, &params, &reply);
            }
        }
        // ---- range requests: ordered, empty, inverted, out of document
        let mut pairs: Vec<((u32, u32), (u32, u32))> = vec![];
        let npairs = if thorough { 24 } else { 10 };
        for _ in 0..npairs {
            let a = grid[rng.below(grid.len())];
            let b = grid[rng.below(grid.len())];
            pairs.push((a, b));
        }
        let a = grid[rng.below(grid.len())];
        pairs.push((a, a));
        pairs.push(((0, 0), (u32::MAX, u32::MAX)));
        pairs.push(((u32::MAX, 0), (0, 0)));
        for (a, b) in &pairs {
            let cls = if (clampu(a.0), clampu(a.1)) > (clampu(b.0), clampu(b.1)) { "inverted" } else if a == b { "empty" } else { "ordered" };
            report.count(&format!("range_{cls}"));
            for m in RANGE_METHODS {
                let params = range_params(m, &uri, *a, *b, &mut rng);
                let reply = session.request(m, params.clone());
                report.evaluations += 1;
                report.count(&format!("reply_{}", reply.kind()));
                if let Reply::Result(v) = &reply {
                    if !v.is_null() {
                        report.count(&format!("nonnull_{m}"));
                    }
                }
                if nontrivial && seen.insert((th, h64(&format!("{m}{params}")))) {
                    report.distinct_nontrivial += 1;
                }
                judge(report, text, m, &params, &reply);
            }
        }
        // ---- tie: prelude vs Pos model
        let ps: Vec<(u32, u32)> = grid.iter().filter(|p| p.0 < 1_000_000 && p.1 < 1_000_000).cloned().collect();
        let rs: Vec<((u32, u32), (u32, u32))> = pairs
            .iter()
            .filter(|(a, b)| a.0 < 1_000_000 && a.1 < 1_000_000 && b.0 < 1_000_000 && b.1 < 1_000_000)
            .cloned()
            .collect();
        let ps_s = if ps.is_empty() { "-".to_string() } else { ps.iter().map(|p| format!("{}:{}", p.0, p.1)).collect::<Vec<_>>().join(";") };
        let rs_s = if rs.is_empty() { "-".to_string() } else { rs.iter().map(|(a, b)| format!("{}:{}:{}:{}", a.0, a.1, b.0, b.1)).collect::<Vec<_>>().join(";") };
        match impl_prelude(text, root_end, &ps, &rs) {
            Ok((o, r)) => {
                driver_reqs.push(format!("lspshape.offsets {} {} {}", hex(text), root_end, ps_s));
                driver_expect.push(("offsets".into(), o, text.clone()));
                driver_reqs.push(format!("lspshape.ranges {} {}", hex(text), rs_s));
                driver_expect.push(("ranges".into(), r, text.clone()));
            }
            Err(msg) => {
                report.oracle_failure(json!({"what": format!("LuaDocument::get_offset / to_rowan_range panicked: {msg}"),
                    "input": {"text": text, "positions": ps_s, "ranges": rs_s}, "class": Value::Null}));
            }
        }
        if report.samples.len() < 3 && nontrivial {
            report.sample(json!({"text": text, "kind": kind, "positions": grid.len(), "ranges": pairs.len()}));
        }
    }
    let answers = run_driver(&driver_reqs);
    for ((kind, imp, text), ans) in driver_expect.iter().zip(answers.iter()) {
        let want = format!("ok {imp}");
        if *ans == want {
            report.traces_validated += 1;
        } else {
            report.mismatch(json!({"what": format!("prelude {kind}: implementation and Pos model differ"),
                "input": {"text": text}, "impl": imp, "model": ans}));
        }
    }
    if session.timeouts_retried > 0 {
        report.notes.push(format!("{} request(s) got no response within 30 s and were answered when sent again", session.timeouts_retried));
        report.add("timeouts_retried", session.timeouts_retried);
    }
    report.notes.push(format!("{} position methods, {} range methods", POSITION_METHODS.len(), RANGE_METHODS.len()));
}

fn fix_uri(v: &Value, uri: &str) -> Value {
    // recorded params carry the uri of the recording session; virtual uris are stable, so nothing to do
    let _ = uri;
    v.clone()
}

/// oracle: the request completed with a result (possibly null); never a panic (InternalError), never a hang
pub fn judge(report: &mut Report, text: &str, method: &str, params: &Value, reply: &Reply) {
    match reply {
        Reply::Result(_) => {
            let p = take_panics();
            if !p.is_empty() {
                // a panic that did not reach the response (e.g. in a detached task)
                report.oracle_failure(json!({"what": format!("{method}: panic while serving the request although a result was sent: {}", p[0]),
                    "input": {"text": text, "method": method, "params": params}, "class": Value::Null}));
            }
        }
        Reply::Error(code, msg) => {
            let p = take_panics();
            let what = if *code == -32603 {
                format!("{method}: handler task panicked (InternalError): {}", p.first().cloned().unwrap_or_else(|| msg.clone()))
            } else {
                format!("{method}: error response {code} {msg} for well-typed params")
            };
            report.oracle_failure(json!({"what": what, "input": {"text": text, "method": method, "params": params}, "class": Value::Null}));
        }
        Reply::Timeout => {
            report.oracle_failure(json!({"what": format!("{method}: no response within 30 s"),
                "input": {"text": text, "method": method, "params": params}, "class": Value::Null}));
        }
    }
}
