//! In-process server session: a real `ServerContext` over an in-memory connection; requests go through the
//! real `on_request_handler` (dispatch macro -> `ServerContext::task` -> handler) and the response is read
//! from the client side of the connection.
use emmylua_code_analysis::VirtualUrlGenerator;
use emmylua_ls::verif_handlers::{
    ServerContext, lsp_server::{Connection, Message, Notification, Request, RequestId},
    on_notification_handler, on_request_handler,
};
use lsp_types::{ClientCapabilities, Uri};
use serde_json::{Value, json};
use std::sync::Mutex;
use std::time::{Duration, Instant};

pub static PANICS: Mutex<Vec<String>> = Mutex::new(Vec::new());

/// record panic messages (with location) instead of printing them
pub fn install_panic_recorder() {
    std::panic::set_hook(Box::new(|info| {
        if let Ok(mut p) = PANICS.lock() {
            if p.len() < 1000 {
                p.push(info.to_string());
            }
        }
    }));
}

pub fn take_panics() -> Vec<String> {
    PANICS.lock().map(|mut p| std::mem::take(&mut *p)).unwrap_or_default()
}

#[derive(Debug, Clone)]
pub enum Reply {
    Result(Value),
    Error(i64, String),
    Timeout,
}

impl Reply {
    pub fn kind(&self) -> &'static str {
        match self {
            Reply::Result(_) => "result",
            Reply::Error(c, _) => match c {
                -32601 => "methodNotFound",
                -32602 => "invalidParams",
                -32603 => "internalError",
                -32800 => "requestCanceled",
                -32002 => "serverNotInitialized",
                -32600 => "invalidRequest",
                _ => "otherError",
            },
            Reply::Timeout => "timeout",
        }
    }
}

pub struct Session {
    pub rt: tokio::runtime::Runtime,
    pub ctx: ServerContext,
    pub client: Connection,
    pub next_id: i32,
    pub uri: Uri,
    pub uri_str: String,
    pub urls: VirtualUrlGenerator,
    pub timeouts_retried: u64,
}

impl Session {
    pub fn new(caps: ClientCapabilities, with_std: bool) -> Session {
        let rt = tokio::runtime::Builder::new_multi_thread()
            .worker_threads(2)
            .enable_all()
            .build()
            .expect("runtime");
        let (server, client) = Connection::memory();
        let urls = VirtualUrlGenerator::new();
        let uri = urls.new_uri("a.lua");
        let uri_str = uri.to_string();
        let ctx = {
            let _g = rt.enter();
            ServerContext::new(server, caps)
        };
        let s = Session { rt, ctx, client, next_id: 0, uri, uri_str, urls, timeouts_retried: 0 };
        let snap = s.ctx.snapshot();
        let base = s.urls.base.clone();
        s.rt.block_on(async {
            let mut a = snap.analysis().write().await;
            if with_std {
                a.init_std_lib(None);
            }
            a.add_main_workspace(base);
        });
        s
    }

    pub fn set_text(&mut self, text: &str) {
        let snap = self.ctx.snapshot();
        let uri = self.uri.clone();
        let text = text.to_string();
        self.rt.block_on(async {
            let mut a = snap.analysis().write().await;
            a.update_file_by_uri(&uri, Some(text));
        });
    }

    pub fn set_file(&mut self, name: &str, text: &str) -> String {
        let snap = self.ctx.snapshot();
        let uri = self.urls.new_uri(name);
        let s = uri.to_string();
        let text = text.to_string();
        self.rt.block_on(async {
            let mut a = snap.analysis().write().await;
            a.update_file_by_uri(&uri, Some(text));
        });
        s
    }

    pub fn fresh_id(&mut self) -> i32 {
        self.next_id += 1;
        self.next_id
    }

    /// send a request through `on_request_handler` without waiting for the response
    pub fn post(&mut self, id: i32, method: &str, params: Value) {
        let req = Request { id: RequestId::from(id), method: method.to_string(), params };
        let ctx = &mut self.ctx;
        self.rt.block_on(async {
            let _ = on_request_handler(req, ctx).await;
        });
    }

    pub fn notify(&mut self, method: &str, params: Value) {
        let n = Notification { method: method.to_string(), params };
        let ctx = &mut self.ctx;
        self.rt.block_on(async {
            let _ = on_notification_handler(n, ctx).await;
        });
    }

    /// responses (id, reply) that arrive within `quiet` of silence, at most `max` long
    pub fn drain(&mut self, quiet: Duration, max: Duration) -> Vec<(String, Reply)> {
        let mut out = Vec::new();
        let end = Instant::now() + max;
        loop {
            match self.client.receiver.recv_timeout(quiet) {
                Ok(Message::Response(r)) => {
                    let id = r.id.to_string();
                    let reply = match (r.result, r.error) {
                        (_, Some(e)) => Reply::Error(e.code as i64, e.message),
                        (Some(v), None) => Reply::Result(v),
                        (None, None) => Reply::Result(Value::Null),
                    };
                    out.push((id, reply));
                }
                Ok(_) => {}
                Err(_) => break,
            }
            if Instant::now() > end {
                break;
            }
        }
        out
    }

    /// request + wait for its response; a request that got no response within 30 s is sent once more (a stall of
    /// the loaded machine is not a hang of the handler; hangs are C28's subject) and the retry is counted
    pub fn request(&mut self, method: &str, params: Value) -> Reply {
        match self.request_once(method, params.clone()) {
            Reply::Timeout => {
                self.timeouts_retried += 1;
                self.request_once(method, params)
            }
            r => r,
        }
    }

    fn request_once(&mut self, method: &str, params: Value) -> Reply {
        let id = self.fresh_id();
        self.post(id, method, params);
        let want = RequestId::from(id);
        let end = Instant::now() + Duration::from_secs(30);
        loop {
            let left = end.saturating_duration_since(Instant::now());
            if left.is_zero() {
                return Reply::Timeout;
            }
            match self.client.receiver.recv_timeout(left) {
                Ok(Message::Response(r)) if r.id == want => {
                    return match (r.result, r.error) {
                        (_, Some(e)) => Reply::Error(e.code as i64, e.message),
                        (Some(v), None) => Reply::Result(v),
                        (None, None) => Reply::Result(Value::Null),
                    };
                }
                Ok(Message::Request(r)) => {
                    // server -> client request (e.g. workspace/applyEdit): answer null so nothing waits
                    let resp = emmylua_ls::verif_handlers::lsp_server::Response::new_ok(r.id, Value::Null);
                    let ctx = &self.ctx;
                    self.rt.block_on(async { ctx.send_response(resp).await });
                }
                Ok(_) => {}
                Err(_) => return Reply::Timeout,
            }
        }
    }

    pub fn td(&self) -> Value {
        json!({"uri": self.uri_str})
    }
}
