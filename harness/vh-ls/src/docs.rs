//! Document helpers independent of the implementation under test: line table with UTF-16 columns,
//! token boundaries (from a fresh parse), position grids.
use emmylua_parser::{LuaParser, ParserConfig};
use rowan::{NodeOrToken, WalkEvent};
use vh_common::Rng;

/// (start, end of content without terminator, utf16 length of content) per line; lines split at \n, \r\n, \r
pub fn lines(t: &str) -> Vec<(usize, usize, usize)> {
    let b = t.as_bytes();
    let mut starts = vec![0usize];
    let mut ends = vec![];
    let mut i = 0;
    while i < b.len() {
        if b[i] == b'\n' {
            ends.push(i);
            starts.push(i + 1);
        } else if b[i] == b'\r' {
            ends.push(i);
            if i + 1 < b.len() && b[i + 1] == b'\n' {
                starts.push(i + 2);
                i += 1;
            } else {
                starts.push(i + 1);
            }
        }
        i += 1;
    }
    ends.push(t.len());
    starts
        .iter()
        .zip(ends.iter())
        .map(|(s, e)| (*s, *e, t[*s..*e].encode_utf16().count()))
        .collect()
}

/// byte offset -> (line, utf16 col); offsets inside a terminator map to the end of the content
pub fn pos_of(t: &str, ls: &[(usize, usize, usize)], off: usize) -> (u32, u32) {
    let mut k = 0;
    for (i, l) in ls.iter().enumerate() {
        if l.0 <= off {
            k = i;
        }
    }
    let (s, e, _) = ls[k];
    let o = off.min(e).max(s);
    let mut o2 = o;
    while !t.is_char_boundary(o2) {
        o2 -= 1;
    }
    (k as u32, t[s..o2].encode_utf16().count() as u32)
}

/// token boundaries of a fresh parse (start offsets of every token + end of text), root end
pub fn token_offsets(t: &str) -> (Vec<usize>, usize) {
    let tree = LuaParser::parse(t, ParserConfig::default());
    let root = tree.get_red_root();
    let mut v = vec![];
    for ev in root.preorder_with_tokens() {
        if let WalkEvent::Enter(NodeOrToken::Token(tok)) = ev {
            v.push(u32::from(tok.text_range().start()) as usize);
            let s = u32::from(tok.text_range().start()) as usize;
            let e = u32::from(tok.text_range().end()) as usize;
            if e > s + 1 {
                let mut m = s + (e - s) / 2;
                while m > s && !t.is_char_boundary(m) {
                    m -= 1;
                }
                v.push(m);
            }
        }
    }
    let end = u32::from(root.text_range().end()) as usize;
    v.push(end);
    v.sort();
    v.dedup();
    (v, end)
}

/// positions: token boundaries and mid-token points, past end of line, past end of document, huge values
pub fn position_grid(t: &str, rng: &mut Rng, max_inside: usize) -> Vec<(u32, u32)> {
    let ls = lines(t);
    let (offs, _) = token_offsets(t);
    let mut inside: Vec<(u32, u32)> = offs.iter().filter(|o| **o <= t.len()).map(|o| pos_of(t, &ls, *o)).collect();
    inside.dedup();
    while inside.len() > max_inside {
        let i = rng.below(inside.len());
        inside.remove(i);
    }
    let n = ls.len() as u32;
    let mut out = inside;
    // past end of line
    for _ in 0..3 {
        let l = rng.below(ls.len());
        out.push((l as u32, ls[l].2 as u32 + 1 + rng.below(4) as u32));
    }
    out.push((rng.below(ls.len()) as u32, 100_000));
    // past end of document
    out.push((n, 0));
    out.push((n, 5));
    out.push((n + 1 + rng.below(10) as u32, rng.below(10) as u32));
    out.push((u32::MAX, u32::MAX));
    out.push((0, u32::MAX));
    out.push((n - 1, ls[ls.len() - 1].2 as u32));
    out
}

/// every UTF-16 column (0..=length) of every line; `only_interesting`: just the lines that hold comments, strings
/// or completion triggers (where token-internal boundaries matter). A column inside a surrogate pair is included too.
pub fn dense_positions(t: &str, only_interesting: bool) -> Vec<(u32, u32)> {
    let ls = lines(t);
    let mut out = vec![];
    for (k, (s, e, n)) in ls.iter().enumerate() {
        let line = &t[*s..*e];
        let interesting = line.contains("--") || line.contains('"') || line.contains('\'') || line.contains('#')
            || line.contains('[') || line.contains('(') || line.contains('.') || line.contains(':') || line.trim().is_empty();
        if only_interesting && !interesting {
            continue;
        }
        for c in 0..=*n {
            out.push((k as u32, c as u32));
        }
    }
    out
}

pub fn pos_json(p: (u32, u32)) -> serde_json::Value {
    serde_json::json!({"line": p.0, "character": p.1})
}

pub fn range_json(a: (u32, u32), b: (u32, u32)) -> serde_json::Value {
    serde_json::json!({"start": pos_json(a), "end": pos_json(b)})
}

/// the documents of a run: fixed ones, generated valid ones, generated invalid ones
pub fn documents(rng: &mut Rng, n_valid: usize, n_invalid: usize) -> Vec<(String, &'static str)> {
    let mut v: Vec<(String, &'static str)> = crate::gen_lua::fixed().into_iter().map(|t| (t, "fixed")).collect();
    for _ in 0..n_valid {
        v.push((crate::gen_lua::valid(rng), "valid"));
    }
    for _ in 0..n_invalid {
        v.push((crate::gen_lua::invalid(rng), "invalid"));
    }
    for _ in 0..(n_valid / 3).max(1) {
        v.push((crate::gen_lua::split_lines(rng), "split"));
    }
    v
}
