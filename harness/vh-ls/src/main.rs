//! Harness binary of the LS protocol cluster: in-process calls through the real dispatch path of
//! `emmylua_ls` (hook `verif_handlers`). C24 (task wrapper part), C25, C26.
mod c24;
mod c25;
mod c26;
mod docs;
mod gen_lua;
mod session;

use vh_common::{Args, Report};

fn main() {
    let args = Args::parse();
    session::install_panic_recorder();
    let mut report = Report::default();
    match args.prop.as_str() {
        "C24" => c24::run(&args, &mut report),
        "C25" => c25::run(&args, &mut report),
        "C26" => c26::run(&args, &mut report),
        other => {
            eprintln!("vh-ls: unknown property {other}");
            std::process::exit(2);
        }
    }
    report.write(&args.out);
    // background tasks of the server context (file watchers, debouncers) must not keep the process alive
    std::process::exit(0);
}
