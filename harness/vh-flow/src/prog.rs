//! The fragment language `F` on the harness side: AST, generator, renderers (Lua text, model token stream),
//! token parser (for replays) and syntactic classifiers.
use vh_common::Rng;

#[derive(Clone, Debug, PartialEq)]
pub enum Lit {
    Nil,
    Bool(bool),
    Int(u32),
    Flt(u32),
    Str(u32),
    /// `{}`; the id is assigned in document order when rendering
    Tbl,
}

pub const TNAMES: [&str; 5] = ["nil", "boolean", "number", "string", "table"];

#[derive(Clone, Debug, PartialEq)]
pub enum Cond {
    Truthy(usize),
    /// `type(x) == "t"` / `~=`; last flag: literal written on the left (rendering only)
    TypeIs(usize, usize, bool, bool),
    /// `x == nil` / `x ~= nil`; last flag: `nil` written on the left (rendering only)
    IsNil(usize, bool, bool),
    /// `x == <lit>` / `x ~= <lit>` (lit: boolean, integer, float or string); last flag: literal on the left
    EqLit(usize, Lit, bool, bool),
    /// `t_x == "T"` / `t_x ~= "T"` for the preamble local `t_x = type(v_x)`
    Stored(usize, usize, bool),
    Not(Box<Cond>),
    And(Box<Cond>, Box<Cond>),
    Or(Box<Cond>, Box<Cond>),
}

#[derive(Clone, Debug, PartialEq)]
pub enum Stmt {
    Assign(usize, Lit),
    /// `x = y`, `y` another variable
    AssignVar(usize, usize),
    /// probe id assigned in document order when rendering
    Probe(usize),
    If(Cond, Vec<Stmt>, Vec<(Cond, Vec<Stmt>)>, Option<Vec<Stmt>>),
    /// C41: `while c do … end`
    While(Cond, Vec<Stmt>),
    /// C41: `while true do … end`
    WhileTrue(Vec<Stmt>),
    /// C41: `repeat … until c`
    Repeat(Vec<Stmt>, Cond),
    /// C41: `for i = a, b do … end` (literal bounds)
    ForNum(u32, u32, Vec<Stmt>),
    /// C41: `for _ in pairs({…n items…}) do … end`
    ForIn(u32, Vec<Stmt>),
    /// C41: `if c then break end`
    BreakIf(Cond),
    /// C41 diagnostics oracle only (never sent to the model): `local _u = v:upper()`
    Use(usize),
}

#[derive(Clone, Debug, PartialEq)]
pub struct Prog {
    pub decls: Vec<Option<Lit>>,
    pub body: Vec<Stmt>,
}

pub struct Rendered {
    pub lua: String,
    pub tokens: String,
    pub probes: usize,
}

struct R {
    lua: String,
    toks: Vec<String>,
    tbl: u32,
    probe: u32,
    ind: usize,
    /// `type()` name index of the initial value of each variable
    init_tn: Vec<usize>,
}

pub fn lit_tname(l: &Option<Lit>) -> usize {
    match l {
        None | Some(Lit::Nil) => 0,
        Some(Lit::Bool(_)) => 1,
        Some(Lit::Int(_)) | Some(Lit::Flt(_)) => 2,
        Some(Lit::Str(_)) => 3,
        Some(Lit::Tbl) => 4,
    }
}

impl R {
    fn line(&mut self, s: &str) {
        for _ in 0..self.ind {
            self.lua.push_str("  ");
        }
        self.lua.push_str(s);
        self.lua.push('\n');
    }
    fn lit(&mut self, l: &Lit) -> (String, String) {
        match l {
            Lit::Nil => ("nil".into(), "N".into()),
            Lit::Bool(true) => ("true".into(), "T".into()),
            Lit::Bool(false) => ("false".into(), "F".into()),
            Lit::Int(n) => (format!("{n}"), format!("I{n}")),
            Lit::Flt(k) => (format!("{k}.5"), format!("D{k}")),
            Lit::Str(s) => (format!("\"s{s}\""), format!("S{s}")),
            Lit::Tbl => {
                let id = self.tbl;
                self.tbl += 1;
                ("{}".into(), format!("B{id}"))
            }
        }
    }
    fn cond(&mut self, c: &Cond) -> String {
        match c {
            Cond::Truthy(x) => {
                self.toks.push("v".into());
                self.toks.push(x.to_string());
                format!("v{x}")
            }
            Cond::TypeIs(x, t, neg, swap) => {
                self.toks.extend(["y".to_string(), x.to_string(), TNAMES[*t].to_string(), (*neg as u8).to_string()]);
                let op = if *neg { "~=" } else { "==" };
                if *swap {
                    format!("\"{}\" {op} type(v{x})", TNAMES[*t])
                } else {
                    format!("type(v{x}) {op} \"{}\"", TNAMES[*t])
                }
            }
            Cond::IsNil(x, neg, swap) => {
                self.toks.extend(["z".to_string(), x.to_string(), (*neg as u8).to_string()]);
                let op = if *neg { "~=" } else { "==" };
                if *swap { format!("nil {op} v{x}") } else { format!("v{x} {op} nil") }
            }
            Cond::EqLit(x, l, neg, swap) => {
                let (lua, tok) = self.lit(l);
                self.toks.extend(["q".to_string(), x.to_string(), tok, (*neg as u8).to_string()]);
                let op = if *neg { "~=" } else { "==" };
                if *swap { format!("{lua} {op} v{x}") } else { format!("v{x} {op} {lua}") }
            }
            Cond::Stored(x, t, neg) => {
                self.toks.extend([
                    "t".to_string(),
                    x.to_string(),
                    TNAMES[self.init_tn[*x]].to_string(),
                    TNAMES[*t].to_string(),
                    (*neg as u8).to_string(),
                ]);
                let op = if *neg { "~=" } else { "==" };
                format!("t{x} {op} \"{}\"", TNAMES[*t])
            }
            Cond::Not(c) => {
                self.toks.push("!".into());
                let s = self.cond(c);
                match **c {
                    Cond::Truthy(_) => format!("not {s}"),
                    _ => format!("not ({s})"),
                }
            }
            Cond::And(a, b) => {
                self.toks.push("&".into());
                let sa = self.cond(a);
                let sb = self.cond(b);
                let sa = if matches!(**a, Cond::Or(..)) { format!("({sa})") } else { sa };
                let sb = if matches!(**b, Cond::Or(..) | Cond::And(..)) { format!("({sb})") } else { sb };
                format!("{sa} and {sb}")
            }
            Cond::Or(a, b) => {
                self.toks.push("|".into());
                let sa = self.cond(a);
                let sb = self.cond(b);
                let sb = if matches!(**b, Cond::Or(..)) { format!("({sb})") } else { sb };
                format!("{sa} or {sb}")
            }
        }
    }
    fn block(&mut self, b: &[Stmt]) {
        self.toks.push("{".into());
        self.ind += 1;
        for s in b {
            self.stmt(s);
        }
        self.ind -= 1;
        self.toks.push("}".into());
    }
    fn stmt(&mut self, s: &Stmt) {
        match s {
            Stmt::Assign(x, l) => {
                let (lua, tok) = self.lit(l);
                self.toks.extend(["A".to_string(), x.to_string(), tok]);
                self.line(&format!("v{x} = {lua}"));
            }
            Stmt::AssignVar(x, y) => {
                self.toks.extend(["V".to_string(), x.to_string(), y.to_string()]);
                self.line(&format!("v{x} = v{y}"));
            }
            Stmt::Probe(x) => {
                let id = self.probe;
                self.probe += 1;
                self.toks.extend(["P".to_string(), id.to_string(), x.to_string()]);
                self.line(&format!("p({id}, v{x})"));
            }
            Stmt::If(c, thn, elifs, els) => {
                self.toks.push("I".into());
                let cs = self.cond(c);
                self.line(&format!("if {cs} then"));
                self.block(thn);
                for (c, b) in elifs {
                    self.toks.push("i".into());
                    let cs = self.cond(c);
                    self.line(&format!("elseif {cs} then"));
                    self.block(b);
                }
                match els {
                    Some(b) => {
                        self.toks.push("e".into());
                        self.line("else");
                        self.block(b);
                    }
                    None => self.toks.push("n".into()),
                }
                self.line("end");
            }
            Stmt::While(c, b) => {
                self.toks.push("W".into());
                let cs = self.cond(c);
                self.line(&format!("while {cs} do"));
                self.block(b);
                self.line("end");
            }
            Stmt::WhileTrue(b) => {
                self.toks.push("X".into());
                self.line("while true do");
                self.block(b);
                self.line("end");
            }
            Stmt::Repeat(b, c) => {
                self.toks.push("R".into());
                self.line("repeat");
                self.block(b);
                let cs = self.cond(c);
                self.line(&format!("until {cs}"));
            }
            Stmt::ForNum(a, z, b) => {
                self.toks.extend(["F".to_string(), a.to_string(), z.to_string()]);
                self.line(&format!("for _i = {a}, {z} do"));
                self.block(b);
                self.line("end");
            }
            Stmt::ForIn(n, b) => {
                self.toks.extend(["G".to_string(), n.to_string()]);
                let items: Vec<String> = (0..*n).map(|i| (i + 1).to_string()).collect();
                self.line(&format!("for _k in pairs({{{}}}) do", items.join(", ")));
                // the table constructor of the header is a table literal of the document: keep ids aligned
                self.tbl += 1;
                self.block(b);
                self.line("end");
            }
            Stmt::Use(x) => {
                self.line(&format!("local _u = v{x}:upper()"));
            }
            Stmt::BreakIf(c) => {
                self.toks.push("K".into());
                let cs = self.cond(c);
                self.line(&format!("if {cs} then break end"));
            }
        }
    }
}

impl Prog {
    pub fn render(&self) -> Rendered {
        let init_tn = self.decls.iter().map(lit_tname).collect();
        let mut r = R { lua: String::new(), toks: Vec::new(), tbl: 0, probe: 0, ind: 0, init_tn };
        r.toks.push(self.decls.len().to_string());
        for (i, d) in self.decls.iter().enumerate() {
            match d {
                None => {
                    r.toks.push("-".into());
                    r.line(&format!("local v{i}"));
                }
                Some(l) => {
                    let (lua, tok) = r.lit(l);
                    r.toks.push(tok);
                    r.line(&format!("local v{i} = {lua}"));
                }
            }
        }
        // preamble locals holding `type(v_x)` for every variable with a stored-type guard
        for x in self.stored_vars() {
            r.line(&format!("local t{x} = type(v{x})"));
        }
        r.toks.push("{".into());
        for s in &self.body {
            r.stmt(s);
        }
        r.toks.push("}".into());
        Rendered { lua: r.lua, tokens: r.toks.join(","), probes: r.probe as usize }
    }

    /// every condition of the program, in document order
    pub fn conds(&self) -> Vec<&Cond> {
        fn c<'a>(v: &'a [Stmt], out: &mut Vec<&'a Cond>) {
            for s in v {
                match s {
                    Stmt::If(c0, t, ei, e) => {
                        out.push(c0);
                        c(t, out);
                        for (ci, x) in ei {
                            out.push(ci);
                            c(x, out);
                        }
                        if let Some(x) = e {
                            c(x, out);
                        }
                    }
                    Stmt::While(c0, x) => {
                        out.push(c0);
                        c(x, out);
                    }
                    Stmt::Repeat(x, c0) => {
                        c(x, out);
                        out.push(c0);
                    }
                    Stmt::WhileTrue(x) | Stmt::ForNum(_, _, x) | Stmt::ForIn(_, x) => c(x, out),
                    Stmt::BreakIf(c0) => out.push(c0),
                    _ => {}
                }
            }
        }
        let mut out = Vec::new();
        c(&self.body, &mut out);
        out
    }

    pub fn stored_vars(&self) -> Vec<usize> {
        fn l(c: &Cond, out: &mut Vec<usize>) {
            match c {
                Cond::Stored(x, ..) => {
                    if !out.contains(x) {
                        out.push(*x);
                    }
                }
                Cond::Not(c) => l(c, out),
                Cond::And(a, b) | Cond::Or(a, b) => {
                    l(a, out);
                    l(b, out);
                }
                _ => {}
            }
        }
        let mut out = Vec::new();
        for c in self.conds() {
            l(c, &mut out);
        }
        out.sort();
        out
    }

    /// guard kinds used (for the evidence distribution)
    pub fn guard_kinds(&self) -> Vec<&'static str> {
        fn l(c: &Cond, out: &mut Vec<&'static str>) {
            let k = match c {
                Cond::Truthy(_) => "truthy",
                Cond::TypeIs(..) => "type_call",
                Cond::IsNil(..) => "eq_nil",
                Cond::EqLit(..) => "eq_literal",
                Cond::Stored(..) => "stored_type",
                Cond::Not(c) => {
                    l(c, out);
                    "not"
                }
                Cond::And(a, b) => {
                    l(a, out);
                    l(b, out);
                    "and"
                }
                Cond::Or(a, b) => {
                    l(a, out);
                    l(b, out);
                    "or"
                }
            };
            if !out.contains(&k) {
                out.push(k);
            }
        }
        let mut out = Vec::new();
        for c in self.conds() {
            l(c, &mut out);
        }
        out
    }

    pub fn has_loop(&self) -> bool {
        fn b(v: &[Stmt]) -> bool {
            v.iter().any(|s| match s {
                Stmt::While(..) | Stmt::WhileTrue(..) | Stmt::Repeat(..) | Stmt::ForNum(..) | Stmt::ForIn(..) | Stmt::BreakIf(..) => true,
                Stmt::If(_, t, ei, e) => b(t) || ei.iter().any(|(_, x)| b(x)) || e.as_ref().is_some_and(|x| b(x)),
                _ => false,
            })
        }
        b(&self.body)
    }

    pub fn count_ifs(&self) -> usize {
        fn b(v: &[Stmt]) -> usize {
            v.iter()
                .map(|s| match s {
                    Stmt::If(_, t, ei, e) => {
                        1 + b(t) + ei.iter().map(|(_, x)| b(x)).sum::<usize>() + e.as_ref().map_or(0, |x| b(x))
                    }
                    Stmt::While(_, x) | Stmt::WhileTrue(x) | Stmt::Repeat(x, _) | Stmt::ForNum(_, _, x) | Stmt::ForIn(_, x) => b(x),
                    _ => 0,
                })
                .sum()
        }
        b(&self.body)
    }

    pub fn size(&self) -> usize {
        fn b(v: &[Stmt]) -> usize {
            v.iter()
                .map(|s| match s {
                    Stmt::If(_, t, ei, e) => {
                        1 + b(t) + ei.iter().map(|(_, x)| b(x)).sum::<usize>() + e.as_ref().map_or(0, |x| b(x))
                    }
                    Stmt::While(_, x) | Stmt::WhileTrue(x) | Stmt::Repeat(x, _) | Stmt::ForNum(_, _, x) | Stmt::ForIn(_, x) => 1 + b(x),
                    _ => 1,
                })
                .sum()
        }
        b(&self.body)
    }
}

// ------------------------------------------------------------------------------------------------
// token parser (replays)

pub fn parse_tokens(s: &str) -> Option<Prog> {
    let toks: Vec<&str> = s.split(',').collect();
    let mut i = 0usize;
    let n: usize = toks.get(i)?.parse().ok()?;
    i += 1;
    let mut decls = Vec::new();
    for _ in 0..n {
        let t = *toks.get(i)?;
        i += 1;
        decls.push(if t == "-" { None } else { Some(parse_lit(t)?) });
    }
    let body = parse_block(&toks, &mut i)?;
    if i != toks.len() {
        return None;
    }
    Some(Prog { decls, body })
}

fn parse_lit(t: &str) -> Option<Lit> {
    Some(match t.as_bytes().first()? {
        b'N' => Lit::Nil,
        b'T' => Lit::Bool(true),
        b'F' => Lit::Bool(false),
        b'I' => Lit::Int(t[1..].parse().ok()?),
        b'D' => Lit::Flt(t[1..].parse().ok()?),
        b'S' => Lit::Str(t[1..].parse().ok()?),
        b'B' => Lit::Tbl,
        _ => return None,
    })
}

fn parse_cond(t: &[&str], i: &mut usize) -> Option<Cond> {
    let k = *t.get(*i)?;
    *i += 1;
    Some(match k {
        "v" => {
            let x = t.get(*i)?.parse().ok()?;
            *i += 1;
            Cond::Truthy(x)
        }
        "y" => {
            let x = t.get(*i)?.parse().ok()?;
            let tn = TNAMES.iter().position(|n| n == t.get(*i + 1).unwrap_or(&""))?;
            let neg = *t.get(*i + 2)? == "1";
            *i += 3;
            Cond::TypeIs(x, tn, neg, false)
        }
        "z" => {
            let x = t.get(*i)?.parse().ok()?;
            let neg = *t.get(*i + 1)? == "1";
            *i += 2;
            Cond::IsNil(x, neg, false)
        }
        "q" => {
            let x = t.get(*i)?.parse().ok()?;
            let l = parse_lit(t.get(*i + 1)?)?;
            let neg = *t.get(*i + 2)? == "1";
            *i += 3;
            Cond::EqLit(x, l, neg, false)
        }
        "t" => {
            let x = t.get(*i)?.parse().ok()?;
            let tn = TNAMES.iter().position(|n| n == t.get(*i + 2).unwrap_or(&""))?;
            let neg = *t.get(*i + 3)? == "1";
            *i += 4;
            Cond::Stored(x, tn, neg)
        }
        "!" => Cond::Not(Box::new(parse_cond(t, i)?)),
        "&" => {
            let a = parse_cond(t, i)?;
            let b = parse_cond(t, i)?;
            Cond::And(Box::new(a), Box::new(b))
        }
        "|" => {
            let a = parse_cond(t, i)?;
            let b = parse_cond(t, i)?;
            Cond::Or(Box::new(a), Box::new(b))
        }
        _ => return None,
    })
}

fn parse_block(t: &[&str], i: &mut usize) -> Option<Vec<Stmt>> {
    if *t.get(*i)? != "{" {
        return None;
    }
    *i += 1;
    let mut out = Vec::new();
    loop {
        let k = *t.get(*i)?;
        if k == "}" {
            *i += 1;
            return Some(out);
        }
        *i += 1;
        out.push(match k {
            "A" => {
                let x = t.get(*i)?.parse().ok()?;
                let l = parse_lit(t.get(*i + 1)?)?;
                *i += 2;
                Stmt::Assign(x, l)
            }
            "V" => {
                let x = t.get(*i)?.parse().ok()?;
                let y = t.get(*i + 1)?.parse().ok()?;
                *i += 2;
                Stmt::AssignVar(x, y)
            }
            "P" => {
                let x = t.get(*i + 1)?.parse().ok()?;
                *i += 2;
                Stmt::Probe(x)
            }
            "I" => {
                let c = parse_cond(t, i)?;
                let thn = parse_block(t, i)?;
                let mut elifs = Vec::new();
                let mut els = None;
                loop {
                    let k = *t.get(*i)?;
                    *i += 1;
                    match k {
                        "n" => break,
                        "e" => {
                            els = Some(parse_block(t, i)?);
                            break;
                        }
                        "i" => {
                            let c = parse_cond(t, i)?;
                            let b = parse_block(t, i)?;
                            elifs.push((c, b));
                        }
                        _ => return None,
                    }
                }
                Stmt::If(c, thn, elifs, els)
            }
            "W" => {
                let c = parse_cond(t, i)?;
                Stmt::While(c, parse_block(t, i)?)
            }
            "X" => Stmt::WhileTrue(parse_block(t, i)?),
            "R" => {
                let b = parse_block(t, i)?;
                Stmt::Repeat(b, parse_cond(t, i)?)
            }
            "F" => {
                let a = t.get(*i)?.parse().ok()?;
                let z = t.get(*i + 1)?.parse().ok()?;
                *i += 2;
                Stmt::ForNum(a, z, parse_block(t, i)?)
            }
            "G" => {
                let n = t.get(*i)?.parse().ok()?;
                *i += 1;
                Stmt::ForIn(n, parse_block(t, i)?)
            }
            "K" => Stmt::BreakIf(parse_cond(t, i)?),
            _ => return None,
        });
    }
}

// ------------------------------------------------------------------------------------------------
// generator

pub struct GenCfg {
    pub max_vars: usize,
    pub max_depth: usize,
    pub max_block: usize,
    pub logic: bool,
    pub loops: bool,
}

pub fn gen_lit(rng: &mut Rng) -> Lit {
    // `false` (and so `false|nil` unions) is as frequent as `nil`: falsy-but-not-nil values are where
    // truthiness narrowing and nil-ness narrowing differ
    match rng.below(12) {
        0 | 1 => Lit::Nil,
        2 => Lit::Bool(true),
        3 | 4 | 5 => Lit::Bool(false),
        6 | 7 => Lit::Int(rng.below(3) as u32 + 1),
        8 => Lit::Flt(rng.below(2) as u32 + 1),
        9 | 10 => Lit::Str(rng.below(3) as u32 + 1),
        _ => Lit::Tbl,
    }
}

pub fn gen_cond(rng: &mut Rng, nv: usize, depth: usize, logic: bool) -> Cond {
    let k = if logic && depth > 0 { rng.below(10) } else { rng.below(6) };
    if k < 6 && rng.chance(1, 4) {
        // the newer guard kinds
        return if rng.chance(2, 3) {
            let l = match rng.below(5) {
                0 => Lit::Bool(rng.chance(1, 2)),
                1 | 2 => Lit::Int(rng.below(3) as u32 + 1),
                3 => Lit::Flt(rng.below(2) as u32 + 1),
                _ => Lit::Str(rng.below(3) as u32 + 1),
            };
            Cond::EqLit(rng.below(nv), l, rng.chance(1, 3), rng.chance(1, 6))
        } else {
            Cond::Stored(rng.below(nv), rng.below(TNAMES.len()), rng.chance(1, 3))
        };
    }
    match k {
        0 | 1 => {
            // `x` and `not x` equally often (the else arm of `x` / then arm of `not x` holds the falsy values)
            if rng.chance(1, 2) { Cond::Truthy(rng.below(nv)) } else { Cond::Not(Box::new(Cond::Truthy(rng.below(nv)))) }
        }
        2 | 3 => Cond::TypeIs(rng.below(nv), rng.below(TNAMES.len()), rng.chance(1, 3), rng.chance(1, 6)),
        4 | 5 => Cond::IsNil(rng.below(nv), rng.chance(1, 2), rng.chance(1, 6)),
        6 => Cond::Not(Box::new(gen_cond(rng, nv, depth - 1, logic))),
        7 | 8 => Cond::And(
            Box::new(gen_cond(rng, nv, depth - 1, logic)),
            Box::new(gen_cond(rng, nv, depth - 1, logic)),
        ),
        _ => Cond::Or(
            Box::new(gen_cond(rng, nv, depth - 1, logic)),
            Box::new(gen_cond(rng, nv, depth - 1, logic)),
        ),
    }
}

fn gen_block(rng: &mut Rng, cfg: &GenCfg, nv: usize, depth: usize, in_loop: bool, inert: bool) -> Vec<Stmt> {
    let n = rng.below(cfg.max_block + 1);
    let mut out = Vec::new();
    for _ in 0..n {
        let k = rng.below(if cfg.loops { 14 } else { 9 });
        match k {
            0..=2 => {
                if inert {
                    out.push(Stmt::Probe(rng.below(nv)));
                } else if nv >= 2 && rng.chance(1, 4) {
                    let x = rng.below(nv);
                    let y = (x + 1 + rng.below(nv - 1)) % nv;
                    out.push(Stmt::AssignVar(x, y));
                } else {
                    out.push(Stmt::Assign(rng.below(nv), gen_lit(rng)));
                }
            }
            3 | 4 => out.push(Stmt::Probe(rng.below(nv))),
            5..=8 => {
                if depth == 0 {
                    out.push(Stmt::Probe(rng.below(nv)));
                    continue;
                }
                let c = gen_cond(rng, nv, 2, cfg.logic);
                let thn = gen_block(rng, cfg, nv, depth - 1, in_loop, inert);
                let mut elifs = Vec::new();
                while rng.chance(1, 5) && elifs.len() < 2 {
                    elifs.push((gen_cond(rng, nv, 2, cfg.logic), gen_block(rng, cfg, nv, depth - 1, in_loop, inert)));
                }
                let els = if rng.chance(1, 2) { Some(gen_block(rng, cfg, nv, depth - 1, in_loop, inert)) } else { None };
                out.push(Stmt::If(c, thn, elifs, els));
            }
            9..=12 => {
                if depth == 0 {
                    continue;
                }
                // bodies of "inert" loops assign nothing (the fragment of the C41 theorem); the others may assign
                let body_inert = inert || rng.chance(2, 5);
                let x = rng.below(nv);
                let mut body = gen_block(rng, cfg, nv, depth - 1, true, body_inert);
                match rng.below(6) {
                    0 | 1 => {
                        // while: make termination likely (non-terminating programs are filtered by the interpreter)
                        let c = if body_inert {
                            body.push(Stmt::BreakIf(gen_cond(rng, nv, 1, cfg.logic)));
                            gen_cond(rng, nv, 1, cfg.logic)
                        } else {
                            match rng.below(4) {
                                0 => {
                                    body.push(Stmt::Assign(x, if rng.chance(1, 2) { Lit::Nil } else { Lit::Bool(false) }));
                                    Cond::Truthy(x)
                                }
                                1 => {
                                    body.push(Stmt::Assign(x, gen_truthy_lit(rng)));
                                    Cond::Not(Box::new(Cond::Truthy(x)))
                                }
                                2 => {
                                    body.push(Stmt::Assign(x, gen_truthy_lit(rng)));
                                    Cond::IsNil(x, false, false)
                                }
                                _ => {
                                    body.push(Stmt::Assign(x, Lit::Nil));
                                    Cond::IsNil(x, true, false)
                                }
                            }
                        };
                        out.push(Stmt::While(c, body));
                    }
                    2 => {
                        if !body_inert {
                            body.push(Stmt::Assign(x, gen_truthy_lit(rng)));
                            body.push(Stmt::BreakIf(Cond::Truthy(x)));
                        } else {
                            body.push(Stmt::BreakIf(gen_cond(rng, nv, 1, cfg.logic)));
                        }
                        out.push(Stmt::WhileTrue(body));
                    }
                    3 => {
                        let c = if body_inert {
                            gen_cond(rng, nv, 1, cfg.logic)
                        } else {
                            match rng.below(3) {
                                0 => {
                                    body.push(Stmt::Assign(x, gen_truthy_lit(rng)));
                                    Cond::Truthy(x)
                                }
                                1 => {
                                    body.push(Stmt::Assign(x, Lit::Nil));
                                    Cond::IsNil(x, false, false)
                                }
                                _ => {
                                    body.push(Stmt::Assign(x, gen_truthy_lit(rng)));
                                    Cond::IsNil(x, true, false)
                                }
                            }
                        };
                        out.push(Stmt::Repeat(body, c));
                    }
                    4 => {
                        let a = rng.below(3) as u32;
                        let z = rng.below(4) as u32;
                        out.push(Stmt::ForNum(a, z, body));
                    }
                    _ => out.push(Stmt::ForIn(rng.below(3) as u32, body)),
                }
            }
            _ => {
                if in_loop && rng.chance(1, 2) {
                    out.push(Stmt::BreakIf(gen_cond(rng, nv, 1, cfg.logic)));
                } else {
                    out.push(Stmt::Probe(rng.below(nv)));
                }
            }
        }
    }
    // probes make the program observable: add one for a random variable with good probability
    if rng.chance(2, 3) {
        out.push(Stmt::Probe(rng.below(nv)));
    }
    out
}

fn gen_truthy_lit(rng: &mut Rng) -> Lit {
    if rng.chance(1, 3) {
        return Lit::Str(rng.below(3) as u32 + 1);
    }
    match rng.below(5) {
        0 => Lit::Bool(true),
        1 => Lit::Int(rng.below(3) as u32 + 1),
        2 => Lit::Flt(1),
        3 => Lit::Str(rng.below(3) as u32 + 1),
        _ => Lit::Tbl,
    }
}

pub fn gen_prog(rng: &mut Rng, cfg: &GenCfg) -> Prog {
    let nv = rng.range(1, cfg.max_vars);
    let decls = (0..nv).map(|_| if rng.chance(1, 6) { None } else { Some(gen_lit(rng)) }).collect();
    let mut body = gen_block(rng, cfg, nv, cfg.max_depth, false, false);
    if body.is_empty() {
        body.push(Stmt::Probe(0));
    }
    Prog { decls, body }
}
