//! The real analyzer and the real VM on a rendered `F` program.
use emmylua_code_analysis::{LuaType, VirtualWorkspace};
use emmylua_parser::{LuaAstNode, LuaCallExpr, LuaExpr, LuaLiteralToken, LuaTableExpr, NumberResult};
use std::cell::RefCell;

pub struct ProbeType {
    pub id: i64,
    pub var: String,
    /// canonical members in `into_vec` order, or `Err(reason)` when inference failed
    pub atoms: Result<Vec<String>, String>,
    pub human: String,
}

fn atom(t: &LuaType, tables: &[u32]) -> String {
    match t {
        LuaType::Unknown => "unknown".into(),
        LuaType::Any => "any".into(),
        LuaType::Nil => "nil".into(),
        LuaType::Table => "table".into(),
        LuaType::Boolean => "boolean".into(),
        LuaType::String => "string".into(),
        LuaType::Integer => "integer".into(),
        LuaType::Number => "number".into(),
        LuaType::Never => "never".into(),
        LuaType::BooleanConst(b) => b.to_string(),
        LuaType::IntegerConst(i) => format!("i{i}"),
        LuaType::FloatConst(f) => format!("f{}", f.floor() as i64),
        LuaType::StringConst(s) => format!("{}", s.as_str()),
        LuaType::TableConst(r) => {
            let start: u32 = r.value.start().into();
            match tables.iter().position(|s| *s == start) {
                Some(i) => format!("t{i}"),
                None => format!("t?{start}"),
            }
        }
        other => format!("?{:?}", other),
    }
}

pub fn canon(t: &LuaType, tables: &[u32]) -> Vec<String> {
    match t {
        LuaType::Union(u) => u.into_vec().iter().map(|m| atom(m, tables)).collect(),
        t => vec![atom(t, tables)],
    }
}

/// inferred type at the name argument of every `p(<int>, <name>)` call in `text`
pub fn infer_probes(text: &str) -> Vec<ProbeType> {
    let mut ws = VirtualWorkspace::new();
    let file_id = ws.def(text);
    let model = ws.analysis.compilation.get_semantic_model(file_id).expect("semantic model");
    let root = model.get_root().clone();
    let tables: Vec<u32> = root.descendants::<LuaTableExpr>().map(|t| t.get_position().into()).collect();
    let mut out = Vec::new();
    for call in root.descendants::<LuaCallExpr>() {
        let Some(LuaExpr::NameExpr(prefix)) = call.get_prefix_expr() else { continue };
        if prefix.get_name_text().as_deref() != Some("p") {
            continue;
        }
        let Some(args) = call.get_args_list() else { continue };
        let args: Vec<LuaExpr> = args.get_args().collect();
        if args.len() != 2 {
            continue;
        }
        let id = match &args[0] {
            LuaExpr::LiteralExpr(l) => match l.get_literal() {
                Some(LuaLiteralToken::Number(n)) => match n.get_number_value() {
                    NumberResult::Int(i) => i,
                    _ => continue,
                },
                _ => continue,
            },
            _ => continue,
        };
        let LuaExpr::NameExpr(name) = &args[1] else { continue };
        let var = name.get_name_text().unwrap_or_default();
        let (atoms, human) = match model.infer_expr(args[1].clone()) {
            Ok(t) => (
                Ok(canon(&t, &tables)),
                emmylua_code_analysis::humanize_type(model.get_db(), &t, emmylua_code_analysis::RenderLevel::Detailed),
            ),
            Err(e) => (Err(format!("{:?}", e)), "<err>".to_string()),
        };
        out.push(ProbeType { id, var, atoms, human });
    }
    out
}

/// diagnostics (code, message) the analyzer reports for `text` with the default configuration
pub fn diagnostics(text: &str) -> Vec<(String, String)> {
    let mut ws = VirtualWorkspace::new_with_init_std_lib();
    diagnostics_in(&mut ws, text).into_iter().map(|(c, m, _)| (c, m)).collect()
}

/// diagnostics (code, message, 0-based line) of `text` analysed as a new file of `ws`
pub fn diagnostics_in(ws: &mut VirtualWorkspace, text: &str) -> Vec<(String, String, u32)> {
    // one fixed file name: every call replaces the previous program
    let file_id = ws.def_file("vh_flow_probe.lua", text);
    let res = ws.analysis.diagnose_file(file_id, Default::default());
    let mut out = Vec::new();
    for d in res.unwrap_or_default() {
        let code = match d.code {
            Some(lsp_types::NumberOrString::String(s)) => s,
            Some(lsp_types::NumberOrString::Number(n)) => n.to_string(),
            None => String::new(),
        };
        out.push((code, d.message, d.range.start.line));
    }
    out
}

thread_local! {
    static TRACE: RefCell<Vec<(i64, String)>> = RefCell::new(Vec::new());
}

fn probe_fn(l: &mut luars::LuaState) -> luars::LuaResult<usize> {
    let args = l.get_args();
    let id = args.first().and_then(|v| v.as_integer()).unwrap_or(-1);
    let atom = match args.get(1) {
        None => "nil".to_string(),
        Some(v) => match v.as_boolean() {
            Some(true) => "true".to_string(),
            Some(false) => "false".to_string(),
            None => v.type_name().to_string(),
        },
    };
    TRACE.with(|t| t.borrow_mut().push((id, atom)));
    Ok(0)
}

/// run `text` in the bundled luars VM with global `p` recording (probe id, runtime atom):
/// atom ∈ nil | true | false | number | string | table
pub fn run_vm(text: &str) -> Result<Vec<(i64, String)>, String> {
    use luars::{Lua, LuaApi, LuaValue, SafeOption};
    TRACE.with(|t| t.borrow_mut().clear());
    let mut lua = Lua::new(SafeOption::default());
    let _ = lua.open_stdlibs(&[luars::Stdlib::Basic, luars::Stdlib::String]);
    let _ = lua.set_global("p", LuaValue::cfunction(probe_fn));
    match lua.load(text).exec() {
        Ok(()) => {}
        Err(e) => {
            let msg = lua.get_error_message(e);
            return Err(format!("{:?}", msg));
        }
    }
    Ok(TRACE.with(|t| t.borrow().clone()))
}
