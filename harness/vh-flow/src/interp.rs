//! A tiny interpreter for `F`/`FL` on the harness side. Used to discard generated programs that do not
//! terminate within a step budget, and as a second, model-independent reference for the probe trace.
use crate::prog::{Cond, Lit, Prog, Stmt, TNAMES};

#[derive(Clone, Copy, PartialEq, Debug)]
pub enum V {
    Nil,
    Bool(bool),
    Num,
    Str,
    Tbl,
}

impl V {
    fn of(l: &Lit) -> V {
        match l {
            Lit::Nil => V::Nil,
            Lit::Bool(b) => V::Bool(*b),
            Lit::Int(_) | Lit::Flt(_) => V::Num,
            Lit::Str(_) => V::Str,
            Lit::Tbl => V::Tbl,
        }
    }
    fn truthy(self) -> bool {
        !matches!(self, V::Nil | V::Bool(false))
    }
    fn tname(self) -> &'static str {
        match self {
            V::Nil => "nil",
            V::Bool(_) => "boolean",
            V::Num => "number",
            V::Str => "string",
            V::Tbl => "table",
        }
    }
    pub fn atom(self) -> &'static str {
        match self {
            V::Nil => "nil",
            V::Bool(true) => "true",
            V::Bool(false) => "false",
            V::Num => "number",
            V::Str => "string",
            V::Tbl => "table",
        }
    }
}

struct M {
    env: Vec<V>,
    trace: Vec<(i64, String)>,
    probe_ids: std::collections::HashMap<*const Stmt, i64>,
    steps: usize,
    budget: usize,
}

enum Flow {
    Next,
    Break,
    OutOfBudget,
}

fn eval(c: &Cond, env: &[V]) -> bool {
    match c {
        Cond::Truthy(x) => env[*x].truthy(),
        Cond::TypeIs(x, t, neg, _) => (env[*x].tname() == TNAMES[*t]) != *neg,
        Cond::IsNil(x, neg, _) => (env[*x] == V::Nil) != *neg,
        Cond::Not(c) => !eval(c, env),
        Cond::And(a, b) => eval(a, env) && eval(b, env),
        Cond::Or(a, b) => eval(a, env) || eval(b, env),
    }
}

impl M {
    fn block(&mut self, b: &[Stmt]) -> Flow {
        for s in b {
            match self.stmt(s) {
                Flow::Next => {}
                f => return f,
            }
        }
        Flow::Next
    }
    fn looped(&mut self, b: &[Stmt]) -> Option<bool> {
        // Some(true) = broke, Some(false) = completed, None = out of budget
        match self.block(b) {
            Flow::Next => Some(false),
            Flow::Break => Some(true),
            Flow::OutOfBudget => None,
        }
    }
    fn stmt(&mut self, s: &Stmt) -> Flow {
        self.steps += 1;
        if self.steps > self.budget {
            return Flow::OutOfBudget;
        }
        match s {
            Stmt::Assign(x, l) => {
                self.env[*x] = V::of(l);
                Flow::Next
            }
            Stmt::Probe(x) => {
                let id = self.probe_ids[&(s as *const Stmt)];
                self.trace.push((id, self.env[*x].atom().to_string()));
                Flow::Next
            }
            Stmt::If(c, thn, elifs, els) => {
                if eval(c, &self.env) {
                    return self.block(thn);
                }
                for (c, b) in elifs {
                    if eval(c, &self.env) {
                        return self.block(b);
                    }
                }
                match els {
                    Some(b) => self.block(b),
                    None => Flow::Next,
                }
            }
            Stmt::While(c, b) => {
                while eval(c, &self.env) {
                    self.steps += 1;
                    match self.looped(b) {
                        None => return Flow::OutOfBudget,
                        Some(true) => break,
                        Some(false) => {}
                    }
                    if self.steps > self.budget {
                        return Flow::OutOfBudget;
                    }
                }
                Flow::Next
            }
            Stmt::WhileTrue(b) => {
                loop {
                    self.steps += 1;
                    match self.looped(b) {
                        None => return Flow::OutOfBudget,
                        Some(true) => break,
                        Some(false) => {}
                    }
                    if self.steps > self.budget {
                        return Flow::OutOfBudget;
                    }
                }
                Flow::Next
            }
            Stmt::Repeat(b, c) => {
                loop {
                    self.steps += 1;
                    match self.looped(b) {
                        None => return Flow::OutOfBudget,
                        Some(true) => break,
                        Some(false) => {}
                    }
                    if eval(c, &self.env) {
                        break;
                    }
                    if self.steps > self.budget {
                        return Flow::OutOfBudget;
                    }
                }
                Flow::Next
            }
            Stmt::ForNum(a, z, b) => {
                let mut i = *a;
                while i <= *z {
                    match self.looped(b) {
                        None => return Flow::OutOfBudget,
                        Some(true) => break,
                        Some(false) => {}
                    }
                    i += 1;
                }
                Flow::Next
            }
            Stmt::ForIn(n, b) => {
                for _ in 0..*n {
                    match self.looped(b) {
                        None => return Flow::OutOfBudget,
                        Some(true) => break,
                        Some(false) => {}
                    }
                }
                Flow::Next
            }
            Stmt::BreakIf(c) => {
                if eval(c, &self.env) {
                    Flow::Break
                } else {
                    Flow::Next
                }
            }
        }
    }
}

fn number(b: &[Stmt], next: &mut i64, ids: &mut std::collections::HashMap<*const Stmt, i64>) {
    for s in b {
        match s {
            Stmt::Probe(_) => {
                ids.insert(s as *const Stmt, *next);
                *next += 1;
            }
            Stmt::If(_, t, ei, e) => {
                number(t, next, ids);
                for (_, x) in ei {
                    number(x, next, ids);
                }
                if let Some(x) = e {
                    number(x, next, ids);
                }
            }
            Stmt::While(_, x) | Stmt::WhileTrue(x) | Stmt::Repeat(x, _) | Stmt::ForNum(_, _, x) | Stmt::ForIn(_, x) => {
                number(x, next, ids)
            }
            _ => {}
        }
    }
}

/// probe trace (probe id in document order, runtime atom), or `None` when the step budget is exhausted
pub fn run(p: &Prog, budget: usize) -> Option<Vec<(i64, String)>> {
    let mut ids = std::collections::HashMap::new();
    let mut next = 0;
    number(&p.body, &mut next, &mut ids);
    let env = p.decls.iter().map(|d| d.as_ref().map_or(V::Nil, V::of)).collect();
    let mut m = M { env, trace: Vec::new(), probe_ids: ids, steps: 0, budget };
    match m.block(&p.body) {
        Flow::OutOfBudget => None,
        _ => Some(m.trace),
    }
}
