//! A tiny interpreter for `F`/`FL` on the harness side. Used to discard generated programs that do not
//! terminate within a step budget, and as a second, model-independent reference for the probe trace.
use crate::prog::{Cond, Lit, Prog, Stmt, TNAMES};

#[derive(Clone, Copy, PartialEq, Debug)]
pub enum V {
    Nil,
    Bool(bool),
    Int(u32),
    Flt(u32),
    Str(u32),
    Tbl,
}

impl V {
    fn of(l: &Lit) -> V {
        match l {
            Lit::Nil => V::Nil,
            Lit::Bool(b) => V::Bool(*b),
            Lit::Int(n) => V::Int(*n),
            Lit::Flt(k) => V::Flt(*k),
            Lit::Str(k) => V::Str(*k),
            Lit::Tbl => V::Tbl,
        }
    }
    fn truthy(self) -> bool {
        !matches!(self, V::Nil | V::Bool(false))
    }
    fn tname(self) -> &'static str {
        match self {
            V::Nil => "nil",
            V::Bool(_) => "boolean",
            V::Int(_) | V::Flt(_) => "number",
            V::Str(_) => "string",
            V::Tbl => "table",
        }
    }
    pub fn atom(self) -> &'static str {
        match self {
            V::Nil => "nil",
            V::Bool(true) => "true",
            V::Bool(false) => "false",
            V::Int(_) | V::Flt(_) => "number",
            V::Str(_) => "string",
            V::Tbl => "table",
        }
    }
}

struct M {
    env: Vec<V>,
    init: Vec<V>,
    trace: Vec<(i64, String)>,
    probe_ids: std::collections::HashMap<*const Stmt, i64>,
    steps: usize,
    budget: usize,
    /// a `Use(x)` was executed while `x` was not a string (the extended program is not "correct code")
    bad_use: bool,
    uses: usize,
    used: Vec<*const Stmt>,
}

enum Flow {
    Next,
    Break,
    OutOfBudget,
}

fn eval(c: &Cond, env: &[V], init: &[V]) -> bool {
    match c {
        Cond::Truthy(x) => env[*x].truthy(),
        Cond::TypeIs(x, t, neg, _) => (env[*x].tname() == TNAMES[*t]) != *neg,
        Cond::IsNil(x, neg, _) => (env[*x] == V::Nil) != *neg,
        // a table constructor is never equal to anything (not generated)
        Cond::EqLit(x, l, neg, _) => (*l != Lit::Tbl && env[*x] == V::of(l)) != *neg,
        Cond::Stored(x, t, neg) => (init[*x].tname() == TNAMES[*t]) != *neg,
        Cond::Not(c) => !eval(c, env, init),
        Cond::And(a, b) => eval(a, env, init) && eval(b, env, init),
        Cond::Or(a, b) => eval(a, env, init) || eval(b, env, init),
    }
}

impl M {
    fn block(&mut self, b: &[Stmt]) -> Flow {
        for s in b {
            match self.stmt(s) {
                Flow::Next => {}
                f => return f,
            }
        }
        Flow::Next
    }
    fn looped(&mut self, b: &[Stmt]) -> Option<bool> {
        // Some(true) = broke, Some(false) = completed, None = out of budget
        match self.block(b) {
            Flow::Next => Some(false),
            Flow::Break => Some(true),
            Flow::OutOfBudget => None,
        }
    }
    fn stmt(&mut self, s: &Stmt) -> Flow {
        self.steps += 1;
        if self.steps > self.budget {
            return Flow::OutOfBudget;
        }
        match s {
            Stmt::Assign(x, l) => {
                self.env[*x] = V::of(l);
                Flow::Next
            }
            Stmt::AssignVar(x, y) => {
                self.env[*x] = self.env[*y];
                Flow::Next
            }
            Stmt::Probe(x) => {
                let id = self.probe_ids[&(s as *const Stmt)];
                self.trace.push((id, self.env[*x].atom().to_string()));
                Flow::Next
            }
            Stmt::If(c, thn, elifs, els) => {
                if eval(c, &self.env, &self.init) {
                    return self.block(thn);
                }
                for (c, b) in elifs {
                    if eval(c, &self.env, &self.init) {
                        return self.block(b);
                    }
                }
                match els {
                    Some(b) => self.block(b),
                    None => Flow::Next,
                }
            }
            Stmt::While(c, b) => {
                while eval(c, &self.env, &self.init) {
                    self.steps += 1;
                    match self.looped(b) {
                        None => return Flow::OutOfBudget,
                        Some(true) => break,
                        Some(false) => {}
                    }
                    if self.steps > self.budget {
                        return Flow::OutOfBudget;
                    }
                }
                Flow::Next
            }
            Stmt::WhileTrue(b) => {
                loop {
                    self.steps += 1;
                    match self.looped(b) {
                        None => return Flow::OutOfBudget,
                        Some(true) => break,
                        Some(false) => {}
                    }
                    if self.steps > self.budget {
                        return Flow::OutOfBudget;
                    }
                }
                Flow::Next
            }
            Stmt::Repeat(b, c) => {
                loop {
                    self.steps += 1;
                    match self.looped(b) {
                        None => return Flow::OutOfBudget,
                        Some(true) => break,
                        Some(false) => {}
                    }
                    if eval(c, &self.env, &self.init) {
                        break;
                    }
                    if self.steps > self.budget {
                        return Flow::OutOfBudget;
                    }
                }
                Flow::Next
            }
            Stmt::ForNum(a, z, b) => {
                let mut i = *a;
                while i <= *z {
                    match self.looped(b) {
                        None => return Flow::OutOfBudget,
                        Some(true) => break,
                        Some(false) => {}
                    }
                    i += 1;
                }
                Flow::Next
            }
            Stmt::ForIn(n, b) => {
                for _ in 0..*n {
                    match self.looped(b) {
                        None => return Flow::OutOfBudget,
                        Some(true) => break,
                        Some(false) => {}
                    }
                }
                Flow::Next
            }
            Stmt::Use(x) => {
                self.uses += 1;
                if !self.used.contains(&(s as *const Stmt)) {
                    self.used.push(s as *const Stmt);
                }
                if !matches!(self.env[*x], V::Str(_)) {
                    self.bad_use = true;
                }
                Flow::Next
            }
            Stmt::BreakIf(c) => {
                if eval(c, &self.env, &self.init) {
                    Flow::Break
                } else {
                    Flow::Next
                }
            }
        }
    }
}

fn number(b: &[Stmt], next: &mut i64, ids: &mut std::collections::HashMap<*const Stmt, i64>) {
    for s in b {
        match s {
            Stmt::Probe(_) => {
                ids.insert(s as *const Stmt, *next);
                *next += 1;
            }
            Stmt::If(_, t, ei, e) => {
                number(t, next, ids);
                for (_, x) in ei {
                    number(x, next, ids);
                }
                if let Some(x) = e {
                    number(x, next, ids);
                }
            }
            Stmt::While(_, x) | Stmt::WhileTrue(x) | Stmt::Repeat(x, _) | Stmt::ForNum(_, _, x) | Stmt::ForIn(_, x) => {
                number(x, next, ids)
            }
            _ => {}
        }
    }
}

/// probe trace (probe id in document order, runtime atom), or `None` when the step budget is exhausted
pub fn run(p: &Prog, budget: usize) -> Option<Vec<(i64, String)>> {
    let mut ids = std::collections::HashMap::new();
    let mut next = 0;
    number(&p.body, &mut next, &mut ids);
    let env: Vec<V> = p.decls.iter().map(|d| d.as_ref().map_or(V::Nil, V::of)).collect();
    let mut m = M { init: env.clone(), env, trace: Vec::new(), probe_ids: ids, steps: 0, budget, bad_use: false, uses: 0, used: Vec::new() };
    match m.block(&p.body) {
        Flow::OutOfBudget => None,
        _ => Some(m.trace),
    }
}

fn use_order(b: &[Stmt], out: &mut Vec<*const Stmt>) {
    for s in b {
        match s {
            Stmt::Use(_) => out.push(s as *const Stmt),
            Stmt::If(_, t, ei, e) => {
                use_order(t, out);
                for (_, x) in ei {
                    use_order(x, out);
                }
                if let Some(x) = e {
                    use_order(x, out);
                }
            }
            Stmt::While(_, x) | Stmt::WhileTrue(x) | Stmt::Repeat(x, _) | Stmt::ForNum(_, _, x) | Stmt::ForIn(_, x) => {
                use_order(x, out)
            }
            _ => {}
        }
    }
}

/// for a program with `Use` statements: `Some(v)` = terminated and every executed use saw a string;
/// `v[i]` tells whether the i-th use (document order) was executed
pub fn uses_ok(p: &Prog, budget: usize) -> Option<Vec<bool>> {
    let mut ids = std::collections::HashMap::new();
    let mut next = 0;
    number(&p.body, &mut next, &mut ids);
    let env: Vec<V> = p.decls.iter().map(|d| d.as_ref().map_or(V::Nil, V::of)).collect();
    let mut m = M { init: env.clone(), env, trace: Vec::new(), probe_ids: ids, steps: 0, budget, bad_use: false, uses: 0, used: Vec::new() };
    match m.block(&p.body) {
        Flow::OutOfBudget => None,
        _ if m.bad_use => None,
        _ => {
            let mut order = Vec::new();
            use_order(&p.body, &mut order);
            Some(order.iter().map(|u| m.used.contains(u)).collect())
        }
    }
}
