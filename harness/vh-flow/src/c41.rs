//! C41: narrowing after loops. Same three checks as C15 on programs of `FL` (`F` + while / repeat / numeric and
//! generic for / conditional break), through `flow.runl`. Oracle failures are classified by syntactic predicates
//! of the *input program* (the open known findings of the pinned tree).
use crate::c15;
use crate::interp;
use crate::prog::{self, Cond, GenCfg, Prog, Stmt};
use std::collections::{BTreeSet, HashSet};
use vh_common::{Args, Report, Rng};

fn cond_vars(c: &Cond, out: &mut BTreeSet<usize>) {
    match c {
        Cond::Truthy(x) | Cond::TypeIs(x, ..) | Cond::IsNil(x, ..) | Cond::EqLit(x, ..) | Cond::Stored(x, ..) => {
            out.insert(*x);
        }
        Cond::Not(c) => cond_vars(c, out),
        Cond::And(a, b) | Cond::Or(a, b) => {
            cond_vars(a, out);
            cond_vars(b, out);
        }
    }
}

/// variables assigned / read (probe or condition) anywhere in a statement list
fn assigned(b: &[Stmt], out: &mut BTreeSet<usize>) {
    for s in b {
        match s {
            Stmt::Assign(x, _) | Stmt::AssignVar(x, _) => {
                out.insert(*x);
            }
            Stmt::If(_, t, ei, e) => {
                assigned(t, out);
                for (_, x) in ei {
                    assigned(x, out);
                }
                if let Some(x) = e {
                    assigned(x, out);
                }
            }
            Stmt::While(_, x) | Stmt::WhileTrue(x) | Stmt::Repeat(x, _) | Stmt::ForNum(_, _, x) | Stmt::ForIn(_, x) => {
                assigned(x, out)
            }
            _ => {}
        }
    }
}

fn reads(b: &[Stmt], out: &mut BTreeSet<usize>) {
    for s in b {
        match s {
            Stmt::Probe(x) => {
                out.insert(*x);
            }
            Stmt::If(c, t, ei, e) => {
                cond_vars(c, out);
                reads(t, out);
                for (c, x) in ei {
                    cond_vars(c, out);
                    reads(x, out);
                }
                if let Some(x) = e {
                    reads(x, out);
                }
            }
            Stmt::While(c, x) | Stmt::Repeat(x, c) => {
                cond_vars(c, out);
                reads(x, out);
            }
            Stmt::WhileTrue(x) | Stmt::ForNum(_, _, x) | Stmt::ForIn(_, x) => reads(x, out),
            Stmt::BreakIf(c) => cond_vars(c, out),
            Stmt::Use(x) => {
                out.insert(*x);
            }
            Stmt::AssignVar(_, y) => {
                out.insert(*y);
            }
            Stmt::Assign(..) => {}
        }
    }
}

#[derive(Default)]
struct Found {
    while_exit: bool,
    forin_exit: bool,
    back_edge: bool,
}

/// variables read after position `i` of block `b` before being unconditionally reassigned at this block level
/// (`v = …` as a direct statement of the block kills `v` for the rest of the block and for the enclosing
/// continuation `after`)
fn continuation(b: &[Stmt], i: usize, after: &BTreeSet<usize>) -> BTreeSet<usize> {
    let mut cont = BTreeSet::new();
    let mut killed = BTreeSet::new();
    for s in &b[i + 1..] {
        let mut r = BTreeSet::new();
        reads(std::slice::from_ref(s), &mut r);
        for v in r {
            if !killed.contains(&v) {
                cont.insert(v);
            }
        }
        match s {
            Stmt::Assign(x, _) | Stmt::AssignVar(x, _) => {
                killed.insert(*x);
            }
            _ => {}
        }
    }
    for v in after {
        if !killed.contains(v) {
            cont.insert(*v);
        }
    }
    cont
}

/// walk a block; `after` = variables read in the continuation of the block (everything executed after it, before an
/// unconditional reassignment; over-approximated syntactically, including later iterations of enclosing loops)
fn scan(b: &[Stmt], after: &BTreeSet<usize>, f: &mut Found) {
    for (i, s) in b.iter().enumerate() {
        let cont = continuation(b, i, after);
        match s {
            Stmt::If(_, t, ei, e) => {
                scan(t, &cont, f);
                for (_, x) in ei {
                    scan(x, &cont, f);
                }
                if let Some(x) = e {
                    scan(x, &cont, f);
                }
            }
            Stmt::While(_, body) | Stmt::WhileTrue(body) | Stmt::Repeat(body, _) | Stmt::ForNum(_, _, body) | Stmt::ForIn(_, body) => {
                // a loop whose body can never run cannot fail
                let never_runs = match s {
                    Stmt::ForNum(a, z, _) => a > z,
                    Stmt::ForIn(n, _) => *n == 0,
                    _ => false,
                };
                let mut a = BTreeSet::new();
                assigned(body, &mut a);
                let mut inside = BTreeSet::new();
                reads(std::slice::from_ref(s), &mut inside);
                // with at most one iteration there is no later iteration that could read an earlier one's value
                let at_most_once = match s {
                    Stmt::ForNum(a, z, _) => a >= z,
                    Stmt::ForIn(n, _) => *n <= 1,
                    _ => false,
                };
                if !never_runs && !at_most_once && a.iter().any(|x| inside.contains(x)) {
                    f.back_edge = true;
                }
                let read_after = a.iter().any(|x| cont.contains(x));
                match s {
                    Stmt::While(..) if read_after => f.while_exit = true,
                    Stmt::ForIn(..) if read_after && !never_runs => f.forin_exit = true,
                    _ => {}
                }
                // the body's continuation: the rest of the loop (next iterations) and what follows the loop
                let mut c2 = cont.clone();
                c2.extend(inside.iter().copied());
                scan(body, &c2, f);
            }
            _ => {}
        }
    }
}

/// Known-finding classifier (input program only). Order: the documented `while` defect first.
pub fn classify(p: &Prog) -> Option<&'static str> {
    // C15 finding: a stored `type(v)` is tested after `v` may have been reassigned
    let mut all_assigned = BTreeSet::new();
    assigned(&p.body, &mut all_assigned);
    if p.stored_vars().iter().any(|x| all_assigned.contains(x)) {
        return Some("stored-type-guard-on-reassigned-variable");
    }
    let mut f = Found::default();
    scan(&p.body, &BTreeSet::new(), &mut f);
    if f.while_exit {
        Some("while-nonliteral-cond-body-assigns-var-read-after-loop")
    } else if f.forin_exit {
        Some("generic-for-body-assigns-var-read-after-loop")
    } else if f.back_edge {
        Some("loop-body-assigns-var-read-inside-loop")
    } else {
        None
    }
}

/// loop bodies assign nothing: the fragment `C41_partial` is proved for
pub fn inert_loops(p: &Prog) -> bool {
    fn b(v: &[Stmt]) -> bool {
        v.iter().all(|s| match s {
            Stmt::If(_, t, ei, e) => b(t) && ei.iter().all(|(_, x)| b(x)) && e.as_ref().is_none_or(|x| b(x)),
            Stmt::While(_, x) | Stmt::WhileTrue(x) | Stmt::Repeat(x, _) | Stmt::ForNum(_, _, x) | Stmt::ForIn(_, x) => {
                let mut a = BTreeSet::new();
                assigned(x, &mut a);
                a.is_empty() && b(x)
            }
            _ => true,
        })
    }
    b(&p.body)
}

/// C41 programs keep stored-type guards only on variables that are never assigned (the stale-stored-type defect
/// is a C15 finding and is searched there); the others become direct `type(v)` guards
fn sanitize_stored(p: &mut Prog) {
    fn c(c0: &mut Cond, bad: &BTreeSet<usize>) {
        match c0 {
            Cond::Stored(x, t, neg) if bad.contains(x) => *c0 = Cond::TypeIs(*x, *t, *neg, false),
            Cond::Not(i) => c(i, bad),
            Cond::And(a, b) | Cond::Or(a, b) => {
                c(a, bad);
                c(b, bad);
            }
            _ => {}
        }
    }
    fn b(v: &mut [Stmt], bad: &BTreeSet<usize>) {
        for s in v {
            match s {
                Stmt::If(c0, t, ei, e) => {
                    c(c0, bad);
                    b(t, bad);
                    for (ci, x) in ei {
                        c(ci, bad);
                        b(x, bad);
                    }
                    if let Some(x) = e {
                        b(x, bad);
                    }
                }
                Stmt::While(c0, x) | Stmt::Repeat(x, c0) => {
                    c(c0, bad);
                    b(x, bad);
                }
                Stmt::WhileTrue(x) | Stmt::ForNum(_, _, x) | Stmt::ForIn(_, x) => b(x, bad),
                Stmt::BreakIf(c0) => c(c0, bad),
                _ => {}
            }
        }
    }
    let mut a = BTreeSet::new();
    assigned(&p.body, &mut a);
    b(&mut p.body, &a);
}

fn has_break(b: &[Stmt]) -> bool {
    b.iter().any(|s| match s {
        Stmt::BreakIf(_) => true,
        Stmt::If(_, t, ei, e) => has_break(t) || ei.iter().any(|(_, x)| has_break(x)) || e.as_ref().is_some_and(|x| has_break(x)),
        // a break inside a nested loop leaves only that loop
        _ => false,
    })
}

/// the variable a loop's exit condition proves non-nil: `while not x`, `while x == nil`, `while type(x) ~= "string"`,
/// `repeat … until x`, `until x ~= nil`, `until type(x) == "string"` — provided the loop has no `break`
fn exit_proves_non_nil(s: &Stmt) -> Option<usize> {
    match s {
        Stmt::While(c, body) if !has_break(body) => match c {
            Cond::Not(i) => match **i {
                Cond::Truthy(x) => Some(x),
                _ => None,
            },
            Cond::IsNil(x, false, _) => Some(*x),
            Cond::TypeIs(x, 3, true, _) => Some(*x),
            _ => None,
        },
        Stmt::Repeat(body, c) if !has_break(body) => match c {
            Cond::Truthy(x) => Some(*x),
            Cond::IsNil(x, true, _) => Some(*x),
            Cond::TypeIs(x, 3, false, _) => Some(*x),
            _ => None,
        },
        _ => None,
    }
}

/// insert `local _u = v:upper()` right after every loop whose exit condition proves `v` non-nil
fn insert_uses(b: &[Stmt], n: &mut usize) -> Vec<Stmt> {
    let mut out = Vec::new();
    for s in b {
        let s2 = match s {
            Stmt::If(c, t, ei, e) => Stmt::If(
                c.clone(),
                insert_uses(t, n),
                ei.iter().map(|(c, x)| (c.clone(), insert_uses(x, n))).collect(),
                e.as_ref().map(|x| insert_uses(x, n)),
            ),
            Stmt::While(c, x) => Stmt::While(c.clone(), insert_uses(x, n)),
            Stmt::WhileTrue(x) => Stmt::WhileTrue(insert_uses(x, n)),
            Stmt::Repeat(x, c) => Stmt::Repeat(insert_uses(x, n), c.clone()),
            Stmt::ForNum(a, z, x) => Stmt::ForNum(*a, *z, insert_uses(x, n)),
            Stmt::ForIn(k, x) => Stmt::ForIn(*k, insert_uses(x, n)),
            other => other.clone(),
        };
        let proved = exit_proves_non_nil(s);
        out.push(s2);
        if let Some(x) = proved {
            out.push(Stmt::Use(x));
            *n += 1;
        }
    }
    out
}

thread_local! {
    static STD_WS: std::cell::RefCell<Option<emmylua_code_analysis::VirtualWorkspace>> = const { std::cell::RefCell::new(None) };
}

/// The property's diagnostics clause: correct code of the form `<loop whose exit proves v non-nil>; v:upper()` must
/// not get `need-check-nil` / a call on `never` for `v`. "Correct" = the VM runs the extended program without error.
pub fn diagnostics_oracle(p: &Prog, report: &mut Report) {
    let mut n = 0;
    let body = insert_uses(&p.body, &mut n);
    if n == 0 {
        return;
    }
    let ext = Prog { decls: p.decls.clone(), body };
    let Some(executed) = interp::uses_ok(&ext, 2_000) else {
        report.count("diag_oracle_skipped_use_on_non_string");
        return;
    };
    let r = ext.render();
    if crate::real::run_vm(&r.lua).is_err() {
        report.count("diag_oracle_skipped_vm_error");
        return;
    }
    if !executed.iter().any(|e| *e) {
        report.count("diag_oracle_skipped_no_use_executed");
        return;
    }
    report.count("diag_oracle_programs");
    report.add("diag_oracle_uses_executed", executed.iter().filter(|e| **e).count() as u64);
    // only uses that were executed (in document order = line order) are "correct code"
    let use_lines: Vec<u32> = r
        .lua
        .lines()
        .enumerate()
        .filter(|(_, l)| l.contains(":upper()"))
        .map(|(i, _)| i as u32)
        .zip(executed.iter())
        .filter(|(_, e)| **e)
        .map(|(i, _)| i)
        .collect();
    let diags = STD_WS.with(|w| {
        let mut w = w.borrow_mut();
        let ws = w.get_or_insert_with(emmylua_code_analysis::VirtualWorkspace::new_with_init_std_lib);
        crate::real::diagnostics_in(ws, &r.lua)
    });
    let bad: Vec<&(String, String, u32)> = diags
        .iter()
        .filter(|(code, msg, line)| {
            // the property's clause: the *variable* is reported nil-able, or the call is on `never`
            use_lines.contains(line)
                && ((code == "need-check-nil" && msg.starts_with('v') && msg.ends_with(" may be nil") && !msg.contains(':'))
                    || (code == "call-non-callable" && msg.contains("`never`")))
        })
        .collect();
    if let Some((code, msg, line)) = bad.first() {
        let class = classify(&ext);
        let key = format!("diag_oracle_fail_class_{}", class.unwrap_or("none"));
        report.count(&key);
        let v = serde_json::json!({
            "input": {"tokens": p.render().tokens, "lua": r.lua, "diagnostics_oracle": true},
            "class": class,
            "what": format!("correct loop code gets `{code}` ({msg}) at line {} for a variable the loop's exit condition proves non-nil", line + 1),
        });
        if class.is_none() {
            report.oracle_failures.insert(0, v);
            report.oracle_failures.truncate(50);
            report.count("oracle_failures_total");
        } else if report.distribution.get(&key).copied().unwrap_or(0) <= 6 {
            report.oracle_failure(v);
        }
    }
}

pub fn corpus() -> Vec<&'static str> {
    vec![
        // the documented defect: local k=nil; while not k do k='x' end; p(k)
        "1,N,{,W,!,v,0,{,A,0,S1,},P,0,0,}",
        // generic for drops the body
        "1,N,{,G,2,{,A,0,T,},P,0,0,}",
        // no back edge: second iteration reads what the first assigned
        "1,N,{,F,1,2,{,P,0,0,A,0,S1,},}",
        // inert loops (theorem fragment)
        "2,N,S1,{,W,v,0,{,P,0,1,K,v,1,},P,1,0,R,{,P,2,1,},z,0,0,P,3,0,X,{,K,y,1,string,0,P,4,1,},P,5,1,}",
        "1,I1,{,F,1,3,{,I,v,0,{,P,0,0,},n,K,z,0,1,},P,1,0,G,2,{,P,2,0,},P,3,0,}",
    ]
}

pub fn run(args: &Args, report: &mut Report) {
    report.rule = "distinct program (token stream) that contains at least one loop, reaches at least one probe in the VM, and has a probe whose inferred type is a union, a literal type, never or unknown".into();
    let mut seen = HashSet::new();
    if let Some(path) = &args.replay {
        let v: serde_json::Value = serde_json::from_str(&std::fs::read_to_string(path).expect("replay file")).expect("json");
        let toks = v["input"]["tokens"].as_str().expect("input.tokens");
        let p = prog::parse_tokens(toks).expect("tokens parse");
        diagnostics_oracle(&p, report);
        c15::run_batch(&[p], report, &mut seen, "C41");
        return;
    }
    let corpus: Vec<Prog> = corpus().iter().map(|t| prog::parse_tokens(t).expect("corpus parses")).collect();
    for p in &corpus {
        diagnostics_oracle(p, report);
    }
    c15::run_batch(&corpus, report, &mut seen, "C41");
    let mut rng = Rng::new(args.seed);
    let n = if args.thorough() { 200_000 } else { 2_500 };
    let mut batch = Vec::new();
    let mut made = 0;
    let mut tries = 0;
    while made < n && tries < n * 20 {
        tries += 1;
        let cfg = match tries % 3 {
            0 => GenCfg { max_vars: 1, max_depth: 2, max_block: 3, logic: false, loops: true },
            1 => GenCfg { max_vars: 2, max_depth: 3, max_block: 3, logic: true, loops: true },
            _ => GenCfg { max_vars: 3, max_depth: 3, max_block: 2, logic: false, loops: true },
        };
        let mut p = prog::gen_prog(&mut rng, &cfg);
        sanitize_stored(&mut p);
        if !p.has_loop() {
            continue;
        }
        // discard programs that do not terminate quickly (the VM has no step budget)
        if interp::run(&p, 400).is_none() {
            report.count("generated_nonterminating_discarded");
            continue;
        }
        made += 1;
        report.count(if inert_loops(&p) { "loops_inert_theorem_fragment" } else { "loops_assigning" });
        match classify(&p) {
            Some(c) => report.count(&format!("class_{c}")),
            None => report.count("class_none"),
        }
        diagnostics_oracle(&p, report);
        batch.push(p);
        if batch.len() == 500 {
            c15::run_batch(&batch, report, &mut seen, "C41");
            batch.clear();
        }
    }
    c15::run_batch(&batch, report, &mut seen, "C41");
}
