//! C41: loops. (classifier first; the runner is added with the loop model)
use crate::prog::Prog;

pub fn classify(_p: &Prog) -> Option<&'static str> {
    None
}
