//! Harness binary for the flow-narrowing cluster (C15, C41).
mod c15;
mod c41;
mod interp;
mod prog;
mod real;

use vh_common::{Args, Report};

fn main() {
    let args = Args::parse();
    if args.prop == "explore" {
        // vh-flow explore --file F : print the inferred type at every probe `p(<id>, <name>)`
        let path = args.extra.get("file").expect("--file");
        let text = std::fs::read_to_string(path).expect("read");
        for pt in real::infer_probes(&text) {
            println!("probe {} {}: {}    [{:?}]", pt.id, pt.var, pt.human, pt.atoms);
        }
        match real::run_vm(&text) {
            Ok(tr) => println!("vm: {:?}", tr),
            Err(e) => println!("vm error: {e}"),
        }
        for d in real::diagnostics(&text) {
            if d.0 != "undefined-global" {
                println!("diag: {:?}", d);
            }
        }
        return;
    }
    vh_common::silence_panics();
    let mut report = Report::default();
    match args.prop.as_str() {
        "C15" => c15::run(&args, &mut report),
        "C41" => c41::run(&args, &mut report),
        other => {
            eprintln!("vh-flow: unknown property {other}");
            std::process::exit(2);
        }
    }
    report.write(&args.out);
}
