//! C15 (and the shared machinery for C41): correspondence `TypeAt` (Lean model) vs `SemanticModel::infer_expr`,
//! `Sem` (Lean model) vs the luars VM, and the property's own oracle: the runtime type recorded by the VM at
//! every reached probe must be included in the type the analyzer infers there.
use crate::prog::{self, GenCfg, Prog};
use crate::real;
use serde_json::json;
use std::collections::{BTreeMap, HashSet};
use vh_common::{Args, Report, Rng};

/// does a canonical inferred type (real analyzer output) include a VM runtime atom?
pub fn includes(atoms: &[String], rt: &str) -> bool {
    atoms.iter().any(|a| {
        let a = a.as_str();
        if a == "unknown" || a == "any" {
            return true;
        }
        match rt {
            "nil" => a == "nil",
            "true" => a == "boolean" || a == "true",
            "false" => a == "boolean" || a == "false",
            "number" => a == "number" || a == "integer" || a.starts_with('i') && a != "integer" || a.starts_with('f') && a != "false",
            "string" => a == "string" || (a.starts_with('s') && a != "string"),
            "table" => a == "table" || (a.starts_with('t') && a != "table" && a != "true"),
            _ => false,
        }
    })
}

/// VM atom of a model value rendering (`S=` part of the driver answer)
fn val_atom(v: &str) -> &str {
    match v {
        "nil" => "nil",
        "true" => "true",
        "false" => "false",
        _ => match v.as_bytes()[0] {
            b'i' | b'f' => "number",
            b's' => "string",
            b't' => "table",
            _ => "?",
        },
    }
}

pub struct ModelOut {
    pub types: BTreeMap<i64, String>,
    pub trace: Vec<(i64, String)>,
}

pub fn parse_model(line: &str) -> Option<ModelOut> {
    let rest = line.strip_prefix("ok ")?;
    let (t, s) = rest.split_once(" S=")?;
    let t = t.strip_prefix("T=")?;
    let mut types = BTreeMap::new();
    for e in t.split(';').filter(|e| !e.is_empty()) {
        let mut it = e.splitn(3, ':');
        let id: i64 = it.next()?.parse().ok()?;
        let _x = it.next()?;
        types.insert(id, it.next()?.to_string());
    }
    let mut trace = Vec::new();
    for e in s.split(';').filter(|e| !e.is_empty()) {
        let mut it = e.splitn(3, ':');
        let id: i64 = it.next()?.parse().ok()?;
        let _x = it.next()?;
        trace.push((id, it.next()?.to_string()));
    }
    Some(ModelOut { types, trace })
}

pub struct CaseResult {
    pub nontrivial: bool,
}

/// Known-finding classifier: computed from the input program only.
pub fn classify(p: &Prog) -> Option<&'static str> {
    crate::c41::classify(p)
}

/// evaluate one program against model, analyzer and VM
pub fn check_case(p: &Prog, model_line: &str, report: &mut Report, _prop: &str) -> CaseResult {
    let r = p.render();
    let input = json!({"tokens": r.tokens, "lua": r.lua});
    let class = classify(p);
    let mut res = CaseResult { nontrivial: false };
    let Some(model) = parse_model(model_line) else {
        report.mismatch(json!({"input": input, "what": "model driver rejected the program", "model": model_line}));
        return res;
    };
    let real_types = match vh_common::catch(std::panic::AssertUnwindSafe(|| real::infer_probes(&r.lua))) {
        Ok(t) => t,
        Err(msg) => {
            report.oracle_failure(json!({"input": input, "what": format!("analyzer panicked: {msg}"), "class": null}));
            return res;
        }
    };
    // --- tie 1: TypeAt vs infer_expr at every probe (reached or not)
    if real_types.len() != r.probes {
        report.mismatch(json!({"input": input, "what": "probe count differs", "real": real_types.len(), "rendered": r.probes}));
        return res;
    }
    let mut real_by_id: BTreeMap<i64, Vec<String>> = BTreeMap::new();
    let mut tie_ok = true;
    for pt in &real_types {
        let real_s = match &pt.atoms {
            Ok(a) => a.join("|"),
            Err(e) => format!("<err {e}>"),
        };
        if let Ok(a) = &pt.atoms {
            real_by_id.insert(pt.id, a.clone());
        }
        let model_s = model.types.get(&pt.id).cloned().unwrap_or_else(|| "<missing>".into());
        report.count(if real_s.contains('|') { "probe_type_union" } else { "probe_type_single" });
        if real_s == "never" {
            report.count("probe_type_never");
        }
        if real_s != model_s && tie_ok {
            tie_ok = false;
            directed_search(p, report);
            // a disagreement inside a known finding's predicate is part of that finding, not a new one
            {
                report.mismatch(json!({
                    "input": input, "what": "TypeAt (model) differs from infer_expr (implementation)",
                    "probe": pt.id, "var": pt.var, "model": model_s, "impl": real_s, "impl_human": pt.human,
                }));
            }
        }
    }
    // --- tie 2: Sem vs the VM
    let vm = match real::run_vm(&r.lua) {
        Ok(t) => t,
        Err(e) => {
            report.mismatch(json!({"input": input, "what": format!("VM rejected the program: {e}")}));
            return res;
        }
    };
    let sem: Vec<(i64, String)> = model.trace.iter().map(|(i, v)| (*i, val_atom(v).to_string())).collect();
    // second reference, independent of the model: the harness-side interpreter
    if let Some(own) = crate::interp::run(p, 100_000) {
        if own != vm {
            report.mismatch(json!({"input": input, "what": "harness interpreter trace differs from the VM trace", "interp": format!("{:?}", own), "vm": format!("{:?}", vm)}));
        }
    }
    if sem != vm {
        report.mismatch(json!({"input": input, "what": "Sem (model) trace differs from the VM trace", "model": format!("{:?}", sem), "vm": format!("{:?}", vm)}));
    } else {
        report.traces_validated += 1;
    }
    report.add("probes_reached", vm.len() as u64);
    report.add("probes_total", r.probes as u64);
    // --- oracle: runtime type ∈ inferred type at every reached probe (implementation only)
    for (id, rt) in &vm {
        match real_by_id.get(id) {
            Some(atoms) => {
                if !includes(atoms, rt) {
                    let key = format!("oracle_fail_class_{}", class.unwrap_or("none"));
                    report.count(&key);
                    let v = json!({
                        "input": input, "class": class,
                        "what": format!("probe {id} reached with a value of type {rt}, inferred type {} does not include it", atoms.join("|")),
                    });
                    if class.is_none() {
                        // failures outside every known predicate must never be crowded out of the (capped) list
                        report.oracle_failures.insert(0, v);
                        report.oracle_failures.truncate(50);
                        report.count("oracle_failures_total");
                    } else if report.distribution.get(&key).copied().unwrap_or(0) <= 12 {
                        report.oracle_failure(v);
                    } else {
                        report.count("oracle_failures_known_class_not_listed");
                    }
                    break;
                }
                if atoms.len() == 1 && atoms[0] == "never" {
                    // covered by the inclusion test above (never includes nothing); kept for the distribution
                    report.count("reached_never");
                }
            }
            None => {
                report.oracle_failure(json!({
                    "input": input, "class": class,
                    "what": format!("probe {id} reached but infer_expr failed there"),
                }));
                break;
            }
        }
    }
    // non-trivial: has a branch or loop, reaches a probe, and some probe's type differs from the declared one
    let declared: HashSet<String> = HashSet::new();
    let _ = declared;
    res.nontrivial = (p.count_ifs() > 0 || p.has_loop()) && !vm.is_empty() && real_types.iter().any(|t| match &t.atoms {
        Ok(a) => a.len() > 1 || a[0] == "never" || a[0] == "unknown" || a[0].starts_with('i') || a[0].starts_with('s') || a[0] == "true" || a[0] == "false",
        Err(_) => false,
    });
    res
}

/// implementation-side oracle alone (no model): `Some(failure)` when a probe reached in the VM has a runtime type
/// that the analyzer's inferred type excludes
pub fn oracle_only(p: &Prog) -> Option<serde_json::Value> {
    crate::interp::run(p, 2_000)?; // terminating programs only
    let r = p.render();
    let real_types = vh_common::catch(std::panic::AssertUnwindSafe(|| real::infer_probes(&r.lua))).ok()?;
    let vm = real::run_vm(&r.lua).ok()?;
    for (id, rt) in &vm {
        let t = real_types.iter().find(|t| t.id == *id)?;
        let atoms = t.atoms.as_ref().ok()?;
        if !includes(atoms, rt) {
            return Some(json!({
                "input": {"tokens": r.tokens, "lua": r.lua},
                "class": classify(p),
                "what": format!("probe {id} reached with a value of type {rt}, inferred type {} does not include it", atoms.join("|")),
            }));
        }
    }
    None
}

fn map_blocks(b: &[crate::prog::Stmt], f: &mut dyn FnMut(Vec<crate::prog::Stmt>) -> Vec<crate::prog::Stmt>) -> Vec<crate::prog::Stmt> {
    use crate::prog::Stmt;
    let inner: Vec<Stmt> = b
        .iter()
        .map(|s| match s {
            Stmt::If(c, t, ei, e) => Stmt::If(
                c.clone(),
                map_blocks(t, f),
                ei.iter().map(|(c, x)| (c.clone(), map_blocks(x, f))).collect(),
                e.as_ref().map(|x| map_blocks(x, f)),
            ),
            Stmt::While(c, x) => Stmt::While(c.clone(), map_blocks(x, f)),
            Stmt::WhileTrue(x) => Stmt::WhileTrue(map_blocks(x, f)),
            Stmt::Repeat(x, c) => Stmt::Repeat(map_blocks(x, f), c.clone()),
            Stmt::ForNum(a, z, x) => Stmt::ForNum(*a, *z, map_blocks(x, f)),
            Stmt::ForIn(n, x) => Stmt::ForIn(*n, map_blocks(x, f)),
            other => other.clone(),
        })
        .collect();
    f(inner)
}

/// Variants of a program on which model and implementation disagree: a probe of every variable at the start and
/// end of every block; every literal (initial values and assigned literals) replaced in turn by each of
/// nil/false/true/1/"s1"/{} so that both sides of every guard get executed; then/else bodies swapped.
pub fn variants(p: &Prog, cap: usize) -> Vec<Prog> {
    use crate::prog::{Lit, Stmt};
    let nv = p.decls.len();
    // (1) probes in every arm
    let mut probed = p.clone();
    probed.body = map_blocks(&p.body, &mut |mut b: Vec<Stmt>| {
        let mut out: Vec<Stmt> = (0..nv).map(Stmt::Probe).collect();
        out.append(&mut b);
        out.extend((0..nv).map(Stmt::Probe));
        out
    });
    let lits = [Lit::Nil, Lit::Bool(false), Lit::Bool(true), Lit::Int(1), Lit::Str(1), Lit::Tbl];
    let mut out = vec![probed.clone()];
    // (2) initial values
    for i in 0..nv {
        for l in &lits {
            let mut q = probed.clone();
            q.decls[i] = Some(l.clone());
            out.push(q);
        }
    }
    // (3) assigned literals, one site at a time
    fn count_assigns(b: &[Stmt]) -> usize {
        b.iter()
            .map(|s| match s {
                Stmt::Assign(..) => 1,
                Stmt::If(_, t, ei, e) => {
                    count_assigns(t) + ei.iter().map(|(_, x)| count_assigns(x)).sum::<usize>() + e.as_ref().map_or(0, |x| count_assigns(x))
                }
                Stmt::While(_, x) | Stmt::WhileTrue(x) | Stmt::Repeat(x, _) | Stmt::ForNum(_, _, x) | Stmt::ForIn(_, x) => count_assigns(x),
                _ => 0,
            })
            .sum()
    }
    fn set_assign(b: &mut [Stmt], k: &mut usize, target: usize, l: &Lit) {
        for s in b {
            match s {
                Stmt::Assign(_, lit) => {
                    if *k == target {
                        *lit = l.clone();
                    }
                    *k += 1;
                }
                Stmt::If(_, t, ei, e) => {
                    set_assign(t, k, target, l);
                    for (_, x) in ei {
                        set_assign(x, k, target, l);
                    }
                    if let Some(x) = e {
                        set_assign(x, k, target, l);
                    }
                }
                Stmt::While(_, x) | Stmt::WhileTrue(x) | Stmt::Repeat(x, _) | Stmt::ForNum(_, _, x) | Stmt::ForIn(_, x) => {
                    set_assign(x, k, target, l)
                }
                _ => {}
            }
        }
    }
    let n_assign = count_assigns(&probed.body);
    for site in 0..n_assign {
        for l in &lits {
            let mut q = probed.clone();
            let mut k = 0;
            set_assign(&mut q.body, &mut k, site, l);
            out.push(q);
        }
    }
    // (4) then/else swapped, one `if` at a time (an absent else becomes an empty then)
    fn count_ifs(b: &[Stmt]) -> usize {
        b.iter()
            .map(|s| match s {
                Stmt::If(_, t, ei, e) => 1 + count_ifs(t) + ei.iter().map(|(_, x)| count_ifs(x)).sum::<usize>() + e.as_ref().map_or(0, |x| count_ifs(x)),
                Stmt::While(_, x) | Stmt::WhileTrue(x) | Stmt::Repeat(x, _) | Stmt::ForNum(_, _, x) | Stmt::ForIn(_, x) => count_ifs(x),
                _ => 0,
            })
            .sum()
    }
    fn swap_if(b: &mut [Stmt], k: &mut usize, target: usize) {
        for s in b {
            match s {
                Stmt::If(_, t, ei, e) => {
                    if *k == target && ei.is_empty() {
                        let old_then = std::mem::take(t);
                        *t = e.take().unwrap_or_default();
                        *e = Some(old_then);
                    }
                    *k += 1;
                    swap_if(t, k, target);
                    for (_, x) in ei {
                        swap_if(x, k, target);
                    }
                    if let Some(x) = e {
                        swap_if(x, k, target);
                    }
                }
                Stmt::While(_, x) | Stmt::WhileTrue(x) | Stmt::Repeat(x, _) | Stmt::ForNum(_, _, x) | Stmt::ForIn(_, x) => swap_if(x, k, target),
                _ => {}
            }
        }
    }
    for site in 0..count_ifs(&probed.body) {
        let mut q = probed.clone();
        let mut k = 0;
        swap_if(&mut q.body, &mut k, site);
        out.push(q);
    }
    // (5) pairs: an initial value together with an assigned literal (small programs only)
    if nv * n_assign <= 12 {
        for i in 0..nv {
            for l1 in &lits {
                for site in 0..n_assign {
                    for l2 in &lits {
                        let mut q = probed.clone();
                        q.decls[i] = Some(l1.clone());
                        let mut k = 0;
                        set_assign(&mut q.body, &mut k, site, l2);
                        out.push(q);
                    }
                }
            }
        }
    }
    out.truncate(cap);
    out
}

/// Directed search after a correspondence mismatch: run the implementation-side oracle on the variants of the
/// mismatching program and report the first one that violates the property.
pub fn directed_search(p: &Prog, report: &mut Report) {
    if report.distribution.get("directed_searches").copied().unwrap_or(0) >= 8 {
        return;
    }
    report.count("directed_searches");
    let vs = variants(p, 1500);
    report.add("directed_search_variants", vs.len() as u64);
    for q in &vs {
        if let Some(mut f) = oracle_only(q) {
            f["found_by"] = json!("directed search over variants of a program on which model and implementation disagree");
            f["mismatching_program"] = json!(p.render().lua);
            let key = format!("oracle_fail_class_{}", f["class"].as_str().unwrap_or("none"));
            report.count(&key);
            report.count("directed_search_found_failing_input");
            if f["class"].is_null() {
                report.oracle_failures.insert(0, f);
                report.oracle_failures.truncate(50);
                report.count("oracle_failures_total");
            } else {
                report.oracle_failure(f);
            }
            return;
        }
    }
}

pub fn run_batch(progs: &[Prog], report: &mut Report, seen: &mut HashSet<String>, prop: &str) {
    let reqs: Vec<String> = progs
        .iter()
        .map(|p| if prop == "C41" { format!("flow.runl {} 400", p.render().tokens) } else { format!("flow.run {}", p.render().tokens) })
        .collect();
    let answers = vh_common::run_driver(&reqs);
    for (p, a) in progs.iter().zip(answers.iter()) {
        report.evaluations += 1;
        let r = check_case(p, a, report, prop);
        let key = p.render().tokens;
        if r.nontrivial && seen.insert(key) {
            report.distinct_nontrivial += 1;
        }
        if p.render().tokens.contains(",V,") {
            report.count("programs_with_variable_assignment");
        }
        for k in p.guard_kinds() {
            report.count(&format!("programs_with_guard_{k}"));
        }
        report.count(&format!("size_{:02}", (p.size() / 4) * 4));
        report.count(&format!("ifs_{}", p.count_ifs().min(6)));
        if report.samples.len() < 3 && r.nontrivial {
            report.sample(json!({"lua": p.render().lua, "model": a}));
        }
    }
}

pub fn corpus() -> Vec<&'static str> {
    vec![
        // fixed finding C15-empty-else (6234bcf): the else path of `if c then … else end` was dropped
        "1,I1,{,I,y,0,table,0,{,P,0,0,},e,{,},P,1,0,}",
        "2,-,-,{,I,z,1,1,{,A,0,I2,},e,{,},P,0,0,P,1,1,}",
        // open finding C15-stale-stored-type: local t0 = type(v0); v0 = "s1"; if t0 == "number" then p(v0) end
        "1,I1,{,A,0,S1,I,t,0,number,number,0,{,P,0,0,},n,}",
        // x == literal / x ~= literal, stored type() on a variable that is never assigned
        "2,I1,S2,{,A,0,I2,I,q,0,I2,0,{,P,0,0,},e,{,P,1,0,},I,q,0,S1,1,{,P,2,0,},n,I,t,1,string,string,0,{,P,3,1,},e,{,P,4,1,},}",
        // fixed findings through `x = y`: unknown|nil source then `x = false` (80b555b); union over union (5dcb194)
        "2,N,N,{,I,v,1,{,},n,V,0,1,A,0,F,P,0,0,}",
        "3,T,N,S1,{,I,v,0,{,A,1,I1,},n,I,v,0,{,A,2,N,},n,V,2,1,P,0,2,}",
        // direct guards
        "1,N,{,A,0,I1,P,0,0,I,v,0,{,P,1,0,},e,{,P,2,0,},}",
        "1,S1,{,I,y,0,string,0,{,P,0,0,},e,{,P,1,0,},A,0,N,I,z,0,0,{,P,2,0,},e,{,P,3,0,},P,4,0,}",
        "2,-,T,{,I,v,1,{,A,0,I1,},e,{,A,0,S2,},P,0,0,I,y,0,number,0,{,P,1,0,},e,{,P,2,0,},}",
        // and / or / not
        "2,N,S1,{,A,0,I2,I,&,v,0,y,1,string,0,{,P,0,0,P,1,1,},e,{,P,2,0,P,3,1,},I,|,!,v,0,z,1,1,{,P,4,0,},n,P,5,1,}",
    ]
}

/// thorough tier: every program `local v0 = d; S1; S2; p(v0)` with S from a small statement alphabet
/// (assignments and one-level ifs over all guard kinds)
pub fn exhaustive_small() -> Vec<Prog> {
    use crate::prog::{Cond, Lit, Stmt};
    let lits = [Lit::Nil, Lit::Int(1), Lit::Str(1), Lit::Bool(false)];
    let conds = vec![
        Cond::Truthy(0),
        Cond::Not(Box::new(Cond::Truthy(0))),
        Cond::TypeIs(0, 2, false, false),
        Cond::TypeIs(0, 3, true, false),
        Cond::IsNil(0, false, false),
        Cond::IsNil(0, true, false),
        Cond::EqLit(0, Lit::Int(1), false, false),
        Cond::EqLit(0, Lit::Str(1), true, false),
    ];
    let mut stmts: Vec<Stmt> = lits.iter().map(|l| Stmt::Assign(0, l.clone())).collect();
    for c in &conds {
        for t in 0..lits.len() {
            // else: none, empty, or one of the assignments
            stmts.push(Stmt::If(c.clone(), vec![Stmt::Assign(0, lits[t].clone()), Stmt::Probe(0)], vec![], None));
            for e in 0..lits.len() {
                stmts.push(Stmt::If(
                    c.clone(),
                    vec![Stmt::Assign(0, lits[t].clone())],
                    vec![],
                    Some(vec![Stmt::Probe(0), Stmt::Assign(0, lits[e].clone())]),
                ));
            }
        }
        stmts.push(Stmt::If(c.clone(), vec![Stmt::Probe(0)], vec![], Some(vec![])));
    }
    let mut out = Vec::new();
    for d in [Lit::Nil, Lit::Int(2), Lit::Bool(true)] {
        for a in &stmts {
            for b in &stmts {
                out.push(Prog { decls: vec![Some(d.clone())], body: vec![a.clone(), b.clone(), Stmt::Probe(0)] });
            }
        }
    }
    out
}

pub fn run(args: &Args, report: &mut Report) {
    report.rule = "distinct program (token stream) that has at least one if/loop, reaches at least one probe in the VM, and has a probe whose inferred type is a union, a literal type, never or unknown (i.e. narrowing or assignment flow is exercised)".into();
    let mut seen = HashSet::new();
    if let Some(path) = &args.replay {
        let v: serde_json::Value = serde_json::from_str(&std::fs::read_to_string(path).expect("replay file")).expect("json");
        let toks = v["input"]["tokens"].as_str().expect("input.tokens");
        let p = prog::parse_tokens(toks).expect("tokens parse");
        run_batch(&[p], report, &mut seen, &args.prop);
        return;
    }
    let corpus: Vec<Prog> = corpus().iter().map(|t| prog::parse_tokens(t).expect("corpus parses")).collect();
    run_batch(&corpus, report, &mut seen, &args.prop);
    if args.thorough() {
        let all = exhaustive_small();
        report.add("exhaustive_small_programs", all.len() as u64);
        for chunk in all.chunks(2000) {
            run_batch(chunk, report, &mut seen, &args.prop);
        }
        report.notes.push("thorough: exhaustive scope `local v0 = d; S1; S2; p(v0)`, d ∈ {nil,2,true}, S ∈ 4 assignments + 6 guards × (then-assign × {no else, 4 else-assigns}) + empty-else forms".into());
    }
    let mut rng = Rng::new(args.seed);
    let n = if args.thorough() { 200_000 } else { 2_500 };
    let mut batch = Vec::new();
    for i in 0..n {
        let cfg = match i % 4 {
            0 => GenCfg { max_vars: 1, max_depth: 2, max_block: 3, logic: false, loops: false },
            1 => GenCfg { max_vars: 2, max_depth: 2, max_block: 3, logic: true, loops: false },
            2 => GenCfg { max_vars: 3, max_depth: 3, max_block: 3, logic: true, loops: false },
            _ => GenCfg { max_vars: 2, max_depth: 3, max_block: 2, logic: false, loops: false },
        };
        batch.push(prog::gen_prog(&mut rng, &cfg));
        if batch.len() == 500 {
            run_batch(&batch, report, &mut seen, &args.prop);
            batch.clear();
        }
    }
    run_batch(&batch, report, &mut seen, &args.prop);
}
